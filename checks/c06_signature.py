"""C06 - signature changes keep every call bound to the same parameter values.

Generated functions RETURN THE TUPLE OF THEIR BOUND PARAMETERS and every call's result is printed,
so output equality is per-parameter value equality.  Signature shapes x call shapes x changer
sequences (Normalizer, Reorderer with/without autodef, Adder with default or value, Remover of an
unused parameter, DefaultInliner) are applied through ChangeSignature / IntroduceParameter; the
changed project must compile and print the same, or the request must be refused with a RopeError.
"""
import ast
import sys

from vlib import behave, core, pyrun, srcpos

ID = "C06"
READY = True
LEVEL = "exploration"
RULE = ("signature shape (0-4 plain/defaulted parameters, optional *args, **kw, keyword-only) x host kind "
        "(function, method, classmethod, staticmethod, constructor) x 6-10 call sites per function in 2 client "
        "modules (positional, keyword, mixed, defaults omitted, *seq, **map, via instance/class/alias) x changer "
        "sequences of length 1-2; non-trivial = request performed that rewrote a call site; distinct = (host "
        "kind, star/kw features, changer sequence, call shapes present, outcome)")
ASSUMPTIONS = ["removed parameters are ones the body does not read; added parameters are not read",
               "receivers of method calls are statically determined (instance assigned once from the class)"]
BUDGET = {"quick": (3000, 240), "thorough": (51000, 900)}
EXHAUSTIVE = {}
CASE_TIMEOUT = 300
REQUIRE = {"performed_and_run": 300, "introduce_performed_and_run": 100}
TECHNIQUE = ("differential execution of generated programs whose functions return their bound parameters "
             "(output equality = per-parameter value equality), refusal checked against rope's error hierarchy")
LEVEL_TEXT = ("Each request is performed by the real code on a generated multi-module program and the result is "
              "executed; a call that binds a different value to a surviving parameter changes the printed tuple.")
LEVEL_NOTE = ("sampled signature x call-shape x changer space (the small product is sampled densely, not "
              "enumerated); programs are in fragment F; known rope defects are listed by mechanism")
DESIGN_REF = "DESIGN.md section 5, C06"


def cases(tier, seed):
    i = 0
    while True:
        yield {"seed": f"{seed}/C06/{i}"}
        if i % 5 == 0:
            yield {"seed": f"{seed}/C06/introduce/{i}", "introduce": 1}
        i += 1


# ------------------------------------------------------------------ generator
PN = ["a", "b", "c", "d", "e"]


def gen_sig(rnd, host):
    n = rnd.randint(0 if host != "function" else 1, 4)
    nd = rnd.randint(0, n)
    params = [(PN[i], None if i < n - nd else str(rnd.randint(10, 99))) for i in range(n)]
    star = rnd.random() < 0.2
    kwonly = [("ko", str(rnd.randint(100, 199)))] if rnd.random() < 0.15 else []
    kw = rnd.random() < 0.15
    unused = rnd.choice([p[0] for p in params]) if params and rnd.random() < 0.5 else None
    return {"params": params, "star": star, "kwonly": kwonly, "kw": kw, "unused": unused}


def sig_text(sig, first=None):
    parts = ([first] if first else []) + [n if d is None else f"{n}={d}" for n, d in sig["params"]]
    if sig["star"]:
        parts.append("*rest")
    elif sig["kwonly"]:
        parts.append("*")
    parts += [f"{n}={d}" for n, d in sig["kwonly"]]
    if sig["kw"]:
        parts.append("**opts")
    return ", ".join(parts)


def body_text(sig, tag, indent):
    items = [repr(tag)] + [n for n, _ in sig["params"] if n != sig["unused"]]
    if sig["star"]:
        items.append("rest")
    items += [n for n, _ in sig["kwonly"]]
    if sig["kw"]:
        items.append("sorted(opts.items())")
    return " " * indent + "return (" + ", ".join(items) + ",)"


def gen_call_args(rnd, sig, allow=()):
    """A valid argument list; returns (text, shape label)."""
    ps = sig["params"]
    vals = iter(range(1, 50))
    style = rnd.choice(["pos", "kw", "mixed", "omit"] + list(allow))
    out, shape = [], {style}
    kw_started = False
    if style == "star" and ps:
        k = rnd.randint(1, len(ps))
        out.append("*[" + ", ".join(str(next(vals)) for _ in range(k)) + ("," if k == 1 else "") + "]")
        rest = ps[k:]
        for n, d in rest:
            if d is None or rnd.random() < 0.5:
                out.append(f"{n}={next(vals)}")
        kw_started = True
    elif style == "dstar" and ps:
        k = rnd.randint(0, len(ps) - 1)
        for n, d in ps[:k]:
            out.append(str(next(vals)))
        m = [(n, next(vals)) for n, d in ps[k:] if d is None or rnd.random() < 0.6]
        if m:
            out.append("**{" + ", ".join(f"{n!r}: {v}" for n, v in m) + "}")
        else:
            out += [f"{n}={next(vals)}" for n, d in ps[k:] if d is None]
        kw_started = True
    else:
        for n, d in ps:
            if d is not None and (style == "omit" or rnd.random() < 0.3):
                kw_started = True
                shape.add("default-omitted")
                continue
            if kw_started or style == "kw" or (style == "mixed" and rnd.random() < 0.5):
                out.append(f"{n}={next(vals)}")
                kw_started = True
            else:
                out.append(str(next(vals)))
        if style == "kw" and len(out) > 1 and rnd.random() < 0.5:
            rnd.shuffle(out)
            shape.add("kw-reordered")
    if sig["star"] and not kw_started and rnd.random() < 0.5:
        out += [str(next(vals)) for _ in range(rnd.randint(1, 2))]
        shape.add("extra-positional")
    for n, d in sig["kwonly"]:
        if rnd.random() < 0.5:
            out.append(f"{n}={next(vals)}")
    if sig["kw"] and rnd.random() < 0.5:
        out.append(f"zz={next(vals)}")
        shape.add("extra-keyword")
    return ", ".join(out), sorted(shape)


def gen_project(rnd):
    host = rnd.choice(["function", "function", "method", "classmethod", "staticmethod", "constructor"])
    sig = gen_sig(rnd, host)
    lib = []
    if host == "function":
        lib += [f"def target({sig_text(sig)}):", body_text(sig, "target", 4), ""]
        lib += ["def other(a, b=1):", "    return ('other', a, b)", ""]
    else:
        lib += ["class Box:"]
        if host == "constructor":
            lib += [f"    def __init__({sig_text(sig, 'self')}):",
                    body_text(sig, "init", 8).replace("return ", "self.seen = "), ""]
        else:
            lib += ["    def __init__(self, tag=0):", "        self.tag = tag", ""]
        if host == "method":
            lib += [f"    def target({sig_text(sig, 'self')}):",
                    body_text(sig, "target", 8).replace("('target',", "('target', self.tag,"), ""]
        elif host == "classmethod":
            lib += ["    @classmethod", f"    def target({sig_text(sig, 'cls')}):", body_text(sig, "target", 8), ""]
        elif host == "staticmethod":
            lib += ["    @staticmethod", f"    def target({sig_text(sig)}):", body_text(sig, "target", 8), ""]
        lib += ["    def other(self, a, b=1):", "        return ('other', a, b)", ""]
        lib += ["class Holder:", "    def __init__(self):", "        self.box = Box(6)", ""]
    files = {"lib.py": "\n".join(lib) + "\n"}
    shapes = set()
    allow = (["star"] if rnd.random() < 0.15 else []) + (["dstar"] if rnd.random() < 0.1 else [])
    for ci, cname in enumerate(["client_a.py", "client_b.py"]):
        style = rnd.choice(["import", "from", "alias"])
        lines = []
        if style == "import":
            lines.append("import lib")
            mod = "lib."
        elif style == "alias":
            lines.append("import lib as L")
            mod = "L."
        else:
            lines.append("from lib import " + ("target, other" if host == "function" else "Box, Holder"))
            mod = ""
        lines.append("")
        if host != "function" and host != "constructor":
            lines.append(f"box = {mod}Box(3)")
            lines.append(f"spare = {mod}Box(4)")
            lines.append(f"holder = {mod}Holder()")
            lines.append("flag = 1")
        for k in range(rnd.randint(3, 5)):
            args, shape = gen_call_args(rnd, sig, allow)
            shapes.update(shape)
            if host == "function":
                call = f"{mod}target({args})"
            elif host == "constructor":
                lines.append(f"b{k} = {mod}Box({args})")
                lines.append(f"print('client{ci}', {k}, b{k}.seen)")
                continue
            elif host == "method":
                if rnd.random() < 0.25:
                    call = f"{mod}Box.target(box" + (", " + args if args else "") + ")"
                    shapes.add("unbound-method-call")
                else:
                    # receivers that are expressions: the rewritten call must keep them intact
                    recv = rnd.choice(["box"] * 6 + ["(box or spare)", "(box if flag else spare)", "(spare if not flag else box)",
                                                      f"{mod}Box(5)", "holder.box"])
                    if recv != "box":
                        shapes.add("receiver-is-an-expression")
                    call = f"{recv}.target({args})"
            else:
                call = rnd.choice([f"{mod}Box.target({args})", f"box.target({args})"])
            if rnd.random() < 0.2:
                lines.append(f"print('client{ci}', {k}, [{call}, {call}])")
                shapes.add("nested-in-expression")
            else:
                lines.append(f"print('client{ci}', {k}, {call})")
        if host == "function":
            lines.append(f"print({mod}other(1, b=2))")
        files[cname] = "\n".join(lines) + "\n"
    files["main.py"] = "import client_a\nimport client_b\n"
    files["import_all.py"] = "import lib\nprint('ok')\n"
    return files, host, sig, sorted(shapes)


def gen_changers(rnd, sig, host):
    """A changer sequence expressed on parameter NAMES (indices are resolved against rope's own
    get_args() at request time, which lists `self`/`cls` first for methods)."""
    cur = list(sig["params"])
    seq = []
    for _ in range(rnd.choice([1, 1, 2])):
        kind = rnd.choice(["normalize", "reorder", "reorder", "add_default", "add_value", "remove", "inline_default"])
        if kind == "normalize":
            seq.append(["normalize"])
        elif kind == "reorder" and len(cur) >= 2:
            new = list(cur)
            rnd.shuffle(new)
            legal = all(not (new[i][1] is not None and new[i + 1][1] is None) for i in range(len(new) - 1))
            autodef = "0" if (not legal and rnd.random() < 0.6) else None
            seq.append(["reorder", [n for n, _ in new], autodef, legal])
            if autodef:
                seen, cur2 = False, []
                for nm, d in new:
                    seen = seen or d is not None
                    cur2.append((nm, "0" if seen and d is None else d))
                new = cur2
            cur = new
        elif kind == "add_default":
            idx = rnd.randint(len([p for p in cur if p[1] is None]), len(cur))
            seq.append(["add", idx, "fresh_p", "777", None])
            cur.insert(idx, ("fresh_p", "777"))
        elif kind == "add_value":
            idx = rnd.randint(0, len([p for p in cur if p[1] is None]))
            seq.append(["add", idx, "fresh_q", None, "555"])
            cur.insert(idx, ("fresh_q", None))
        elif kind == "remove" and sig["unused"] and any(p[0] == sig["unused"] for p in cur):
            seq.append(["remove", sig["unused"]])
            cur = [p for p in cur if p[0] != sig["unused"]]
        elif kind == "inline_default" and any(d is not None for _, d in cur):
            seq.append(["inline_default", rnd.choice([n for n, d in cur if d is not None])])
    return seq or [["normalize"]]


def build_changers(seq, args):
    """args = names from ChangeSignature.get_args() (may start with self/cls)."""
    from rope.refactor import change_signature as cs
    names = [a[0] for a in args]
    lead = 1 if names and names[0] in ("self", "cls") else 0
    out = []
    for c in seq:
        if c[0] == "normalize":
            out.append(cs.ArgumentNormalizer())
        elif c[0] == "reorder":
            order = list(range(lead)) + [names.index(n) for n in c[1]]
            out.append(cs.ArgumentReorderer(order, autodef=c[2]))
            names = names[:lead] + list(c[1])
        elif c[0] == "add":
            out.append(cs.ArgumentAdder(c[1] + lead, c[2], default=c[3], value=c[4]))
            names.insert(c[1] + lead, c[2])
        elif c[0] == "remove":
            out.append(cs.ArgumentRemover(names.index(c[1])))
            names.remove(c[1])
        elif c[0] == "inline_default":
            out.append(cs.ArgumentDefaultInliner(names.index(c[1])))
    return out


def gen_introduce_project(rnd):
    """Small program for IntroduceParameter: a function (top-level / method / one-liner / nested) that reads a
    module global or an attribute chain, followed by module-level code (with or without a blank line, starting
    with the same name or another one), used from a client.  Returns (files, offset of the expression, meta)."""
    expr = rnd.choice(["items", "conf.size", "conf.inner.depth"])
    host = rnd.choice(["function", "function", "method", "one-liner", "nested"])
    gap = rnd.choice(["", "", "\n", "# note\n"])
    after = rnd.choice(["same-name", "same-name", "other-name", "nothing"])
    L = ["class Inner:", "    depth = 2", "", "class Conf:", "    size = 5", "    inner = Inner()", "",
         "conf = Conf()", "items = [1, 2]", ""]
    use = {"items": "sum(items)", "conf.size": "conf.size * 2", "conf.inner.depth": "conf.inner.depth + 1"}[expr]
    twice = {"items": "len(items)", "conf.size": "conf.size", "conf.inner.depth": "conf.inner.depth"}[expr]
    if host == "function":
        L += ["def total(k=1):", f"    first = {use} + k", f"    return first + {twice}"]
    elif host == "one-liner":
        L += [f"def total(k=1): return {use} + k + {twice}"]
    elif host == "nested":
        L += ["def outer():", "    def total(k=1):", f"        return {use} + k + {twice}", "    return total"]
    else:
        L += ["class Calc:", "    def total(self, k=1):", f"        first = {use} + k", f"        return first + {twice}"]
    text = "\n".join(L) + "\n" + gap
    # (a default is evaluated when the def statement runs: nothing may REBIND the expression afterwards)
    follow = {"items": "items.append(3)", "conf.size": "conf.size", "conf.inner.depth": "conf.inner.depth"}[expr]
    if after == "same-name":
        text += follow + "\n"
    elif after == "other-name":
        text += "marker = 1\n" + follow + "\n"
    call = {"function": "lib.total()", "one-liner": "lib.total(2)", "nested": "lib.outer()()", "method": "lib.Calc().total(3)"}[host]
    files = {"lib.py": text,
             "client.py": f"import lib\n\nprint('before', {call})\nlib.items.append(10)\nprint('after', {call})\n",
             "main.py": "import client\n", "import_all.py": "import lib, client\n"}
    # the expression inside the function body (first occurrence after the def line)
    body_start = text.index("def total")
    off = text.index(use.split(" ")[0].split("(")[-1], body_start + 10)
    if expr != "items":
        off = text.index(expr, body_start + 10) + len(expr) - 1   # on the last attribute of the chain
    return files, off, {"expr": expr, "host": host, "gap": repr(gap), "after": after}


def run_introduce(spec):
    """IntroduceParameter: the new parameter defaults to the expression, so every call still computes the same."""
    from rope.refactor.introduce_parameter import IntroduceParameter
    res = core.Result()
    rnd = core.rng(spec)
    files, off, meta = gen_introduce_project(rnd)
    with core.Scratch() as tmp:
        case = behave.Case.__new__(behave.Case)
        case.root, case.files = tmp + "/p", files
        import os
        os.makedirs(case.root)
        pyrun.write_project(case.root, files)
        case.baseline = pyrun.behaviour(case.root)
        if not all(b[0] == 0 for b in case.baseline):
            res.ev("discarded_invalid_projects")
            res.outcome("discarded")
            res.sample({"discarded": files, "baseline": [b[2] for b in case.baseline]})
            return res
        res.ev("introduce_projects")

        def request(project):
            return IntroduceParameter(project, project.get_file("lib.py"), off).get_changes("fresh_p")
        feats = f"core|expr={meta['expr']}|host={meta['host']}"
        out = behave.judge(case, request, res, "introduce-parameter", feats,
                           detail={"files": files, "meta": meta, "offset": off})
        if out in ("preserved", "violation"):
            res.ev("introduce_performed_and_run")
            res.shape(["introduce", meta["expr"], meta["host"], meta["gap"], meta["after"], out])
        elif out == "refused":
            res.ev("introduce_refused")
        res.sample({"meta": meta})
    return res


def run_case(spec):
    if spec.get("introduce"):
        return run_introduce(spec)
    from rope.refactor.change_signature import ChangeSignature
    res = core.Result()
    rnd = core.rng(spec)
    files, host, sig, shapes = gen_project(rnd)
    with core.Scratch() as tmp:
        case = behave.Case.__new__(behave.Case)
        case.root, case.files = tmp + "/p", files
        import os
        os.makedirs(case.root)
        pyrun.write_project(case.root, files)
        case.baseline = pyrun.behaviour(case.root)
        if not all(b[0] == 0 for b in case.baseline):
            res.ev("discarded_invalid_projects")
            res.outcome("discarded")
            res.sample({"discarded": files, "baseline": [b[2] for b in case.baseline]})
            return res
        res.ev("projects")
        for _ in range(3):
            seq = gen_changers(rnd, sig, host)
            # query point: the definition, or a call site in a client
            where = rnd.choice(["def", "call"])
            if host == "constructor":
                name = "Box" if where == "call" or rnd.random() < 0.5 else "__init__"
            else:
                name = "target"
            path = "lib.py"
            if where == "call":
                path = rnd.choice(["client_a.py", "client_b.py"])
            src = files[path]
            idx = src.find(name + "(")
            if idx < 0:
                path, src = "lib.py", files["lib.py"]
                idx = src.find(name + "(")
            offset = idx + 1
            kinds = "+".join(c[0] + ("!illegal" if c[0] == "reorder" and not c[3] and c[2] is None else
                                     ("!autodef" if c[0] == "reorder" and c[2] else "")) for c in seq)
            sigfeat = ("star" if sig["star"] else "") + ("kwonly" if sig["kwonly"] else "") + ("kw" if sig["kw"] else "")

            def request(project, path=path, offset=offset, seq=seq):
                cs_ = ChangeSignature(project, project.get_file(path), offset)
                return cs_.get_changes(build_changers(seq, cs_.get_args()))

            # request classes in which rope's ChangeSignature is known to be unreliable share one coarse key
            label = None
            if "!illegal" in kinds:
                label = "illegal-reorder-without-autodef"
            elif "dstar" in shapes:
                label = "call-with-double-star-mapping"
            elif "star" in shapes:
                label = "call-with-star-sequence"
            elif sigfeat:
                label = "signature-with-" + sigfeat
            if label:
                feats = "hostile:" + label
            else:
                feats = f"core|host={host}|changers={kinds}"
            out = behave.judge(case, request, res, "change-signature", feats, coarse=bool(label),
                               detail={"files": files, "changers": seq, "query": [path, offset], "call_shapes": shapes})
            if out in ("preserved", "violation"):
                res.ev("performed_and_run")
                res.shape([host, sigfeat, kinds, shapes, out])
            elif out == "refused":
                res.ev("refused")
        res.sample({"host": host, "lib": files["lib.py"], "client_a": files["client_a.py"], "changers": seq})
    return res


if __name__ == "__main__":
    core.main(sys.modules[__name__])
