"""C05 - moving / renaming definitions and modules keeps every importer working.

Systematic product layout x client import style x operation, on small generated projects:
  source module  : top-level `src.py` or `pk/src.py` holding fn / Cls / VAR (+ a helper global
                   that stays behind, optionally used by the moved code; optionally used by the
                   source itself at import time = the labelled import-cycle shape)
  client         : one module (top-level or inside the package) importing the source in one of
                   ten styles and using fn, Cls and VAR
  operations     : MoveGlobal(fn|Cls|VAR -> dst module), MoveModule(src -> folder),
                   Rename(module), ModuleToPackage, MovePackage, MoveMethod
After the change every module must still import, main.py / import_all.py must print the same.
"""
import os
import sys

from vlib import behave, core, pyrun

ID = "C05"
READY = True
LEVEL = "exploration"
RULE = ("product of source location {top, in package} x client location {top, same package} x 10 import styles x "
        "operations {move fn/Cls/VAR to top/pkg/nested module, move module to pkg/nested/root, rename module, "
        "module->package, move package, move method} x knobs {moved code uses a global left behind, source uses "
        "the element at import time, destination already imports things}; sampled by seed (the product has about "
        "2 000 cells); non-trivial = performed request that changed the client or moved a file; distinct = cell")
ASSUMPTIONS = ["one client module per project so that a failure is attributable to its import style",
               "requests that create an import cycle are a labelled class"]
BUDGET = {"quick": (2500, 240), "thorough": (70000, 900)}
EXHAUSTIVE = {}
CASE_TIMEOUT = 300
REQUIRE = {"performed_and_run": 300}
TECHNIQUE = ("differential execution of generated multi-module programs before/after the move performed by the "
             "real code (every module is imported, all former references are exercised by main.py)")
LEVEL_TEXT = ("Each cell of the layout x import-style x operation product that the seed selects is performed by "
              "the real code and the resulting project is executed; a stale reference, a module that no longer "
              "imports or moved code that lost a name shows as a different output or exception.")
LEVEL_NOTE = ("sampled cells of a finite product; programs are in fragment F with a single client module; known "
              "rope defects are listed by mechanism in known_findings.json")
DESIGN_REF = "DESIGN.md section 5, C05"

STYLES = ["import", "import-as", "from-names", "from-names-as", "from-pkg-import-mod", "from-pkg-import-mod-as",
          "from-pkg-import-mod-twice",
          "rel-from-dot-import-mod", "rel-from-mod-import-names", "star", "from-names-multi-as"]
OPS = ["move-fn", "move-cls", "move-var", "move-module", "rename-module", "module-to-package", "move-package",
       "move-method"]


def cases(tier, seed):
    i = 0
    while True:
        yield {"seed": f"{seed}/C05/{i}"}
        i += 1


def gen_project(rnd):
    src_in_pkg = rnd.random() < 0.5
    client_in_pkg = src_in_pkg and rnd.random() < 0.4
    op = rnd.choice(OPS)
    uses_left_behind = rnd.random() < 0.35
    source_uses_at_import = rnd.random() < 0.25
    dst_has_imports = rnd.random() < 0.5
    src_dotted = "pk.src" if src_in_pkg else "src"
    allowed = ["import", "import-as", "from-names", "from-names-as", "star", "from-names-multi-as"]
    if src_in_pkg:
        allowed += ["from-pkg-import-mod", "from-pkg-import-mod-as", "from-pkg-import-mod-twice"]
    if client_in_pkg:
        allowed += ["rel-from-dot-import-mod", "rel-from-mod-import-names"]
    style = rnd.choice(allowed)
    files = {}
    if src_in_pkg or op in ("move-module", "move-package", "move-fn", "move-cls", "move-var"):
        files["pk/__init__.py"] = ""
        files["pk/inner/__init__.py"] = ""
    # the source's own import of the helper: at top level, or bound inside a compound statement
    helper_import = rnd.choice(["top"] * 5 + ["try-except", "if-else"])
    if helper_import == "top":
        S = ["import helper", ""]
    elif helper_import == "try-except":
        S = ["try:", "    import helper", "except ImportError:", "    helper = None", ""]
    else:
        S = ["import sys", "", "if sys.version_info >= (3,):", "    import helper", "else:", "    helper = None", ""]
    S += ["BASE = 10", ""]
    body = "x * 2 + BASE" if uses_left_behind else "x * 2"
    S += ["def fn(x):", f"    return helper.inc({body})", ""]
    S += ["class Cls:", "    tag = 'cls'", "", "    def __init__(self, v):", "        self.v = v", "",
          "    def get(self):", "        return self.v + " + ("BASE" if uses_left_behind else "1"), ""]
    S += ["VAR = " + ("BASE + 5" if uses_left_behind else "15"), ""]
    S += ["class Part:", "    def __init__(self):", "        self.w = 7", "", "class Whole:", "    def __init__(self):",
          "        self.part = Part()", "        self.k = 2", "", "    def calc(self, n):", "        return self.part.w * n + self.k", ""]
    if source_uses_at_import:
        S += ["cached = fn(1) + Cls(1).get() + VAR", ""]
    files[("pk/src.py" if src_in_pkg else "src.py")] = "\n".join(S) + "\n"
    files["helper.py"] = "def inc(x):\n    return x + 1\n"
    # destination modules
    dst_text = ("import helper\nfrom helper import inc\n\n" if dst_has_imports else "") + "EXISTING = 1\n\ndef existing():\n    return EXISTING\n"
    files["dst.py"] = dst_text
    files["pk/dst.py"] = dst_text
    files["pk/inner/dst.py"] = dst_text
    if op == "move-package":
        files["other/__init__.py"] = ""
    # client
    C = []
    if style == "import":
        C.append(f"import {src_dotted}")
        m = src_dotted
        use = {n: f"{m}.{n}" for n in ("fn", "Cls", "VAR", "Whole")}
    elif style == "import-as":
        C.append(f"import {src_dotted} as s")
        use = {n: f"s.{n}" for n in ("fn", "Cls", "VAR", "Whole")}
    elif style == "from-names":
        C.append(f"from {src_dotted} import fn, Cls, VAR, Whole")
        use = {n: n for n in ("fn", "Cls", "VAR", "Whole")}
    elif style == "from-names-as":
        C.append(f"from {src_dotted} import fn as f2")
        C.append(f"from {src_dotted} import Cls as C2")
        C.append(f"from {src_dotted} import VAR as V2")
        C.append(f"from {src_dotted} import Whole")
        use = {"fn": "f2", "Cls": "C2", "VAR": "V2", "Whole": "Whole"}
    elif style == "from-names-multi-as":
        C.append(f"from {src_dotted} import fn as f2, Cls as C2, VAR as V2, Whole")
        use = {"fn": "f2", "Cls": "C2", "VAR": "V2", "Whole": "Whole"}
    elif style == "from-pkg-import-mod":
        C.append("from pk import src")
        use = {n: f"src.{n}" for n in ("fn", "Cls", "VAR", "Whole")}
    elif style == "from-pkg-import-mod-as":
        C.append("from pk import src as s")
        use = {n: f"s.{n}" for n in ("fn", "Cls", "VAR", "Whole")}
    elif style == "from-pkg-import-mod-twice":
        # two separate statements import the module from its package, the second one under another name
        C.append("from pk import src")
        C.append("from pk import src as s2, inner")
        use = {"fn": "src.fn", "Cls": "s2.Cls", "VAR": "s2.VAR", "Whole": "src.Whole"}
    elif style == "rel-from-dot-import-mod":
        C.append("from . import src")
        use = {n: f"src.{n}" for n in ("fn", "Cls", "VAR", "Whole")}
    elif style == "rel-from-mod-import-names":
        C.append("from .src import fn, Cls, VAR, Whole")
        use = {n: n for n in ("fn", "Cls", "VAR", "Whole")}
    else:
        C.append(f"from {src_dotted} import *")
        use = {n: n for n in ("fn", "Cls", "VAR", "Whole")}
    alias_pkg = "pk/__init__.py" in files and rnd.random() < 0.3
    extra_ret = ""
    if alias_pkg:
        # an aliased plain import of the package that may become an ancestor of the destination
        C.insert(0, "import pk as P")
        extra_ret = ", bool(P.__name__)"
    C += ["", "def report():", f"    o = {use['Cls']}(3)", f"    w = {use['Whole']}()",
          f"    return [{use['fn']}(4), o.get(), o.tag, {use['VAR']} + 1, w.calc(3){extra_ret}]", "",
          f"first = {use['fn']}(1)", ""]
    cpath = "pk/client.py" if client_in_pkg else "client.py"
    files[cpath] = "\n".join(C) + "\n"
    cdot = "pk.client" if client_in_pkg else "client"
    files["main.py"] = f"import {cdot}\nprint({cdot}.report(), {cdot}.first)\nimport {src_dotted}\nprint({src_dotted}.fn(2))\n"
    files["import_all.py"] = f"import helper, dst, {cdot}, {src_dotted}\nprint('ok')\n" + ("import pk.dst, pk.inner.dst\n" if "pk/dst.py" in files else "")
    meta = {"src_in_pkg": src_in_pkg, "client_in_pkg": client_in_pkg, "style": style, "op": op,
            "uses_left_behind": uses_left_behind, "source_uses_at_import": source_uses_at_import,
            "dst_has_imports": dst_has_imports, "src_path": "pk/src.py" if src_in_pkg else "src.py",
            "client_aliases_pkg": alias_pkg, "helper_import": helper_import}
    return files, meta


def run_case(spec):
    from rope.refactor import move, rename, topackage
    res = core.Result()
    rnd = core.rng(spec)
    files, meta = gen_project(rnd)
    op = meta["op"]
    with core.Scratch() as tmp:
        case = behave.Case.__new__(behave.Case)
        case.root, case.files = tmp + "/p", files
        os.makedirs(case.root)
        pyrun.write_project(case.root, files)
        case.baseline = pyrun.behaviour(case.root)
        if not all(b[0] == 0 for b in case.baseline):
            res.ev("discarded_invalid_projects")
            res.outcome("discarded")
            res.sample({"discarded": files, "err": [b[2] for b in case.baseline]})
            return res
        res.ev("projects")
        src_path = meta["src_path"]
        src = files[src_path]
        dest = None
        if op in ("move-fn", "move-cls", "move-var"):
            needle = {"move-fn": "def fn", "move-cls": "class Cls", "move-var": "VAR ="}[op]
            offset = src.index(needle) + (len(needle.split()[0]) + 1 if " " in needle and not needle.startswith("VAR") else 0) + 1
            dest = rnd.choice(["dst.py", "pk/dst.py", "pk/inner/dst.py"])

            def request(project):
                return move.create_move(project, project.get_file(src_path), offset).get_changes(project.get_file(dest))
        elif op == "move-module":
            dest = rnd.choice([d for d in ["pk", "pk/inner", ""] if d != os.path.dirname(src_path)])

            def request(project):
                return move.create_move(project, project.get_file(src_path)).get_changes(project.get_folder(dest))
        elif op == "rename-module":
            def request(project):
                return rename.Rename(project, project.get_file(src_path), None).get_changes("src_renamed")
        elif op == "module-to-package":
            def request(project):
                return topackage.ModuleToPackage(project, project.get_file(src_path)).get_changes()
        elif op == "move-package":
            if not meta["src_in_pkg"]:
                res.outcome("skipped-op-not-applicable")
                return res
            dest = "other"

            def request(project):
                return move.create_move(project, project.get_folder("pk")).get_changes(project.get_folder("other"))
        else:  # move-method: Whole.calc -> Part (through self.part)
            offset = src.index("def calc") + 5

            def request(project):
                return move.create_move(project, project.get_file(src_path), offset).get_changes("part", "calc_moved")

        rel = ("pkg" if meta["src_in_pkg"] else "top") + "->" + (dest if dest is not None else "-")
        # labelled classes
        label = None
        cyc = meta["uses_left_behind"] and op in ("move-fn", "move-cls", "move-var")
        if cyc and meta["source_uses_at_import"]:
            label = "import-cycle(moved-code-uses-global-left-behind+source-uses-element-at-import)"
        elif op == "move-fn" and meta["helper_import"] != "top" and meta["source_uses_at_import"]:
            # same cycle through the back-import of the conditionally imported helper
            label = "import-cycle(moved-code-uses-name-imported-in-compound-statement+source-uses-element-at-import)"
        elif meta["style"] == "star":
            label = "star-import-client"
        if label:
            feats = "hostile:" + label
        else:
            feats = f"core|op={op}|style={meta['style']}|rel={rel}"
        out = behave.judge(case, request, res, "move", feats, coarse=bool(label),
                           detail={"files": files, "meta": meta, "dest": dest})
        if out in ("preserved", "violation"):
            res.ev("performed_and_run")
            res.shape([op, meta["style"], rel, meta["client_in_pkg"], meta["uses_left_behind"],
                       meta["source_uses_at_import"], out])
        elif out == "refused":
            res.ev("refused")
        res.sample({"meta": meta, "client": files["pk/client.py" if meta["client_in_pkg"] else "client.py"]})
    return res


if __name__ == "__main__":
    core.main(sys.modules[__name__])
