"""C18 - an interrupted save never leaves a project that cannot be opened.

Crash enumeration on real executions: a project with saved (old) data files and pending (new)
history / object information is closed in a forked child whose `open` (as seen by
rope.base.project) is an unbuffered counting file; the child dies with os._exit(137) at tick k
(before/after each open, after every written byte, before/after each close).  For every k the
directory is then opened by a fresh child that evaluates: Project(...) / project.history /
undo_list / get_pymodule / analyze_module / close + reopen do not raise, and the loaded history
and object db are each the complete old version, the complete new version, or empty.
"""
import os
import sys

from vlib import core, crashfork, histgen

ID = "C18"
READY = True
LEVEL = "fault_enumeration"
RULE = ("random histories (all change kinds, nested sets, unicode contents) + analysed modules; old data saved, "
        "more changes pending, then close() crashed at every tick (exhaustive when the save writes <= 6000 ticks, "
        "else every boundary tick + a stride); non-trivial = a crash tick strictly inside the save (files "
        "partially written); distinct = (tick label, outcome class old/new/empty per store)")
ASSUMPTIONS = ["crash = process death; bytes reach the file in write order (no torn or reordered writes below "
               "the write() granularity)", "config files owned by the user are not part of the save"]
BUDGET = {"quick": (40, 240), "thorough": (135, 900)}
EXHAUSTIVE = {}
CASE_TIMEOUT = 600
REQUIRE = {"crash_points": 2000, "crashes_inside_pickle": 200, "reopen_after_crash": 2000}
TECHNIQUE = ("process-crash injection (fork + interposed open + os._exit) enumerated over every byte prefix and "
             "open/close boundary of the real save, with a fresh-process reopen oracle")
LEVEL_TEXT = ("Every crash tick of the real project.close() of each generated project is executed (byte-prefix "
              "exhaustive per data file for small saves) and the crashed directory is reopened by a fresh process "
              "that checks openability and that each store is old, new or empty.")
LEVEL_NOTE = ("exhaustive over crash ticks per generated project, sampled over projects; file-system level "
              "reordering / torn sectors are not modelled; the reopen runs in a forked child of a process that has "
              "rope imported (module state is fresh for Project objects)")
DESIGN_REF = "DESIGN.md section 5, C18"

MODS = {
    "m1.py": "class A:\n    def get(self):\n        return self\n\ndef ident(o):\n    return o\n\na = ident(A())\nb = ident('\u00fc')\n",
    "m2.py": "import m1\n\ndef use(f, x):\n    return f(x)\n\nr = use(m1.ident, (1, 'x'))\nq = m1.ident([m1.A()])\n",
}
LIMIT = {"quick": 1500, "thorough": 6000}
DATA_FILES = ["history", "history.json", "objectdb", "objectdb.json"]


def cases(tier, seed):
    i = 0
    while True:
        yield {"seed": f"{seed}/C18/{i}"}
        i += 1


def _open(root):
    from rope.base.project import Project
    return Project(root, automatic_soa=False, save_history=True, save_objectdb=True, max_history_items=100)


def _steps(project, rnd, tree, n):
    """n random history steps through rope; returns the model tree (only for valid generation)."""
    for _ in range(n):
        r = rnd.random()
        h = project.history
        if r < 0.7 or not h.undo_list:
            c, t2 = histgen.gen_change(rnd, tree, allow_remove=False)
            project.do(histgen.build(project, c, tree))
            tree = t2
        elif r < 0.85:
            h.undo()
            tree = _read_tree(project)
        elif h.redo_list:
            h.redo()
            tree = _read_tree(project)
    return tree


def _read_tree(project):
    from vlib import treesnap
    snap = treesnap.snap(project.address)
    return {p: (None if v[0] == "d" else v[1].decode("utf-8")) for p, v in snap.items() if p not in MODS}


def _typed(v):
    if isinstance(v, tuple):
        return ["tuple", [_typed(x) for x in v]]
    if isinstance(v, list):
        return ["list", [_typed(x) for x in v]]
    if isinstance(v, dict):
        return ["dict", sorted(([_typed(k), _typed(x)] for k, x in v.items()), key=repr)]
    return [type(v).__name__, v]


def _opener(root):
    def fn():
        from rope.base.change import ChangeToData
        stage = "Project()"
        try:
            p = _open(root)
            stage = "project.history"
            h = p.history
            stage = "undo_list"
            td = ChangeToData()
            undo = [td(c) for c in h.undo_list]
            redo = [td(c) for c in h.redo_list]
            stage = "objectdb"
            db = p.pycore.object_info.objectdb.files
            dbs = {}
            for path in db.keys():
                fi = db[path]
                dbs[os.path.basename(path)] = {repr(k): _typed((dict(fi[k].call_info), dict(fi[k].per_name))) for k in fi.keys()}
            stage = "get_pymodule"
            p.get_pymodule(p.get_file("m1.py"))
            stage = "analyze_module"
            p.pycore.analyze_module(p.get_file("m2.py"))
            stage = "close-again"
            p.close()
            stage = "reopen-again"
            p2 = _open(root)
            n2 = len(p2.history.undo_list)
        except BaseException as e:
            return {"failed_at": stage, "exc_sig": core.exc_sig(e), "exc": repr(e)[:300]}
        return {"undo": undo, "redo": redo, "db": dbs, "undo_after_resave": n2}
    return fn


def _save_data(root):
    d = os.path.join(root, ".ropeproject")
    return {n: open(os.path.join(d, n), "rb").read() for n in DATA_FILES if os.path.exists(os.path.join(d, n))}


def _restore_data(root, files):
    d = os.path.join(root, ".ropeproject")
    for n in DATA_FILES:
        p = os.path.join(d, n)
        if n in files:
            with open(p, "wb") as f:
                f.write(files[n])
        elif os.path.exists(p):
            os.remove(p)


def run_case(spec):
    import json
    res = core.Result()
    rnd = core.rng(spec)
    with core.Scratch() as tmp:
        root = tmp + "/p"
        os.makedirs(root)
        tree = dict(histgen.INITIAL)
        histgen.write_tree(root, tree)
        histgen.write_tree(root, MODS)   # analysed modules stay outside the random history
        project = _open(root)
        first_save = rnd.random() < 0.15   # no old data files at all
        if not first_save:
            tree = _steps(project, rnd, tree, rnd.randint(1, 8))
            if rnd.random() < 0.7:
                project.pycore.analyze_module(project.get_file("m1.py"))
            project.close()
            project = _open(root)
        old_files = _save_data(root)
        tree = _steps(project, rnd, tree, rnd.randint(1, 8))
        project.history  # make sure the history write hook is registered
        if rnd.random() < 0.7:
            project.pycore.analyze_module(project.get_file("m2.py"))
        if rnd.random() < 0.3:
            project.pycore.analyze_module(project.get_file("m1.py"))

        norm = lambda o: json.loads(json.dumps(o, default=repr))
        code, OLD = crashfork.run_in_child(_opener(root))
        _restore_data(root, old_files)
        if not OLD or "failed_at" in OLD or "child_exception" in OLD:
            res.violation(f"open-without-crash|{(OLD or {}).get('failed_at')}|{(OLD or {}).get('exc_sig')}",
                          "a normally saved project cannot be opened", out=OLD)
            return res

        def crasher(k):
            def fn():
                ctl = crashfork._Ctl(k)
                crashfork.install(ctl)
                project.close()
                return {"ticks": ctl.t, "log": ctl.log}
            return fn

        code, dry = crashfork.run_in_child(crasher(None))
        if code != 0 or not dry or "ticks" not in dry:
            res.inconclusive(f"dry run of close() failed: {dry}")
            return res
        T = dry["ticks"]
        labels = []
        for what, n in dry["log"]:
            labels += [what.split(":")[0] + ":" + what.split(":")[1]] * n
        code, NEW = crashfork.run_in_child(_opener(root))
        if not NEW or "failed_at" in NEW:
            res.violation(f"open-after-complete-save|{(NEW or {}).get('failed_at')}|{(NEW or {}).get('exc_sig')}",
                          "a completely saved project cannot be opened", out=NEW)
            return res
        OLD, NEW = norm(OLD), norm(NEW)
        hist_ok = {"old": [OLD["undo"], OLD["redo"]], "new": [NEW["undo"], NEW["redo"]], "empty": [[], []]}
        db_ok = {"old": OLD["db"], "new": NEW["db"], "empty": {}}
        if T <= LIMIT[os.environ.get("VERIF_TIER", "quick")]:
            ticks = list(range(T + 1))
        else:
            bounds = {i for i in range(T) if i == 0 or labels[i] != labels[i - 1] or (i + 1 < T and labels[i + 1] != labels[i])}
            ticks = sorted(bounds | set(range(0, T + 1, max(1, T // 600))) | {T})
        res.ev("ticks_per_save_total", T)
        seen_outcomes = set()
        for k in ticks:
            _restore_data(root, old_files)
            code, _ = crashfork.run_in_child(crasher(k))
            label = labels[k] if k < T else "completed"
            res.ev("crash_points")
            if code == 137:
                res.ev("crashed_137")
            if label.startswith("byte:") and not label.endswith(".json"):
                res.ev("crashes_inside_pickle")
            code2, out = crashfork.run_in_child(_opener(root))
            res.evals()
            res.ev("reopen_after_crash")
            if not out or code2 != 0:
                res.violation(f"reopen-died|at={label}", "the reopening process died", tick=k, code=code2)
                continue
            if "child_exception" in out:
                res.inconclusive("opener harness failed: " + out["child_exception"][-500:])
                return res
            if "failed_at" in out:
                res.violation(f"unopenable|stage={out['failed_at']}|{out['exc_sig']}|at={label}",
                              f"after a crash at {label} {out['failed_at']} raises {out['exc']}", tick=k, of=T)
                continue
            out = norm(out)
            hk = next((n for n, v in hist_ok.items() if [out["undo"], out["redo"]] == v), None)
            dk = next((n for n, v in db_ok.items() if out["db"] == v), None)
            if hk is None:
                res.violation(f"history-neither-old-new-empty|at={label}", "history loaded after the crash is neither "
                              "the complete old, the complete new nor empty", tick=k, got=[out["undo"], out["redo"]])
            if dk is None:
                res.violation(f"objectdb-neither-old-new-empty|at={label}", "object db loaded after the crash is "
                              "neither the complete old, the complete new nor empty", tick=k, got=out["db"])
            if hk and dk:
                res.outcome(f"history={hk},db={dk}")
                if 0 < k < T:
                    seen_outcomes.add((label, hk, dk))
        for s in sorted(seen_outcomes):
            res.shape(list(s))
        res.sample({"ticks": T, "tick_labels": dry["log"], "old_undo_len": len(OLD["undo"]),
                    "new_undo_len": len(NEW["undo"]), "first_save": first_save})
    return res


if __name__ == "__main__":
    core.main(sys.modules[__name__])
