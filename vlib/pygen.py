"""Generator of small multi-module Python projects in the supported fragment F (DESIGN.md 3.1).

Every generated project is deterministic and total by construction: all values are ints (or
containers of ints / short strs), divisors are non-zero constants, loops are bounded, instances
are only used through statically determined receivers (module aliases, self/cls, class names,
names assigned exactly once from a call of a project class in the same scope).  `main.py`
imports every module, calls everything on several argument vectors and prints all results;
`import_all.py` only imports every module.  Projects are SELF-VALIDATED by the caller
(pyrun: exit 0, deterministic output) before use.

A tiny identifier pool is reused across scopes, modules and kinds so that equal spellings
denote different bindings; the same spellings are planted in strings, f-string literal parts,
comments, keyword-argument positions and attributes of unrelated classes.
"""
import keyword
import random

VNAMES = ["x", "y", "val", "item", "n", "data", "ü"]
FNAMES = ["f", "g", "calc", "run", "val", "item", "helper"]
CNAMES = ["A", "B", "Node", "Item"]
MNAMES = ["mod_a", "mod_b", "util", "core"]
PNAMES = ["pk", "sub"]
SUBMOD = ["m1", "m2", "util"]

DEFAULT_KNOBS = {
    "n_modules": (2, 4), "package": 0.6, "nested_package": 0.3,
    "n_funcs": (1, 3), "n_classes": (0, 2), "n_globals": (1, 3),
    "p_nested_def": 0.25, "p_global_stmt": 0.2, "p_comprehension": 0.35, "p_lambda": 0.15,
    "p_walrus": 0.1, "p_try": 0.25, "p_loop": 0.5, "p_if": 0.6, "p_fstring": 0.3,
    "p_kwonly": 0.2, "p_posonly": 0.0, "p_varargs": 0.15, "p_kwargs": 0.1, "p_default": 0.5,
    "p_default_global": 0.3, "p_star_import": 0.15, "p_all": 0.3, "p_relative": 0.5,
    "p_inherit": 0.4, "p_property": 0.3, "p_static": 0.3, "p_classmethod": 0.25,
    "p_shadow": 0.5, "p_match": 0.0, "p_with": 0.0, "p_order_sensitive": 0.0,
    "body_len": (2, 5), "p_module_level_call": 0.4, "p_decoy": 0.5, "p_aug_attr": 0.3,
    "p_while": 0.2, "p_tuple_assign": 0.2, "p_annot": 0.15, "multi_call_sites": 0.0,
    "p_instance_global": 0.2, "p_nested_in_method": 0.3, "p_parent_relative": 0.5,
    "p_dunder_call": 0,     # callable instances; 0 = no random draw at all (opt-in per check)
    "p_member_named_like_module": 0,   # line 1 of a module binds a global spelled like the module itself
    "p_multi_global": 0,    # `global a, b` (two names in one statement), both rebound
    "p_class_comp": 0,      # class body: list attribute + comprehension over it (first iterable = class scope)
    "p_attr_in_tuple_target": 0,   # obj.attr among the targets of a tuple assignment or as a for target
    "p_cmp_arg": 0,         # int(a == b) as an expression (a comparison as a call argument)
    "p_kw_like_var": 0,     # calls of **kwargs functions pass a keyword spelled like a variable
    "unique_names": 0,      # 1 = every binding gets its own spelling (no clashes anywhere in the project);
                            # 2 = the same, except that class attributes may reuse the spelling of a module global
}

PROFILES = {
    "default": {},
    "binding": {"p_nested_def": 0.4, "p_global_stmt": 0.35, "p_comprehension": 0.5, "p_shadow": 0.7,
                "p_default_global": 0.5, "p_walrus": 0.2, "p_lambda": 0.25, "p_star_import": 0.2},
    "flow": {"p_if": 0.8, "p_loop": 0.7, "p_try": 0.4, "body_len": (4, 8), "n_funcs": (2, 3), "n_classes": (0, 1),
             "p_while": 0.3, "p_tuple_assign": 0.3, "p_comprehension": 0.4},
    "calls": {"n_funcs": (2, 4), "p_default": 0.7, "p_kwonly": 0.3, "p_varargs": 0.2, "p_kwargs": 0.15,
              "multi_call_sites": 1.0, "body_len": (1, 3), "p_if": 0.3, "p_loop": 0.2, "p_try": 0.1},
    "imports": {"n_modules": (3, 4), "package": 0.9, "nested_package": 0.5, "p_star_import": 0.3, "p_all": 0.5,
                "p_relative": 0.6, "n_funcs": (1, 2), "body_len": (1, 3), "p_module_level_call": 0.6},
    "classes": {"n_classes": (1, 3), "p_inherit": 0.5, "p_property": 0.4, "p_static": 0.4, "p_classmethod": 0.3,
                "p_aug_attr": 0.6, "n_funcs": (1, 2), "p_instance_global": 0.4},
}


class Sig:
    """Callable signature.  params: list of (name, kind, default_text) with kind in
    pos | posonly | default | kwonly | kwonly_default | vararg | kwarg."""

    kw_like_var = 0   # set per generated project from the knob p_kw_like_var

    def __init__(self, name, params, kind="func", owner=None):
        self.name, self.params, self.kind, self.owner = name, params, kind, owner

    def param_text(self, self_name=None):
        parts = []
        if self_name:
            parts.append(self_name)
        seen_posonly = False
        star_done = False
        ps = self.params
        for i, (n, k, d) in enumerate(ps):
            if k == "posonly":
                seen_posonly = True
                parts.append(n if d is None else f"{n}={d}")
                if i + 1 == len(ps) or ps[i + 1][1] != "posonly":
                    parts.append("/")
                continue
            if k == "vararg":
                parts.append("*" + n)
                star_done = True
            elif k in ("kwonly", "kwonly_default"):
                if not star_done:
                    parts.append("*")
                    star_done = True
                parts.append(n if k == "kwonly" else f"{n}={d}")
            elif k == "kwarg":
                parts.append("**" + n)
            elif k == "default":
                parts.append(f"{n}={d}")
            else:
                parts.append(n)
        return ", ".join(parts)

    def call_args(self, rnd, argf, style=None):
        """Argument text of a valid call; argf() gives an int expression."""
        style = style or rnd.choice(["pos", "kw", "mixed", "mixed"])
        out, kw_started = [], False
        for (n, k, d) in self.params:
            if k == "posonly":
                out.append(argf())
            elif k == "pos":
                if kw_started or style == "kw" or (style == "mixed" and rnd.random() < 0.4):
                    out.append(f"{n}={argf()}")
                    kw_started = True
                else:
                    out.append(argf())
            elif k == "default":
                if rnd.random() < 0.45:
                    # omitting a default forces keywords for every later plain parameter
                    kw_started = True
                    continue
                if kw_started or style == "kw" or (style == "mixed" and rnd.random() < 0.5):
                    out.append(f"{n}={argf()}")
                    kw_started = True
                else:
                    out.append(argf())
            elif k == "vararg":
                if not kw_started:
                    for _ in range(rnd.choice([0, 1, 2])):
                        out.append(argf())
                kw_started = True
            elif k == "kwonly":
                out.append(f"{n}={argf()}")
            elif k == "kwonly_default":
                if rnd.random() < 0.5:
                    out.append(f"{n}={argf()}")
            elif k == "kwarg":
                if rnd.random() < 0.5:
                    kwname = f"extra_{n}"
                    val = argf()
                    if Sig.kw_like_var and rnd.random() < Sig.kw_like_var:
                        # a keyword that only **kwargs collects, spelled like an ordinary variable:
                        # the very variable that is passed (f(n=n)), else any name of the small pool
                        pnames = [p[0] for p in self.params]
                        cands = [v for v in VNAMES if v not in pnames]
                        if val.isidentifier() and val not in pnames and not keyword.iskeyword(val):
                            kwname = val
                        elif cands:
                            kwname = rnd.choice(cands)
                    out.append(f"{kwname}={val}")
        return ", ".join(out)


def out_has_kw(out):
    return any("=" in a for a in out)


class ClassInfo:
    def __init__(self, name, base=None):
        self.name, self.base = name, base
        self.init = None            # Sig
        self.fields = []            # instance field names (ints)
        self.cattrs = []            # class attribute names (ints)
        self.methods = []           # Sig (instance methods returning int)
        self.statics = []           # Sig
        self.classmethods = []      # Sig
        self.props = []             # names

    def all_fields(self):
        return (self.base.all_fields() if self.base else []) + self.fields

    def all_cattrs(self):
        return (self.base.all_cattrs() if self.base else []) + self.cattrs

    def all_methods(self):
        return (self.base.all_methods() if self.base else []) + self.methods

    def all_props(self):
        return (self.base.all_props() if self.base else []) + self.props

    def all_statics(self):
        return (self.base.all_statics() if self.base else []) + self.statics

    def all_classmethods(self):
        return (self.base.all_classmethods() if self.base else []) + self.classmethods

    def member_names(self):
        return set(self.all_fields() + self.all_cattrs() + self.all_props()
                   + [m.name for m in self.all_methods() + self.all_statics() + self.all_classmethods()])


class ModInfo:
    def __init__(self, dotted, path, package=None):
        self.dotted, self.path, self.package = dotted, path, package
        self.gvars = []      # int globals
        self.glists = []     # list-of-int globals
        self.funcs = []      # Sig
        self.classes = []    # ClassInfo
        self.instances = []  # (name, ClassInfo) module-level instances assigned once
        self.imports = []    # (kind, target ModInfo, local name / names) see _gen_imports
        self.lines = []
        self.all = None

    def names(self):
        return set(self.gvars + self.glists + [f.name for f in self.funcs] + [c.name for c in self.classes]
                   + [n for n, _ in self.instances])


class Ctx:
    """What an expression generated at some point may mention."""

    def __init__(self):
        self.ints = []      # expression texts of readable int values
        self.lists = []     # expression texts of readable lists of ints
        self.funcs = []     # (call prefix text, Sig) pure int functions
        self.insts = []     # (receiver text, ClassInfo)
        self.classes = []   # (text, ClassInfo)
        self.blocked = set()  # bare names that must not be read (locals not yet assigned / shadowed)

    def copy(self):
        c = Ctx()
        c.ints, c.lists, c.funcs = list(self.ints), list(self.lists), list(self.funcs)
        c.insts, c.classes, c.blocked = list(self.insts), list(self.classes), set(self.blocked)
        return c

    def without(self, names):
        """Context in which the bare `names` are rebound (shadowed)."""
        c = self.copy()
        names = set(names)

        def ok(text):
            return text.split(".")[0].split("(")[0].split("[")[0] not in names
        c.ints = [t for t in c.ints if ok(t)]
        c.lists = [t for t in c.lists if ok(t)]
        c.funcs = [(t, s) for t, s in c.funcs if ok(t)]
        c.insts = [(t, ci) for t, ci in c.insts if ok(t)]
        c.classes = [(t, ci) for t, ci in c.classes if ok(t)]
        return c


class Gen:
    def __init__(self, rnd, profile="default", **overrides):
        self.rnd = rnd
        self.k = dict(DEFAULT_KNOBS)
        self.k.update(PROFILES.get(profile, {}))
        self.k.update(overrides)
        self.profile = profile
        self.mods = []
        self.uid = 0

    # ------------------------------------------------------------------ helpers
    def p(self, knob):
        return self.rnd.random() < self.k[knob]

    def rng(self, knob):
        lo, hi = self.k[knob]
        return self.rnd.randint(lo, hi)

    def lit(self):
        return str(self.rnd.choice([0, 1, 2, 3, 5, 7, 10, 12]))

    def vname(self):
        """Name of a comprehension / lambda variable."""
        if self.k["unique_names"]:
            return self.fresh(VNAMES, ())
        return self.rnd.choice(VNAMES)

    def fresh(self, pool, taken):
        if self.k["unique_names"]:
            self.uid += 1
            return f"{self.rnd.choice(pool).rstrip('_')}_{self.uid}"
        cands = [n for n in pool if n not in taken]
        if cands:
            return self.rnd.choice(cands)
        self.uid += 1
        return f"{self.rnd.choice(pool)}{self.uid}"

    # ------------------------------------------------------------------ expressions
    def int_expr(self, ctx, depth=2):
        r = self.rnd.random()
        if depth <= 0 or r < 0.25:
            if ctx.ints and self.rnd.random() < 0.75:
                return self.rnd.choice(ctx.ints)
            return self.lit()
        if r < 0.55:
            op = self.rnd.choice(["+", "-", "*", "+", "-"])
            return f"{self.int_expr(ctx, depth - 1)} {op} {self.int_expr(ctx, depth - 1)}"
        if self.k["p_cmp_arg"] and depth > 0 and self.p("p_cmp_arg"):
            return f"int({self.int_expr(ctx, 0)} == {self.int_expr(ctx, 0)})"
        if r < 0.62:
            op = self.rnd.choice(["//", "%"])
            return f"({self.int_expr(ctx, depth - 1)}) {op} {self.rnd.choice([2, 3, 5, 7])}"
        if r < 0.78 and ctx.funcs:
            t, sig = self.rnd.choice(ctx.funcs)
            return f"{t}({sig.call_args(self.rnd, lambda: self.int_expr(ctx, 0))})"
        if r < 0.84 and ctx.lists:
            l = self.rnd.choice(ctx.lists)
            return self.rnd.choice([f"len({l})", f"sum({l})", f"({l} + [0])[0]", f"max({l} + [0])"])
        if r < 0.90:
            return (f"({self.int_expr(ctx, depth - 1)} if {self.bool_expr(ctx, depth - 1)} "
                    f"else {self.int_expr(ctx, depth - 1)})")
        if r < 0.94 and self.p("p_comprehension"):
            v = self.vname()
            inner = ctx.without([v])
            inner.ints.append(v)
            src = self.rnd.choice(ctx.lists) if ctx.lists and self.rnd.random() < 0.5 else f"range({self.rnd.randint(1, 4)})"
            return f"sum({self.int_expr(inner, 1)} for {v} in {src})"
        if r < 0.97 and self.p("p_lambda"):
            v = self.vname()
            inner = ctx.without([v])
            inner.ints.append(v)
            return f"(lambda {v}: {self.int_expr(inner, 1)})({self.int_expr(ctx, 0)})"
        return f"({self.int_expr(ctx, depth - 1)})"

    def bool_expr(self, ctx, depth=1):
        a, b = self.int_expr(ctx, depth), self.int_expr(ctx, 0)
        e = f"{a} {self.rnd.choice(['<', '>', '==', '!=', '<=', '>='])} {b}"
        if self.rnd.random() < 0.2:
            e = f"{e} {self.rnd.choice(['and', 'or'])} {self.int_expr(ctx, 0)} > {self.lit()}"
        if self.rnd.random() < 0.1:
            e = f"not ({e})"
        return e

    def list_expr(self, ctx):
        r = self.rnd.random()
        if r < 0.35 or not self.p("p_comprehension"):
            return "[" + ", ".join(self.int_expr(ctx, 1) for _ in range(self.rnd.randint(1, 3))) + "]"
        v = self.vname()
        inner = ctx.without([v])
        inner.ints.append(v)
        src = self.rnd.choice(ctx.lists) if ctx.lists and self.rnd.random() < 0.5 else f"range({self.rnd.randint(1, 4)})"
        cond = f" if {self.bool_expr(inner, 0)}" if self.rnd.random() < 0.3 else ""
        return f"[{self.int_expr(inner, 1)} for {v} in {src}{cond}]"

    # ------------------------------------------------------------------ statements
    def body(self, ctx, locals_pool, indent, n, ret=True, depth=0, in_loop=False, fn_ctx=None):
        """Statement lines.  ctx is mutated: names assigned become readable afterwards.
        locals_pool = bare names this function may assign (all are blocked in ctx until assigned)."""
        out = []
        pad = "    " * indent
        for _ in range(n):
            r = self.rnd.random()
            assigned = [v for v in locals_pool if v in ctx.ints]
            if r < 0.30 or not assigned:
                v = self.rnd.choice(locals_pool)
                if v in ctx.lists or any(t == v for t, _ in ctx.insts):
                    continue
                e = self.int_expr(ctx)
                if self.p("p_annot") and v not in ctx.ints and depth == 0:
                    out.append(f"{pad}{v}: int = {e}")
                elif self.p("p_walrus") and v not in ctx.ints and depth == 0:
                    out.append(f"{pad}if ({v} := {e}) > {self.lit()}:")
                    out.append(f"{pad}    pass")
                else:
                    out.append(f"{pad}{v} = {e}")
                if v not in ctx.ints:
                    ctx.ints.append(v)
            elif r < 0.40:
                v = self.rnd.choice(assigned)
                out.append(f"{pad}{v} {self.rnd.choice(['+=', '-=', '*='])} {self.int_expr(ctx, 1)}")
            elif r < 0.46 and self.p("p_tuple_assign") and len(locals_pool) >= 2:
                a, b = self.rnd.sample(locals_pool, 2)
                if all(x not in ctx.lists and not any(t == x for t, _ in ctx.insts) for x in (a, b)):
                    out.append(f"{pad}{a}, {b} = {self.int_expr(ctx, 1)}, {self.int_expr(ctx, 1)}")
                    for x in (a, b):
                        if x not in ctx.ints:
                            ctx.ints.append(x)
            elif r < 0.60 and self.p("p_if") and depth < 2:
                out.append(f"{pad}if {self.bool_expr(ctx)}:")
                c1 = ctx.copy()
                out += self.body(c1, locals_pool, indent + 1, self.rnd.randint(1, 2), False, depth + 1, in_loop) or [f"{pad}    pass"]
                branches = [c1]
                if self.rnd.random() < 0.3:
                    out.append(f"{pad}elif {self.bool_expr(ctx)}:")
                    c2 = ctx.copy()
                    out += self.body(c2, locals_pool, indent + 1, 1, False, depth + 1, in_loop) or [f"{pad}    pass"]
                    branches.append(c2)
                if self.rnd.random() < 0.6:
                    out.append(f"{pad}else:")
                    c3 = ctx.copy()
                    out += self.body(c3, locals_pool, indent + 1, self.rnd.randint(1, 2), False, depth + 1, in_loop) or [f"{pad}    pass"]
                    branches.append(c3)
                    # definitely assigned afterwards: assigned in every branch
                    for v in locals_pool:
                        if v not in ctx.ints and all(v in b.ints for b in branches):
                            ctx.ints.append(v)
            elif r < 0.72 and self.p("p_loop") and depth < 2:
                lv = self.rnd.choice(locals_pool)
                if lv in ctx.lists or any(t == lv for t, _ in ctx.insts):
                    continue
                if self.p("p_while") and assigned:
                    self.uid += 1
                    cnt = f"_i{self.uid}"
                    out.append(f"{pad}{cnt} = 0")
                    out.append(f"{pad}while {cnt} < {self.rnd.randint(1, 3)}:")
                    out.append(f"{pad}    {cnt} += 1")
                    c1 = ctx.copy()
                    out += self.body(c1, locals_pool, indent + 1, self.rnd.randint(1, 2), False, depth + 1, True)
                else:
                    src = (self.rnd.choice(ctx.lists) if ctx.lists and self.rnd.random() < 0.5
                           else f"range({self.rnd.randint(0, 3)})")
                    out.append(f"{pad}for {lv} in {src}:")
                    c1 = ctx.copy()
                    if lv not in c1.ints:
                        c1.ints.append(lv)
                    inner = self.body(c1, locals_pool, indent + 1, self.rnd.randint(1, 2), False, depth + 1, True)
                    out += inner or [f"{pad}    pass"]
                    if self.rnd.random() < 0.2:
                        out.append(f"{pad}else:")
                        out += self.body(ctx.copy(), locals_pool, indent + 1, 1, False, depth + 1, in_loop) or [f"{pad}    pass"]
                    # the loop variable may be unbound after a zero-iteration loop: stays blocked
            elif r < 0.76 and in_loop and assigned:
                out.append(f"{pad}if {self.bool_expr(ctx, 0)}:")
                out.append(f"{pad}    {self.rnd.choice(['break', 'continue'])}")
            elif r < 0.84 and self.p("p_try") and depth < 2:
                out.append(f"{pad}try:")
                c1 = ctx.copy()
                out += self.body(c1, locals_pool, indent + 1, 1, False, depth + 1, in_loop) or [f"{pad}    pass"]
                if self.rnd.random() < 0.6:
                    out.append(f"{pad}    if {self.bool_expr(ctx, 0)}:")
                    out.append(f"{pad}        raise ValueError({self.int_expr(ctx, 0)})")
                ev = self.rnd.choice(["e", "err", "x"])
                out.append(f"{pad}except ValueError as {ev}:" if ev not in locals_pool and ev not in ctx.ints
                           else f"{pad}except ValueError:")
                out += self.body(ctx.copy(), locals_pool, indent + 1, 1, False, depth + 1, in_loop) or [f"{pad}    pass"]
                if self.rnd.random() < 0.3:
                    out.append(f"{pad}finally:")
                    out += self.body(ctx.copy(), locals_pool, indent + 1, 1, False, depth + 1, in_loop) or [f"{pad}    pass"]
            elif r < 0.88 and ctx.lists is not None and depth == 0:
                v = self.rnd.choice(locals_pool)
                if v in ctx.ints or v in ctx.lists or any(t == v for t, _ in ctx.insts):
                    continue
                out.append(f"{pad}{v} = {self.list_expr(ctx)}")
                ctx.lists.append(v)
            elif r < 0.93 and ctx.classes and depth == 0:
                v = self.rnd.choice(locals_pool)
                if v in ctx.ints or v in ctx.lists or any(t == v for t, _ in ctx.insts):
                    continue
                t, ci = self.rnd.choice(ctx.classes)
                out.append(f"{pad}{v} = {t}({ci.init.call_args(self.rnd, lambda: self.int_expr(ctx, 0))})")
                ctx.insts.append((v, ci))
                self._expose_instance(ctx, v, ci)
            elif r < 0.97 and ctx.insts and self.p("p_aug_attr"):
                t, ci = self.rnd.choice(ctx.insts)
                if ci.all_fields():
                    fld = self.rnd.choice(ci.all_fields())
                    op = self.rnd.choice(["=", "+=", "-="])
                    if self.k["p_attr_in_tuple_target"] and assigned and self.p("p_attr_in_tuple_target"):
                        # an attribute of an object among the targets of a tuple assignment / for statement
                        v2 = self.rnd.choice(assigned)
                        if self.rnd.random() < 0.5:
                            out.append(f"{pad}{t}.{fld}, {v2} = {self.int_expr(ctx, 1)}, {self.int_expr(ctx, 0)}")
                        else:
                            out.append(f"{pad}for {t}.{fld} in [{self.int_expr(ctx, 0)}, {self.lit()}]:")
                            out.append(f"{pad}    {v2} = {t}.{fld}")
                    else:
                        out.append(f"{pad}{t}.{fld} {op} {self.int_expr(ctx, 1)}")
            elif self.p("p_fstring") and assigned:
                v = self.rnd.choice(assigned)
                self.uid += 1
                out.append(f"{pad}_s{self.uid} = f\"{v}={{{v}}} {self.rnd.choice(VNAMES)} {{{self.int_expr(ctx, 0)}!r}}\"")
        if ret:
            out.append(f"{pad}return {self.int_expr(ctx)}")
        return out

    def _expose_instance(self, ctx, recv, ci):
        for f in ci.all_fields() + ci.all_cattrs() + ci.all_props():
            ctx.ints.append(f"{recv}.{f}")
        for m in ci.all_methods():
            ctx.funcs.append((recv if m.name == "__call__" else f"{recv}.{m.name}", m))

    # ------------------------------------------------------------------ definitions
    def gen_sig(self, name, taken_params=(), method=False):
        params, used = [], set(taken_params)
        n = self.rnd.randint(0 if method else 1, 3)
        kinds_seen_default = False
        for i in range(n):
            pn = self.fresh(VNAMES, used)
            used.add(pn)
            if self.p("p_posonly") and not params:
                params.append((pn, "posonly", None))
            elif kinds_seen_default or self.p("p_default"):
                kinds_seen_default = True
                params.append((pn, "default", None))
            else:
                params.append((pn, "pos", None))
        if self.p("p_varargs"):
            pn = self.fresh(["args", "rest", "data"], used)
            used.add(pn)
            params.append((pn, "vararg", None))
        if self.p("p_kwonly"):
            pn = self.fresh(VNAMES, used)
            used.add(pn)
            params.append((pn, "kwonly_default" if self.rnd.random() < 0.6 else "kwonly", None))
        if self.p("p_kwargs"):
            pn = self.fresh(["kw", "opts"], used)
            used.add(pn)
            params.append((pn, "kwarg", None))
        return Sig(name, params)

    def fill_defaults(self, sig, mod, ctx):
        ps = []
        for (n, k, d) in sig.params:
            if k in ("default", "kwonly_default") or (k == "posonly" and d):
                if self.p("p_default_global") and mod.gvars:
                    d = self.rnd.choice(mod.gvars)
                else:
                    d = self.lit()
            ps.append((n, k, d))
        sig.params = ps

    def func_ctx(self, base_ctx, sig, locals_pool):
        ctx = base_ctx.without(list(locals_pool) + [p[0] for p in sig.params])
        for (n, k, d) in sig.params:
            if k == "vararg":
                ctx.ints.append(f"len({n})")
                ctx.ints.append(f"sum({n})")
            elif k == "kwarg":
                ctx.ints.append(f"len({n})")
                ctx.ints.append(f"sum({n}.values())")
            else:
                ctx.ints.append(n)
        return ctx

    def gen_function(self, mod, base_ctx, sig, indent=0, self_name=None, decorator=None, extra_ctx=None,
                     allow_nested=True):
        pad = "    " * indent
        pnames = [p[0] for p in sig.params]
        pool = []
        for _ in range(self.rnd.randint(1, 3)):
            # locals deliberately collide with globals / other names when p_shadow
            cands = VNAMES if self.p("p_shadow") else [v for v in VNAMES if v not in mod.names()]
            v = self.rnd.choice(cands or VNAMES) if not self.k["unique_names"] else self.fresh(VNAMES, ())
            if v not in pnames and v not in pool and v != self_name:
                pool.append(v)
        if not pool:
            pool = [self.fresh(VNAMES, set(pnames) | {self_name})]
        inner_name = None
        if allow_nested and self.p("p_nested_def") and indent <= 1:
            inner_name = self.fresh(FNAMES, set(pnames) | set(pool) | mod.names() | {sig.name})
        ctx = self.func_ctx(base_ctx, sig, pool + ([self_name] if self_name else []) + ([inner_name] if inner_name else []))
        if extra_ctx:
            extra_ctx(ctx)
        lines = []
        if decorator:
            lines.append(f"{pad}@{decorator}")
        lines.append(f"{pad}def {sig.name}({sig.param_text(self_name)}):")
        body = []
        # optional global statement: the function assigns a module global
        if self.p("p_global_stmt") and mod.gvars and indent == 0 and self.k.get("allow_global_write", True):
            g = self.rnd.choice(mod.gvars)
            if g not in pnames and g not in pool:
                others = [h for h in mod.gvars if h != g and h not in pnames and h not in pool]
                if self.k["p_multi_global"] and others and self.p("p_multi_global"):
                    # one statement declares two names; both are rebound (the first from its old value)
                    h = self.rnd.choice(others)
                    body.append(f"{pad}    global {g}, {h}")
                    body.append(f"{pad}    {g} = {g} + {self.lit()}")
                    body.append(f"{pad}    {h} = {self.lit()}")
                    ctx.ints.append(h)
                else:
                    body.append(f"{pad}    global {g}")
                    body.append(f"{pad}    {g} = {self.lit()}")
                ctx.ints.append(g)
        if inner_name:
            isig = Sig(inner_name, [(self.fresh(VNAMES, set()), "pos", None)])
            use_nonlocal = self.rnd.random() < 0.5
            cell = self.rnd.choice(pool)
            body.append(f"{pad}    {cell} = {self.int_expr(ctx, 1)}")
            if cell not in ctx.ints:
                ctx.ints.append(cell)
            body.append(f"{pad}    def {inner_name}({isig.params[0][0]}):")
            ictx = ctx.without([isig.params[0][0]])
            ictx.ints.append(isig.params[0][0])
            if use_nonlocal and cell != isig.params[0][0]:
                body.append(f"{pad}        nonlocal {cell}")
                body.append(f"{pad}        {cell} += {isig.params[0][0]}")
            clash = [t for t in ictx.ints if "." not in t and "(" not in t and t in getattr(self, "_cur_cattrs", ())]
            if clash and self_name:
                body.append(f"{pad}        return {self.rnd.choice(clash)} + {self.int_expr(ictx, 1)}")
            else:
                body.append(f"{pad}        return {self.int_expr(ictx, 1)}")
            ctx.funcs.append((inner_name, isig))
        body += self.body(ctx, pool, indent + 1, self.rng("body_len"), ret=True)
        lines += body
        return lines

    def gen_class(self, mod, base_ctx, name, base=None, base_text=None):
        ci = ClassInfo(name, base)
        taken = set(base.member_names()) if base else set()
        lines = [f"class {name}({base_text}):" if base else f"class {name}:"]
        # class attributes (class-body scope: later ones may read earlier ones)
        cctx = base_ctx.copy()
        for _ in range(self.rnd.randint(0, 2)):
            reuse = [g for g in mod.gvars if g not in taken and g != mod.dotted.split(".")[-1]]
            if reuse and self.p("p_shadow") and self.k["unique_names"] != 1:
                a = self.rnd.choice(reuse)       # class attribute spelled like a module global
            else:
                a = self.fresh(VNAMES + ["K", "LIMIT"], taken)
            taken.add(a)
            lines.append(f"    {a} = {self.int_expr(cctx, 1)}")
            ci.cattrs.append(a)
            cctx = cctx.without([a])
            cctx.ints.append(a)
        if self.k["p_class_comp"] and self.p("p_class_comp"):
            # a list-valued class attribute and a comprehension over it directly in the class body: the first
            # iterable of a comprehension is evaluated in the class namespace
            reuse = [g for g in mod.glists if g not in taken]
            if reuse and self.p("p_shadow") and self.k["unique_names"] != 1:
                la = self.rnd.choice(reuse)
            else:
                la = self.fresh(["items", "seq", "data"], taken)
            taken.add(la)
            lines.append(f"    {la} = [{self.int_expr(cctx, 0)}, {self.lit()}, {self.lit()}]")
            tot = self.fresh(["total", "size", "K"], taken)
            taken.add(tot)
            v = self.vname()
            lines.append(f"    {tot} = sum({v} + 1 for {v} in {la})")
            ci.cattrs.append(tot)
            cctx = cctx.without([la, tot])
            cctx.ints.append(tot)
        # __init__
        isig = self.gen_sig("__init__", taken_params=["self"], method=True)
        isig.params = [p for p in isig.params if p[1] in ("pos", "default")]
        self.fill_defaults(isig, mod, base_ctx)
        ci.init = Sig(name, isig.params, kind="class", owner=ci)
        lines.append(f"    def __init__({isig.param_text('self')}):")
        ictx = self.func_ctx(base_ctx, isig, ["self"])
        if base:
            lines.append(f"        super().__init__({base.init.call_args(self.rnd, lambda: self.int_expr(ictx, 0), 'pos')})")
        for _ in range(self.rnd.randint(1, 2)):
            f = self.fresh(VNAMES, taken)
            taken.add(f)
            lines.append(f"        self.{f} = {self.int_expr(ictx, 1)}")
            ci.fields.append(f)

        def selfctx(ctx):
            for f in ci.all_fields() + ci.all_cattrs():
                ctx.ints.append(f"self.{f}")
            for m in ci.all_methods():
                ctx.funcs.append(("self" if m.name == "__call__" else f"self.{m.name}", m))
            for p_ in ci.all_props():
                ctx.ints.append(f"self.{p_}")

        for _ in range(self.rnd.randint(1, 2)):
            mn = self.fresh(FNAMES + ["get", "total"], taken)
            taken.add(mn)
            msig = self.gen_sig(mn, taken_params=["self"], method=True)
            self.fill_defaults(msig, mod, base_ctx)
            self._cur_cattrs = set(ci.all_cattrs())
            lines += self.gen_function(mod, base_ctx, msig, 1, "self", extra_ctx=selfctx,
                                       allow_nested=self.p("p_nested_in_method"))
            self._cur_cattrs = set()
            msig.kind, msig.owner = "method", ci
            ci.methods.append(msig)
        if self.k["p_dunder_call"] and self.p("p_dunder_call") and "__call__" not in taken:
            taken.add("__call__")
            msig = self.gen_sig("__call__", taken_params=["self"], method=True)
            self.fill_defaults(msig, mod, base_ctx)
            lines += self.gen_function(mod, base_ctx, msig, 1, "self", extra_ctx=selfctx, allow_nested=False)
            msig.kind, msig.owner = "method", ci
            ci.methods.append(msig)
        if self.p("p_property"):
            pn = self.fresh(["size", "total", "val", "item"], taken)
            taken.add(pn)
            psig = Sig(pn, [])
            lines += self.gen_function(mod, base_ctx, psig, 1, "self", decorator="property", extra_ctx=selfctx,
                                       allow_nested=False)
            ci.props.append(pn)
        if self.p("p_static"):
            sn = self.fresh(FNAMES + ["make", "norm"], taken)
            taken.add(sn)
            ssig = self.gen_sig(sn)
            self.fill_defaults(ssig, mod, base_ctx)
            lines += self.gen_function(mod, base_ctx, ssig, 1, None, decorator="staticmethod", allow_nested=False)
            ssig.kind, ssig.owner = "static", ci
            ci.statics.append(ssig)
        if self.p("p_classmethod"):
            cn = self.fresh(FNAMES + ["build", "count"], taken)
            taken.add(cn)
            csig = self.gen_sig(cn, taken_params=["cls"], method=True)
            self.fill_defaults(csig, mod, base_ctx)

            def clsctx(ctx):
                for a in ci.all_cattrs():
                    ctx.ints.append(f"cls.{a}")
            lines += self.gen_function(mod, base_ctx, csig, 1, "cls", decorator="classmethod", extra_ctx=clsctx,
                                       allow_nested=False)
            csig.kind, csig.owner = "classmethod", ci
            ci.classmethods.append(csig)
        return ci, lines

    # ------------------------------------------------------------------ modules
    def _import_ctx(self, mod, target, ctx, lines):
        """Emit one import of `target` into `mod` and expose what it gives to ctx."""
        rnd = self.rnd
        styles = ["import", "import_as", "from_names", "from_names_as"]
        if target.package is not None:
            styles += ["from_pkg_import_mod", "from_pkg_import_mod_as"]
        if mod.package is not None and target.package == mod.package and self.p("p_relative"):
            styles = ["rel_from_names", "rel_import_mod", "rel_from_names_as"]
        elif (mod.package is not None and target.package is not None and "." in mod.package
              and mod.package.rsplit(".", 1)[0] == target.package and self.p("p_parent_relative")):
            styles = ["parent_rel_import_mod", "parent_rel_from_names"]
        if self.p("p_star_import") and (target.funcs or target.gvars):
            styles = ["star"]
        style = rnd.choice(styles)
        exported_f = list(target.funcs)
        exported_v = list(target.gvars)
        exported_c = list(target.classes)
        taken = set(mod.names())
        for m_ in mod.imports:
            taken |= set(m_[2]) if isinstance(m_[2], list) else {m_[2]}
        leaf = target.dotted.split(".")[-1]
        pkg = ".".join(target.dotted.split(".")[:-1])

        def expose_module(prefix):
            for v in exported_v:
                ctx.ints.append(f"{prefix}.{v}")
            for l in target.glists:
                ctx.lists.append(f"{prefix}.{l}")
            for f in exported_f:
                ctx.funcs.append((f"{prefix}.{f.name}", f))
            for c in exported_c:
                ctx.classes.append((f"{prefix}.{c.name}", c))
                for a in c.all_cattrs():
                    ctx.ints.append(f"{prefix}.{c.name}.{a}")
                for s in c.all_statics():
                    ctx.funcs.append((f"{prefix}.{c.name}.{s.name}", s))
            for n_, ci_ in target.instances:
                for fld in ci_.all_fields():
                    ctx.ints.append(f"{prefix}.{n_}.{fld}")

        def expose_names(pairs):
            """pairs: (original name, local name)"""
            for on, ln in pairs:
                for v in exported_v:
                    if v == on:
                        ctx.ints.append(ln)
                for f in exported_f:
                    if f.name == on:
                        ctx.funcs.append((ln, f))
                for c in exported_c:
                    if c.name == on:
                        ctx.classes.append((ln, c))
                        for a in c.all_cattrs():
                            ctx.ints.append(f"{ln}.{a}")
                        for s in c.all_statics():
                            ctx.funcs.append((f"{ln}.{s.name}", s))

        if style == "import":
            if target.dotted.split(".")[0] in taken:
                return False
            lines.append(f"import {target.dotted}")
            expose_module(target.dotted)
            mod.imports.append(("import", target, target.dotted.split(".")[0]))
        elif style == "import_as":
            al = self.fresh(["m", "lib", "aux", leaf[:2] + "_"], taken)
            lines.append(f"import {target.dotted} as {al}")
            expose_module(al)
            mod.imports.append(("import_as", target, al))
        elif style in ("from_names", "from_names_as", "rel_from_names", "rel_from_names_as"):
            names = [f.name for f in exported_f] + exported_v + [c.name for c in exported_c]
            names = [n for n in names]
            if not names:
                return False
            pick = rnd.sample(names, rnd.randint(1, min(3, len(names))))
            pairs = []
            for on in pick:
                if style.endswith("_as"):
                    ln = self.fresh([on + "_", "my_" + on, on[0] + "2"], taken)
                else:
                    ln = on
                if ln in taken:
                    continue
                taken.add(ln)
                pairs.append((on, ln))
            if not pairs:
                return False
            src = target.dotted if not style.startswith("rel") else "." + leaf
            txt = ", ".join(on if on == ln else f"{on} as {ln}" for on, ln in pairs)
            if len(pairs) > 1 and rnd.random() < 0.3:
                lines.append(f"from {src} import ({txt})")
            else:
                lines.append(f"from {src} import {txt}")
            expose_names(pairs)
            mod.imports.append((style, target, [ln for _, ln in pairs]))
        elif style == "parent_rel_import_mod":
            if leaf in taken:
                return False
            lines.append(f"from .. import {leaf}")
            expose_module(leaf)
            mod.imports.append((style, target, leaf))
        elif style == "parent_rel_from_names":
            names = [f.name for f in exported_f] + exported_v + [c.name for c in exported_c]
            pick = [n for n in rnd.sample(names, min(2, len(names))) if n not in taken] if names else []
            if not pick:
                return False
            lines.append(f"from ..{leaf} import " + ", ".join(pick))
            expose_names([(n, n) for n in pick])
            mod.imports.append((style, target, list(pick)))
        elif style in ("from_pkg_import_mod", "from_pkg_import_mod_as", "rel_import_mod"):
            al = leaf if style != "from_pkg_import_mod_as" else self.fresh(["m", "lib", "aux"], taken)
            if al in taken:
                return False
            src = pkg if style != "rel_import_mod" else "."
            lines.append(f"from {src} import {leaf}" + (f" as {al}" if al != leaf else ""))
            expose_module(al)
            mod.imports.append((style, target, al))
        elif style == "star":
            names = target.all if target.all is not None else [n for n in
                                                                 [f.name for f in exported_f] + exported_v + target.glists
                                                                 + [c.name for c in exported_c] + [n for n, _ in target.instances]
                                                                 if not n.startswith("_")]
            if any(n in taken for n in names):
                return False
            lines.append(f"from {target.dotted} import *")
            expose_names([(n, n) for n in names])
            mod.imports.append(("star", target, list(names)))
        return True

    def gen_module(self, dotted, path, package, earlier):
        rnd = self.rnd
        mod = ModInfo(dotted, path, package)
        lines = []
        if rnd.random() < 0.4:
            lines.append(f'"""Module {dotted}: uses {rnd.choice(VNAMES)} and {rnd.choice(FNAMES)}."""')
        ctx = Ctx()
        # imports of earlier modules (no cycles by construction)
        targets = [m for m in earlier if rnd.random() < 0.7]
        for t in targets:
            self._import_ctx(mod, t, ctx, lines)
        if lines and not lines[-1].startswith('"""'):
            lines.append("")
        imported_names = set()
        for kind, t, ln in mod.imports:
            imported_names |= set(ln) if isinstance(ln, list) else {ln}
        taken = set(imported_names)
        # globals
        for gi in range(self.rng("n_globals")):
            g = self.fresh(VNAMES + ["K", "LIMIT", "total"], taken)
            like_module = False
            if gi == 0 and not lines and self.k["p_member_named_like_module"] and self.p("p_member_named_like_module"):
                # the datetime.datetime layout: line 1 of the module binds a name spelled like the module
                g = dotted.split(".")[-1]
                like_module = True
            taken.add(g)
            if self.p("p_decoy") and not like_module:
                lines.append(f"# {g} = {rnd.choice(FNAMES)}({rnd.choice(VNAMES)})")
            lines.append(f"{g} = {self.int_expr(ctx, 1)}")
            mod.gvars.append(g)
            ctx.ints.append(g)
        if rnd.random() < 0.5:
            g = self.fresh(["items", "data", "seq"], taken)
            taken.add(g)
            lines.append(f"{g} = {self.list_expr(ctx)}")
            mod.glists.append(g)
            ctx.lists.append(g)
        # functions
        for _ in range(self.rng("n_funcs")):
            fn = self.fresh(FNAMES, taken)
            taken.add(fn)
            sig = self.gen_sig(fn)
            self.fill_defaults(sig, mod, ctx)
            lines.append("")
            if self.p("p_decoy"):
                lines.append(f"# def {fn}({rnd.choice(VNAMES)}): '{fn}' \"{rnd.choice(VNAMES)}\"")
            lines += self.gen_function(mod, ctx, sig)
            mod.funcs.append(sig)
            ctx.funcs.append((fn, sig))
        # classes
        for _ in range(self.rng("n_classes")):
            cn = self.fresh(CNAMES, taken)
            taken.add(cn)
            base = base_text = None
            if self.p("p_inherit") and ctx.classes:
                base_text, base = rnd.choice(ctx.classes)
            lines.append("")
            ci, cl = self.gen_class(mod, ctx, cn, base, base_text)
            lines += cl
            mod.classes.append(ci)
            ctx.classes.append((cn, ci))
            for a in ci.all_cattrs():
                ctx.ints.append(f"{cn}.{a}")
            for s in ci.all_statics():
                ctx.funcs.append((f"{cn}.{s.name}", s))
        # module-level instance assigned once + import-time computation
        if mod.classes and self.p("p_instance_global"):
            ci = rnd.choice(mod.classes)
            g = self.fresh(["inst", "obj", "node"], taken)
            taken.add(g)
            lines.append("")
            lines.append(f"{g} = {ci.name}({ci.init.call_args(rnd, lambda: self.int_expr(ctx, 0))})")
            mod.instances.append((g, ci))
            ctx.insts.append((g, ci))
            self._expose_instance(ctx, g, ci)
            if self.k["p_attr_in_tuple_target"] and ci.all_fields() and self.p("p_attr_in_tuple_target"):
                # a function that READS the module-level instance and stores to one of its fields through a
                # tuple assignment / a for target (the instance itself is never rebound there)
                fld = rnd.choice(ci.all_fields())
                fn = self.fresh(["touch", "poke"], taken)
                taken.add(fn)
                pv, tv = self.fresh(VNAMES, taken | {g}), self.fresh(["w", "tmp"], taken | {g})
                lines.append("")
                lines.append(f"def {fn}({pv}):")
                if rnd.random() < 0.5:
                    lines.append(f"    {g}.{fld}, {tv} = {pv}, {g}.{fld}")
                else:
                    lines.append(f"    {tv} = 0")
                    lines.append(f"    for {g}.{fld} in [{pv}, {pv} + 1]:")
                    lines.append(f"        {tv} += {g}.{fld}")
                lines.append(f"    return {tv} + {g}.{fld}")
                sig = Sig(fn, [(pv, "pos", None)])
                mod.funcs.append(sig)
        if self.p("p_module_level_call") and ctx.funcs:
            g = self.fresh(["result", "total", "cached"], taken)
            taken.add(g)
            lines.append("")
            lines.append(f"{g} = {self.int_expr(ctx, 2)}")
            mod.gvars.append(g)
            ctx.ints.append(g)
        if self.p("p_all"):
            mod.all = [n for n in sorted(mod.names()) if rnd.random() < 0.8]
            lines.append("")
            lines.append("__all__ = [" + ", ".join(repr(n) for n in mod.all) + "]")
        mod.lines = lines
        mod.ctx = ctx
        return mod

    def gen_main(self):
        rnd = self.rnd
        lines = ["import sys", ""]
        ctx = Ctx()
        for m in self.mods:
            lines.append(f"import {m.dotted}")
        lines += [""]

        def show(label, call):
            # direct call (keyword arguments stay visible to static analysis), exceptions are printed
            return [f"try:", f"    print({label!r}, {call})", "except Exception as _e:",
                    f"    print({label!r}, 'raised', type(_e).__name__, _e)"]
        n_inst = 0
        reps = 3 if self.k["multi_call_sites"] else 2
        for m in self.mods:
            pre = m.dotted
            for g in m.gvars + m.glists:
                lines.append(f"print({pre + '.' + g!r}, {pre}.{g})")
            for f in m.funcs:
                for _ in range(reps):
                    args = f.call_args(rnd, self.lit)
                    lines += show(pre + '.' + f.name, f"{pre}.{f.name}({args})")
            for c in m.classes:
                for _ in range(2):
                    n_inst += 1
                    o = f"o{n_inst}"
                    lines.append(f"{o} = {pre}.{c.name}({c.init.call_args(rnd, self.lit)})")
                    for fld in c.all_fields() + c.all_cattrs() + c.all_props():
                        lines.append(f"print({o + '.' + fld!r}, {o}.{fld})")
                    for meth in c.all_methods():
                        args = meth.call_args(rnd, self.lit)
                        lines += show(o + '.' + meth.name, f"{o}({args})" if meth.name == "__call__" else f"{o}.{meth.name}({args})")
                    if c.all_fields() and rnd.random() < 0.5:
                        fld = rnd.choice(c.all_fields())
                        lines.append(f"{o}.{fld} += {self.lit()}")
                        lines.append(f"print({o + '.' + fld + ' after'!r}, {o}.{fld})")
                for s in c.all_statics():
                    args = s.call_args(rnd, self.lit)
                    lines += show(c.name + '.' + s.name, f"{pre}.{c.name}.{s.name}({args})")
                for s in c.all_classmethods():
                    args = s.call_args(rnd, self.lit)
                    lines += show(c.name + '.' + s.name, f"{pre}.{c.name}.{s.name}({args})")
            for n_, ci in m.instances:
                for fld in ci.all_fields():
                    lines.append(f"print({pre + '.' + n_ + '.' + fld!r}, {pre}.{n_}.{fld})")
            # state after the calls (global statements may have changed module globals)
            for g in m.gvars:
                lines.append(f"print({'after ' + pre + '.' + g!r}, {pre}.{g})")
        return lines

    def generate(self):
        rnd = self.rnd
        files = {}
        n = self.rng("n_modules")
        names = rnd.sample(MNAMES, n)
        plan = [(nm, nm + ".py", None) for nm in names]
        if self.p("package"):
            pk = rnd.choice(PNAMES)
            files[f"{pk}/__init__.py"] = ""
            subs = rnd.sample(SUBMOD, rnd.randint(1, 2))
            pos = rnd.randint(0, len(plan))
            pk_plan = [(f"{pk}.{s}", f"{pk}/{s}.py", pk) for s in subs]
            if self.p("nested_package"):
                inner = rnd.choice([p for p in PNAMES if p != pk] + ["inner"])
                files[f"{pk}/{inner}/__init__.py"] = ""
                for s in rnd.sample(SUBMOD, rnd.randint(1, 2)):
                    pk_plan.append((f"{pk}.{inner}.{s}", f"{pk}/{inner}/{s}.py", f"{pk}.{inner}"))
            plan[pos:pos] = pk_plan
        for dotted, path, package in plan:
            m = self.gen_module(dotted, path, package, list(self.mods))
            self.mods.append(m)
            files[path] = "\n".join(m.lines) + "\n"
        files["main.py"] = "\n".join(self.gen_main()) + "\n"
        files["import_all.py"] = "".join(f"import {m.dotted}\n" for m in self.mods) + "print('imported', %d)\n" % len(self.mods)
        return files


def generate(seed, profile="default", **overrides):
    """files: {path: text}.  Deterministic in (seed, profile, overrides)."""
    rnd = random.Random(f"pygen/{seed}/{profile}")
    g = Gen(rnd, profile, **overrides)
    Sig.kw_like_var = g.k["p_kw_like_var"]
    files = g.generate()
    return files, g
