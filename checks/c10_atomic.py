"""C10 - a composite change is all-or-nothing under failure and interruption.

Fault enumeration on real executions: for each generated composite the number n of
file-system operations and the number m of task-handle notifications of project.do()
are measured by a dry run; the case is then re-executed on a fresh copy once per fault
index 1..n (FaultyCommands raising before the k-th operation) and once per notification
index 1..m (observer stopping the TaskHandle).  Same for history.undo() and
history.redo().  Oracle after each faulted call: an exception was reported => tree equals
the pre-call snapshot and undo/redo lists are the same objects in the same order; no
exception => the call took effect completely (tree == dry-run result, history advanced).
"""
import sys

from vlib import core, fsfault, histgen, treesnap

ID = "C10"
READY = True
LEVEL = "fault_enumeration"
RULE = ("random nested ChangeSets over a 5-entry tree (edit/create/move/remove, dependent chains, "
        "composites that fail naturally); every fs-operation index and every task-handle notification "
        "index of do/undo/redo is faulted once on a fresh copy; non-trivial = composite with >=2 leaf "
        "changes where at least one fault landed after the first effect; distinct = (sorted leaf kinds, "
        "#leaves, nesting depth, direction, fault kind)")
ASSUMPTIONS = ["single-fault model: the injected operation raises before having any effect, no second "
               "fault during rollback", "selective undo of several changes is not required to be atomic "
               "as a whole (only the plain undo()/redo() of the last change is checked)"]
BUDGET = {"quick": (5000, 240), "thorough": (155000, 900)}
EXHAUSTIVE = {}
TECHNIQUE = ("runtime fault injection through rope's pluggable FileSystemCommands and TaskHandle observers, "
             "exhaustive over fault index per generated composite; tree-snapshot + history-identity oracle")
LEVEL_TEXT = ("Every file-system operation index and every task-handle notification index of do/undo/redo of "
              "each generated composite is faulted once on the real code and the all-or-nothing oracle is "
              "evaluated on the resulting tree and history lists. Exhaustive per composite, sampled over composites.")
LEVEL_NOTE = ("single-fault model (operation raises before any effect, rollback itself is not faulted); process "
              "crashes mid-composite are out of scope (no journal exists); composites are random trees of the six "
              "basic change kinds over a small universe, not arbitrary refactoring output")
DESIGN_REF = "DESIGN.md section 5, C10"
REQUIRE = {"faults_injected": 50, "stops_injected": 50, "rollback_ops_observed": 10,
           "failed_do_with_nonempty_redo_list": 20}


def cases(tier, seed):
    i = 0
    while True:
        yield {"seed": f"{seed}/C10/{i}", "i": i}
        i += 1


def _depth(spec):
    return 0 if spec[0] != "set" else 1 + max([_depth(c) for c in spec[2]] or [0])


def _mk(root, tree, prelude, fail_at=None, undone=None):
    """Fresh project directory holding `tree`, with the prelude changes performed; `undone` is one
    more change that is performed and undone again, so that the redo list is not empty."""
    from rope.base.project import Project
    import shutil, os
    if os.path.exists(root):
        shutil.rmtree(root)
    os.makedirs(root)
    histgen.write_tree(root, tree)
    fs = fsfault.FaultyCommands(count_reads=True)
    project = Project(root, fscommands=fs, ropefolder=None, automatic_soa=False,
                      save_history=False, save_objectdb=False, max_history_items=100)
    t = tree
    for spec in prelude:
        project.do(histgen.build(project, spec, t))
        t = histgen.apply(t, spec)
    if undone is not None:
        project.do(histgen.build(project, undone, t))
        project.history.undo()
    return project, fs, t


def _lists(project):
    h = project.history
    return ([id(c) for c in h.undo_list], [id(c) for c in h.redo_list])


_REMOVE_UNDO_CALLS = [0]


def setup_worker():
    # monitor on rope's own function: was the (unimplemented) undo of a removal needed?
    from rope.base import change
    orig = change.RemoveResource.undo

    def undo(self, *a, **kw):
        _REMOVE_UNDO_CALLS[0] += 1
        return orig(self, *a, **kw)
    change.RemoveResource.undo = undo


def run_case(spec):
    from rope.base import exceptions
    res = core.Result()
    rnd = core.rng(spec)
    tree0 = dict(histgen.INITIAL)
    # prelude: 0-2 successful changes so the history is not empty
    prelude = []
    t = tree0
    for _ in range(rnd.choice([0, 1, 2])):
        c, t = histgen.gen_change(rnd, t, depth=1, allow_remove=False)
        prelude.append(c)
    tree_pre = t
    undone = None
    if rnd.random() < 0.5:     # a non-empty redo list: a failed do() must leave it alone too
        undone, _ = histgen.gen_change(rnd, t, depth=1, allow_remove=False)
    mode = rnd.random()
    allow_remove = rnd.random() < 0.25
    natural = None
    if mode < 0.25:
        comp, tree_post = histgen.gen_dependent_chain(rnd, tree_pre)
    else:
        comp, tree_post = histgen.gen_change(rnd, tree_pre, max_leaves=7, allow_remove=allow_remove)
        if comp[0] != "set":
            comp = ["set", "single", [comp]]
    if rnd.random() < 0.2:
        # a composite that fails for a natural reason part-way (rope itself refuses a step)
        bad = rnd.choice([["mkfile", "", "a.py"] if "a.py" in tree_post else ["mkdir", "", "pkg"],
                          ["move", "nonexistent.py", "zz.py"], ["mkfile", "nodir", "x.py"]])
        pos = rnd.randint(1, len(comp[2]))
        try:
            tp = histgen.apply(tree_pre, ["set", "", comp[2][:pos]])
            # variant (side stream, the main one is not consumed): an existing resource moved under a folder
            # that does not exist -- refused by the file system, nothing may be created on the way
            import random as _random
            side = _random.Random(hash(rnd.getstate()[1]))
            if bad[0] == "move" and side.random() < 0.6 and tp:
                bad = ["move", side.choice(sorted(tp)), side.choice(["nodir/zz.py", "pkg/nodir/zz.py", "nd1/nd2/zz"])]
                res.ev("natural_failure_move_under_missing_folder")
            try:
                histgen.apply(tp, bad)
            except histgen.ModelError:  # the model agrees that this step must be refused here
                comp = ["set", comp[1], comp[2][:pos] + [bad] + comp[2][pos:]]
                natural = pos
        except histgen.ModelError:
            pass
    nleaves = len(histgen.leaves(comp))
    kinds = histgen.kinds(comp)
    has_remove = "remove" in kinds
    feat = f"remove={int(has_remove)}"
    shape_base = [kinds, nleaves, _depth(comp)]
    res.sample({"prelude": prelude, "undone_before": undone, "composite": comp, "natural_failure_at": natural})

    mark = [0]
    with core.Scratch() as tmp:
        root = tmp + "/p"

        def check_after(direction, fkind, idx, project, before_snap, before_lists, after_snap_ok, exc, fired):
            """The all-or-nothing oracle for one faulted execution."""
            res.evals()
            now = treesnap.snap(root)
            if exc is None:
                if fired:
                    # fault/stop happened but call returned normally: must be 'all'
                    if after_snap_ok is not None and now != after_snap_ok:
                        d = treesnap.diff(after_snap_ok, now)
                        res.violation(f"{direction}|{fkind}|no-error-and-partial|{feat}",
                                      f"{direction} returned normally after a {fkind} yet the tree is not the complete result",
                                      index=idx, diff=d, composite=comp, prelude=prelude)
                    elif fkind == "oserror":
                        res.violation(f"{direction}|{fkind}|error-swallowed|{feat}",
                                      f"{direction}: an injected file-system error was not reported",
                                      index=idx, composite=comp, prelude=prelude)
                    else:
                        res.outcome("completed-despite-stop")
                return
            symptom = None
            detail = {}
            if _REMOVE_UNDO_CALLS[0] > mark[0] and has_remove:
                symptom = "rollback-unsupported-remove"
            elif now != before_snap:
                symptom = "tree-differs"
                detail["diff"] = treesnap.diff(before_snap, now)
            elif _lists(project) != before_lists:
                symptom = "history-changed"
            elif not isinstance(exc, (OSError, exceptions.RopeError)):
                symptom = "reported-as:" + type(exc).__name__
            if symptom:
                res.violation(f"{direction}|{fkind}|{symptom}|{feat}",
                              f"{direction} of a composite failed at {fkind} #{idx} and left: {symptom}",
                              index=idx, error=repr(exc), composite=comp, prelude=prelude,
                              tree_before=treesnap.show(before_snap), tree_now=treesnap.show(now), **detail)
            else:
                res.outcome("rolled-back")

        # ---------------- dry run: count operations / notifications, get reference results
        project, fs, tp = _mk(root, tree0, prelude, undone=undone)
        assert tp == tree_pre
        pre_snap = treesnap.snap(root)
        if pre_snap != histgen.tree_as_snap(tree_pre):
            res.inconclusive("prelude did not produce the model tree")
            return res
        changes = histgen.build(project, comp, tree_pre)
        dry_lists = _lists(project)
        obs = fsfault.StopAt(None)
        fs.arm(None)
        mark[0] = _REMOVE_UNDO_CALLS[0]
        try:
            project.do(changes, task_handle=obs.handle)
            dry_exc = None
        except Exception as e:  # natural failure
            dry_exc = e
        n_do, m_do = fs.n, obs.n
        fs.disarm()
        post_snap = treesnap.snap(root)
        n_undo = m_undo = n_redo = m_redo = 0
        undo_ok = False
        if dry_exc is None:
            if natural is None and post_snap != histgen.tree_as_snap(tree_post):
                res.violation(f"do|none|result-differs-from-model|{feat}", "performing a composite gave a tree "
                              "different from the reference model", composite=comp, prelude=prelude,
                              diff=treesnap.diff(histgen.tree_as_snap(tree_post), post_snap))
            if not has_remove:
                obs = fsfault.StopAt(None)
                fs.arm(None)
                try:
                    project.history.undo(task_handle=obs.handle)
                    undo_ok = True
                except Exception as e:
                    res.violation(f"undo|none|undo-raised:{type(e).__name__}|{feat}",
                                  "plain undo of a performed composite raised", error=repr(e), composite=comp)
                n_undo, m_undo = fs.n, obs.n
                if undo_ok:
                    if treesnap.snap(root) != pre_snap:
                        res.violation(f"undo|none|undo-not-inverse|{feat}", "undo without fault did not restore the tree",
                                      composite=comp, prelude=prelude, diff=treesnap.diff(pre_snap, treesnap.snap(root)))
                        undo_ok = False
                    obs = fsfault.StopAt(None)
                    fs.arm(None)
                    project.history.redo(task_handle=obs.handle)
                    n_redo, m_redo = fs.n, obs.n
                fs.disarm()
        else:
            # natural failure without any injected fault: nothing may remain
            res.ev("natural_failures")
            check_after("do", "natural", natural, project, pre_snap,
                        dry_lists, None, dry_exc, True)
            # single-fault model: inject only before the naturally failing step, so count the
            # operations / notifications of the prefix that precedes it
            project, fs, _ = _mk(root, tree0, prelude, undone=undone)
            prefix = histgen.build(project, ["set", "prefix", comp[2][:natural]], tree_pre)
            obs = fsfault.StopAt(None)
            fs.arm(None)
            project.do(prefix, task_handle=obs.handle)
            n_do, m_do = fs.n, obs.n - 1
            fs.disarm()
        res.ev("fs_ops_in_dry_runs", n_do + n_undo + n_redo)

        # ---------------- do: fault at every operation index and every notification index
        for fkind, count in (("oserror", n_do), ("stop", m_do)):
            for k in range(1, count + 1):
                project, fs, _ = _mk(root, tree0, prelude, undone=undone)
                changes = histgen.build(project, comp, tree_pre)
                before_lists = _lists(project)
                obs = fsfault.StopAt(k if fkind == "stop" else None)
                fs.arm(k if fkind == "oserror" else None)
                exc = None
                mark[0] = _REMOVE_UNDO_CALLS[0]
                try:
                    project.do(changes, task_handle=obs.handle)
                except Exception as e:
                    exc = e
                ops_after_fault = fs.n - (k if fkind == "oserror" else 0)
                fs.disarm()
                fired = fs.fired if fkind == "oserror" else obs.stopped_at is not None
                if fkind == "oserror":
                    res.ev("faults_injected")
                    if fired and ops_after_fault > 0:
                        res.ev("rollback_ops_observed", ops_after_fault)
                else:
                    res.ev("stops_injected")
                if fired and nleaves >= 2 and k > 1:
                    res.shape(shape_base + ["do", fkind])
                if fired and before_lists[1]:
                    res.ev("failed_do_with_nonempty_redo_list")
                check_after("do", fkind, k, project, pre_snap, before_lists,
                            post_snap if dry_exc is None else None, exc, fired)

        # ---------------- undo / redo of the last change
        if undo_ok:
            for direction, ncount, mcount in (("undo", n_undo, m_undo), ("redo", n_redo, m_redo)):
                for fkind, count in (("oserror", ncount), ("stop", mcount)):
                    for k in range(1, count + 1):
                        project, fs, _ = _mk(root, tree0, prelude, undone=undone)
                        project.do(histgen.build(project, comp, tree_pre))
                        if direction == "redo":
                            project.history.undo()
                        before = treesnap.snap(root)
                        before_lists = _lists(project)
                        obs = fsfault.StopAt(k if fkind == "stop" else None)
                        fs.arm(k if fkind == "oserror" else None)
                        exc = None
                        mark[0] = _REMOVE_UNDO_CALLS[0]
                        try:
                            getattr(project.history, direction)(task_handle=obs.handle)
                        except Exception as e:
                            exc = e
                        ops_after_fault = fs.n - (k if fkind == "oserror" else 0)
                        fs.disarm()
                        fired = fs.fired if fkind == "oserror" else obs.stopped_at is not None
                        if fkind == "oserror":
                            res.ev("faults_injected")
                            if fired and ops_after_fault > 0:
                                res.ev("rollback_ops_observed", ops_after_fault)
                        else:
                            res.ev("stops_injected")
                        if fired and nleaves >= 2 and k > 1:
                            res.shape(shape_base + [direction, fkind])
                        check_after(direction, fkind, k, project, before, before_lists,
                                    pre_snap if direction == "undo" else post_snap, exc, fired)
    return res


if __name__ == "__main__":
    core.main(sys.modules[__name__])
