"""Reference scope / name model of one module, computed from `ast` and cross-checked with `symtable`.

Used by C15.  Nothing of rope is imported here.

    model = symref.build(src)            # raises SyntaxError / ValueError when the interpreter rejects src
    model.module                         # root RScope
    model.reported()                     # function / class / comprehension scopes in source order
    model.selfcheck()                    # list of disagreements with symtable.symtable(src) (must be empty)
    model.resolve(scope, name)           # -> Var | None (None = builtin / unbound global / unknown)

Scope kinds: module, function, class, comprehension (reported by rope's statement) and the skipped
kinds lambda, typeparams, typebound, typealias.  3.12's symtable no longer lists list/set/dict
comprehensions (PEP 709), so comprehension scopes are built from the ast nodes here: targets bind in the
comprehension, the first iterable is evaluated in the enclosing scope, walrus targets bind in the nearest
enclosing non-comprehension scope, class scopes are skipped when resolving free names.  `selfcheck`
verifies, table by table, that the symbols symtable reports are exactly the names this model binds in the
scope plus the targets of the comprehensions inlined into it.
"""
from __future__ import annotations

import ast
import symtable

REPORTED = ("function", "class", "comprehension")
COMP_NODES = (ast.ListComp, ast.SetComp, ast.DictComp, ast.GeneratorExp)
_BODY_FIELDS = ("body", "orelse", "finalbody", "handlers", "cases")
_CTX_NODES = (ast.stmt, ast.ExceptHandler, ast.match_case, ast.Lambda, ast.ListComp, ast.SetComp,
              ast.DictComp, ast.GeneratorExp, ast.comprehension, ast.arguments, ast.withitem, ast.Yield,
              ast.YieldFrom)


class Site:
    """One place where a name is bound (or declared) in a scope."""
    __slots__ = ("name", "construct", "lo", "hi", "block", "expr", "optional", "via")

    def __init__(self, name, construct, lo, hi, block, expr, optional=False, via=""):
        self.name, self.construct, self.lo, self.hi = name, construct, lo, hi
        self.block, self.expr, self.optional, self.via = block, expr, optional, via

    def lines(self):
        return range(self.lo, self.hi + 1)

    def __repr__(self):
        return f"<{self.name} {self.construct} {self.lo}-{self.hi} {self.block} {self.expr}>"


class RScope:
    def __init__(self, kind, node, parent, sub=""):
        self.kind, self.node, self.parent, self.sub = kind, node, parent, sub
        self.children = []
        self.bind = {}            # name -> [Site]   (includes names also declared global/nonlocal here)
        self.decl_global = {}     # name -> [Site]
        self.decl_nonlocal = {}   # name -> [Site]
        self.loads = []           # (name, ast.Name node, in_lambda)
        self.expr_ctx = ""        # where the scope's node sits (statement field chain), for comprehensions
        self.block_ctx = "top"
        self.first_iter = False   # comprehension only: sits in the first iterable of another comprehension
        self.notes = {}           # name -> remark about a non-binding occurrence (e.g. "(x): int")
        self.walrus_out = set()   # comprehension only: walrus targets inside that bind further out
        self.via = ""             # skipped expression scopes between this scope and its reported parent
        if parent is not None:
            parent.children.append(self)
        if kind == "module":
            self.start, self.end, self.col = 1, None, 0
        else:
            self.start, self.end, self.col = node.lineno, node.end_lineno, node.col_offset

    @property
    def key(self):
        return (self.kind, self.start, self.col)

    def reported_parent(self):
        p = self.parent
        while p is not None and p.kind not in REPORTED and p.kind != "module":
            p = p.parent
        return p

    def reported_children(self):
        out = []
        for c in self.children:
            if c.kind in REPORTED:
                out.append(c)
            else:
                out.extend(c.reported_children())
        out.sort(key=lambda s: (s.start, s.col))
        return out

    def walk(self):
        yield self
        for c in self.children:
            yield from c.walk()

    def is_local(self, name):
        return name in self.bind and name not in self.decl_global and name not in self.decl_nonlocal

    def in_skipped(self):
        """True when the scope is, or lies inside, a skipped (lambda / type) scope below its reported parent."""
        return self.kind not in REPORTED and self.kind != "module"

    def __repr__(self):
        return f"<RScope {self.kind} {getattr(self.node, 'name', self.sub)} {self.start}-{self.end}>"


class Var:
    """A variable = (owning scope, name); sites = every place that (re)binds or declares it."""

    def __init__(self, owner, name, sites):
        self.owner, self.name, self.sites = owner, name, sites

    def lines(self):
        s = set()
        for site in self.sites:
            s.update(site.lines())
        return s

    def constructs(self):
        return sorted({s.construct for s in self.sites if not s.optional}) or sorted({s.construct for s in self.sites})

    def only_optional(self):
        return all(s.optional for s in self.sites)


class Model:
    def __init__(self, src, tree, module, future_annotations):
        self.src, self.tree, self.module = src, tree, module
        self.future_annotations = future_annotations
        self.has_star_import = False
        self.uses_pep695 = False
        self._vars = {}

    def scopes(self):
        return list(self.module.walk())

    def reported(self):
        return [s for s in self.module.walk() if s.kind in REPORTED]

    # ---------------------------------------------------------------- resolution
    def _owner(self, scope, name):
        """Scope owning the variable `name` denotes when used in `scope`; None = global namespace miss."""
        s = scope
        first = True
        while s is not None:
            if s.kind == "module":
                return s
            if first or s.kind != "class":
                if name in s.decl_global:
                    return self.module
                if name in s.decl_nonlocal:
                    p = s.parent
                    while p is not None and p.kind != "module":
                        if p.kind != "class" and p.is_local(name):
                            return p
                        p = p.parent
                    return None  # compile() would have refused
                if name in s.bind:
                    return s
            first = False
            s = s.parent
        return None

    def var(self, owner, name):
        k = (id(owner), name)
        if k not in self._vars:
            sites = []
            if owner.kind == "module":
                sites.extend(owner.bind.get(name, []))
                sites.extend(owner.decl_global.get(name, []))
                for s in owner.walk():
                    if s is not owner and name in s.decl_global:
                        sites.extend(s.bind.get(name, []))
                        sites.extend(s.decl_global[name])
            else:
                sites.extend(owner.bind.get(name, []))
                for s in owner.walk():
                    if s is not owner and name in s.decl_nonlocal and self._owner(s, name) is owner:
                        sites.extend(s.bind.get(name, []))
                        sites.extend(s.decl_nonlocal[name])
            self._vars[k] = Var(owner, name, sites) if sites else None
        return self._vars[k]

    def resolve(self, scope, name):
        owner = self._owner(scope, name)
        if owner is None:
            return None
        v = self.var(owner, name)
        if v is None:
            return None
        if owner.kind == "module" and all(s.construct in ("Global",) for s in v.sites):
            return None  # declared global somewhere, never bound: unbound global
        return v

    # ---------------------------------------------------------------- self check against symtable
    def selfcheck(self):
        problems = []
        try:
            top = symtable.symtable(self.src, "<m>", "exec")
        except Exception as e:  # pragma: no cover
            return [f"symtable failed: {type(e).__name__}"]
        self._cmp_table(top, self.module, problems)
        return problems

    @staticmethod
    def _sym_visible_children(scope):
        """Children as symtable sees them: list/set/dict comprehensions are inlined (transparent)."""
        out = []
        for c in scope.children:
            if c.kind == "comprehension" and c.sub != "genexpr":
                out.extend(Model._sym_visible_children(c))
            else:
                out.append(c)
        return out

    @staticmethod
    def _inlined(scope):
        out = []
        for c in scope.children:
            if c.kind == "comprehension" and c.sub != "genexpr":
                out.append(c)
                out.extend(Model._inlined(c))
        return out

    def _cmp_table(self, table, scope, problems):
        def mine():
            names = {}
            for s in [scope] + self._inlined(scope):
                for n in s.bind:
                    names.setdefault(n, set()).add("bound")
            for n in scope.decl_global:
                names.setdefault(n, set()).add("global")
            for n in scope.decl_nonlocal:
                names.setdefault(n, set()).add("nonlocal")
            for n in list(scope.decl_global) + list(scope.decl_nonlocal):
                if n not in scope.bind:      # bound only by an inlined comprehension: symtable keeps the declaration
                    names[n].discard("bound")
            return names
        cls = scope
        while cls is not None and cls.kind != "class":
            cls = cls.parent
        my = {_mangle(cls.node.name, n) if cls is not None else n: t for n, t in mine().items()}
        sym = {}
        for s in table.get_symbols():
            n = s.get_name()
            if n.startswith(".") or (n in ("__class__", "__classdict__", "__type_params__") and n not in my):
                continue
            if scope.kind == "comprehension" and n in scope.walrus_out and n not in my:
                continue
            tags = set()
            if s.is_declared_global():
                tags.add("global")
            if s.is_nonlocal():
                tags.add("nonlocal")
            if s.is_parameter() or s.is_assigned() or s.is_imported() or s.is_namespace() or s.is_annotated():
                tags.add("bound")
            if tags:
                sym[n] = tags
        if scope.kind == "module":
            # the module table also lists names declared global in nested scopes
            for n in list(sym):
                if n not in scope.decl_global:
                    if sym[n] == {"global"} and n in scope.bind and all(
                            x.construct == "NamedExpr[in-comprehension]" for x in scope.bind[n]):
                        sym[n] = {"bound"}    # module-level walrus inside a comprehension: flagged DEF_GLOBAL only
                    sym[n].discard("global")
                    if not sym[n]:
                        del sym[n]
        for q in self._inlined(scope):
            for n in q.bind:      # inlined comprehension variable clashing with a free/global use in the scope
                if n not in scope.bind and my.get(n) == {"bound"} and "bound" not in sym.get(n, ()):
                    my.pop(n, None)
                    sym.pop(n, None)
        if my != sym:
            diff = sorted(set(my) ^ set(sym)) or sorted(n for n in my if my[n] != sym.get(n))
            problems.append(f"{scope.kind}@{scope.start}: names differ: {diff[:6]}")
        if scope.kind != "comprehension" or scope.sub == "genexpr":
            inl = set()
            for q in self._inlined(scope):
                inl.update(q.bind)
            for name in sorted({n for n, _, _ in scope.loads} - inl):
                owner = self._owner(scope, name)
                try:
                    s = table.lookup(_mangle(cls.node.name, name) if cls is not None else name)
                except KeyError:
                    problems.append(f"{scope.kind}@{scope.start}: load of {name} unknown to symtable")
                    continue
                if owner is scope and scope.kind != "module":
                    ok = s.is_local()
                elif owner is None or owner.kind == "module":
                    ok = s.is_global() or (scope.kind == "module" and s.is_local())
                else:
                    ok = s.is_free()
                if not ok:
                    problems.append(f"{scope.kind}@{scope.start}: resolution of {name} differs")
        mine_children = self._sym_visible_children(scope)
        tchildren = [t for t in table.get_children() if t.get_type() != "annotation"]
        groups_a, groups_b = {}, {}
        for c in mine_children:
            groups_a.setdefault(_sym_id_scope(c), []).append(c)
        for t in tchildren:
            groups_b.setdefault((_sym_kind(t), t.get_name(), t.get_lineno()), []).append(t)
        if {k: len(v) for k, v in groups_a.items()} != {k: len(v) for k, v in groups_b.items()}:
            diff = sorted(set(groups_a) ^ set(groups_b), key=str)
            problems.append(f"{scope.kind}@{scope.start}: children differ: {diff[:4]}")
            return
        for k, lst in groups_a.items():
            for c, t in zip(lst, groups_b[k]):
                self._cmp_table(t, c, problems)


def _mangle(clsname, name):
    if not name.startswith("__") or name.endswith("__") or "." in name:
        return name
    c = clsname.lstrip("_")
    return f"_{c}{name}" if c else name


def _sym_kind(t):
    ty = str(t.get_type())
    return {"function": "function", "class": "class", "module": "module"}.get(ty, ty)


def _sym_id_scope(s):
    if s.kind == "function":
        return ("function", s.node.name, s.node.lineno)
    if s.kind == "class":
        return ("class", s.node.name, s.node.lineno)
    if s.kind == "lambda":
        return ("function", "lambda", s.node.lineno)
    if s.kind == "comprehension":
        return ("function", "genexpr", s.node.lineno)
    if s.kind == "typeparams":
        return ("type parameter", s.sub, s.node.lineno)
    if s.kind == "typebound":
        return ("TypeVar bound", s.sub, s.node.lineno)
    if s.kind == "typealias":
        return ("type alias", s.sub, s.node.lineno)
    return (s.kind, s.sub, s.start)


# --------------------------------------------------------------------------- the binder
class _Binder:
    def __init__(self, model):
        self.model = model
        self.ctx = []        # entries (class name, field) | ("<scope>", kind)
        self.lambda_depth = 0

    # ---- context rendering
    def _since_scope(self):
        i = len(self.ctx) - 1
        while i >= 0 and not (self.ctx[i][0] == "<scope>" and (self.ctx[i][1] in REPORTED or self.ctx[i][1] == "module")):
            i -= 1
        return [e for e in self.ctx[i + 1:] if e[0] != "<scope>"]

    def block_ctx(self):
        for cls, field, is_stmt in reversed(self._since_scope()):
            if is_stmt and field in _BODY_FIELDS:
                return f"{cls}.{field}"
        return "top"

    def expr_ctx(self):
        """Where an expression sits: field of the innermost statement of the current reported scope (with the
        sub-field for parameter lists / with-items, '>Yield' when under a yield); inside a comprehension scope the
        comprehension part (elt / ifs / iter ...)."""
        ent = self._since_scope()
        last_stmt = -1
        for i, (cls, field, is_stmt) in enumerate(ent):
            if is_stmt:
                last_stmt = i
        if last_stmt >= 0:
            cls, field, _ = ent[last_stmt]
            out = f"{cls}.{field}"
            rest = ent[last_stmt + 1:]
            if rest and rest[0][0] in ("arguments", "withitem"):
                out += "." + rest[0][1]
            if any(c in ("Yield", "YieldFrom") for c, _, _ in rest):
                out += ">Yield"
            return out
        for cls, field, _ in reversed(ent):
            if cls == "comprehension" or cls in ("ListComp", "SetComp", "DictComp", "GeneratorExp"):
                return ("comprehension." if cls != "comprehension" else "comprehension.") + field
        return "top"

    def via(self):
        names = []
        for cls, field, is_stmt in self._since_scope():
            if cls == "Lambda" and "Lambda" not in names:
                names.append("Lambda")
        return "+".join(names)

    # ---- generic traversal
    def visit(self, node, scope):
        m = getattr(self, "v_" + type(node).__name__, None)
        if m is not None:
            return m(node, scope)
        return self.generic(node, scope)

    def generic(self, node, scope, fields=None):
        for field, value in ast.iter_fields(node):
            if fields is not None and field not in fields:
                continue
            self.field(node, field, value, scope)

    def field(self, parent, field, value, scope):
        if isinstance(value, list):
            for v in value:
                if isinstance(v, ast.AST):
                    self.child(parent, field, v, scope)
        elif isinstance(value, ast.AST):
            self.child(parent, field, value, scope)

    def child(self, parent, field, node, scope):
        if isinstance(parent, _CTX_NODES):
            self.ctx.append((type(parent).__name__, field,
                             isinstance(parent, (ast.stmt, ast.ExceptHandler, ast.match_case))))
            try:
                self.visit(node, scope)
            finally:
                self.ctx.pop()
        else:
            self.visit(node, scope)

    def enter(self, scope):
        self.ctx.append(("<scope>", scope.kind, False))

    def leave(self):
        self.ctx.pop()

    # ---- binding helpers
    def bind(self, scope, name, construct, lo, hi, optional=False, table="bind"):
        site = Site(name, construct, lo, max(lo, hi), self.block_ctx(), self.expr_ctx(), optional, self.via())
        getattr(scope, table).setdefault(name, []).append(site)
        return site

    def _stmt_span(self, node):
        """Line range of the header of a statement (whole statement when simple)."""
        lo = node.lineno
        body = getattr(node, "body", None)
        if isinstance(body, list) and body and isinstance(body[0], ast.AST):
            hi = max(lo, body[0].lineno - 1) if body[0].lineno > lo else lo
            if isinstance(node, ast.Try) or isinstance(node, getattr(ast, "TryStar", ())):
                hi = lo
        else:
            hi = getattr(node, "end_lineno", lo) or lo
        return lo, hi

    def targets(self, node, scope, construct, span, shape=""):
        """Bind every Name in an assignment target (Store/Del context)."""
        if isinstance(node, ast.Name):
            c = construct + (f"[{shape}]" if shape else "")
            self.bind(scope, node.id, c, span[0], span[1])
        elif isinstance(node, (ast.Tuple, ast.List)):
            sh = (shape + "." if shape else "") + type(node).__name__
            if sh.count(".") >= 2:
                sh = shape
            for e in node.elts:
                self.targets(e, scope, construct, span, sh)
        elif isinstance(node, ast.Starred):
            sh = (shape + "." if shape else "") + "Starred"
            self.targets(node.value, scope, construct, span, sh)
        else:
            # Attribute / Subscript targets bind nothing; their sub-expressions are loads
            self.visit(node, scope)

    def walrus_scope(self, scope):
        s = scope
        while s.kind == "comprehension":
            s = s.parent
        return s

    # ---- expressions
    def v_Name(self, node, scope):
        if isinstance(node.ctx, ast.Load):
            scope.loads.append((node.id, node, self.lambda_depth > 0))
        elif isinstance(node.ctx, ast.Store):  # stray store (should be handled by statement visitors)
            self.bind(scope, node.id, "Store", node.lineno, node.end_lineno)
        else:
            self.bind(scope, node.id, "Delete", node.lineno, node.end_lineno)

    def v_NamedExpr(self, node, scope):
        self.child(node, "value", node.value, scope)
        tgt = self.walrus_scope(scope)
        q = scope
        while q is not tgt:
            q.walrus_out.add(node.target.id)
            q = q.parent
        c = "NamedExpr" + ("[in-comprehension]" if tgt is not scope else "")
        self.bind(tgt, node.target.id, c, node.lineno, node.end_lineno)

    def v_Lambda(self, node, scope):
        self._arg_outer(node, node.args, scope, annotations=False)
        lam = RScope("lambda", node, scope)
        self.enter(lam)
        self.lambda_depth += 1
        self._params(node, node.args, lam, (node.lineno, node.lineno))
        self.child(node, "body", node.body, lam)
        self.lambda_depth -= 1
        self.leave()

    def _comp(self, node, scope, sub, elts):
        gens = node.generators
        # first iterable: enclosing scope
        self.ctx.append((type(node).__name__, "generators", False))
        self.ctx.append(("comprehension", "iter", False))
        self.visit(gens[0].iter, scope)
        self.ctx.pop()
        self.ctx.pop()
        q = RScope("comprehension", node, scope, sub)
        q.expr_ctx, q.block_ctx, q.via = self.expr_ctx(), self.block_ctx(), self.via()
        q.first_iter = any(c == "comprehension" and f == "iter" for c, f, _ in self._since_scope())
        self.enter(q)
        for i, g in enumerate(gens):
            span = (g.target.lineno, g.iter.end_lineno or g.target.lineno)
            self.ctx.append((type(node).__name__, "generators", False))
            self.ctx.append(("comprehension", "target", False))
            self.targets(g.target, q, "comp-target", span)
            self.ctx.pop()
            if i > 0:
                self.ctx.append(("comprehension", "iter", False))
                self.visit(g.iter, q)
                self.ctx.pop()
            self.ctx.append(("comprehension", "ifs", False))
            for c in g.ifs:
                self.visit(c, q)
            self.ctx.pop()
            self.ctx.pop()
        for fname in elts:
            self.child(node, fname, getattr(node, fname), q)
        self.leave()

    def v_ListComp(self, node, scope):
        self._comp(node, scope, "listcomp", ("elt",))

    def v_SetComp(self, node, scope):
        self._comp(node, scope, "setcomp", ("elt",))

    def v_GeneratorExp(self, node, scope):
        self._comp(node, scope, "genexpr", ("elt",))

    def v_DictComp(self, node, scope):
        self._comp(node, scope, "dictcomp", ("key", "value"))

    # ---- definitions
    def _annotation(self, parent, field, node, scope):
        if node is not None and not self.model.future_annotations:
            self.child(parent, field, node, scope)

    def _arg_outer(self, owner, args, scope, annotations=True):
        """Defaults (and annotations) of a parameter list: evaluated outside the new scope."""
        self.ctx.append((type(owner).__name__, "args", isinstance(owner, ast.stmt)))
        for d in args.defaults:
            self.child(args, "defaults", d, scope)
        for d in args.kw_defaults:
            if d is not None:
                self.child(args, "kw_defaults", d, scope)
        self.ctx.pop()

    def _arg_annotations(self, owner, args, scope):
        self.ctx.append((type(owner).__name__, "args", True))
        for a in args.posonlyargs + args.args + ([args.vararg] if args.vararg else []) + args.kwonlyargs + (
                [args.kwarg] if args.kwarg else []):
            self._annotation(args, "annotation", a.annotation, scope)
        self.ctx.pop()

    def _params(self, owner, args, fscope, span):
        for a in args.posonlyargs:
            self.bind(fscope, a.arg, "param:posonly", span[0], max(span[1], a.end_lineno or 0))
        for a in args.args:
            self.bind(fscope, a.arg, "param:pos", span[0], max(span[1], a.end_lineno or 0))
        if args.vararg:
            self.bind(fscope, args.vararg.arg, "param:vararg", span[0], max(span[1], args.vararg.end_lineno or 0))
        for a in args.kwonlyargs:
            self.bind(fscope, a.arg, "param:kwonly", span[0], max(span[1], a.end_lineno or 0))
        if args.kwarg:
            self.bind(fscope, args.kwarg.arg, "param:kwarg", span[0], max(span[1], args.kwarg.end_lineno or 0))

    def _type_params(self, node, scope, name):
        """PEP 695: returns the scope definitions of `node` live in (a skipped 'typeparams' scope or `scope`)."""
        tps = getattr(node, "type_params", None)
        if not tps:
            return scope
        self.model.uses_pep695 = True
        tp = RScope("typeparams", node, scope, name)
        self.enter(tp)
        for t in tps:
            self.bind(tp, t.name, "TypeParam", t.lineno, t.end_lineno)
            bound = getattr(t, "bound", None)
            if bound is not None:
                b = RScope("typebound", t, tp, t.name)
                self.enter(b)
                self.lambda_depth += 1
                self.visit(bound, b)
                self.lambda_depth -= 1
                self.leave()
        self.leave()
        return tp

    def _funcdef(self, node, scope, construct):
        for d in node.decorator_list:
            self.child(node, "decorator_list", d, scope)
        span = self._stmt_span(node)
        self.bind(scope, node.name, construct, span[0], span[1])
        outer = self._type_params(node, scope, node.name)
        self._arg_outer(node, node.args, scope)
        skipped = outer is not scope
        if skipped:
            self.enter(outer)
            self.lambda_depth += 1
        self._arg_annotations(node, node.args, outer)
        self._annotation(node, "returns", node.returns, outer)
        if skipped:
            self.lambda_depth -= 1
        f = RScope("function", node, outer, "async" if isinstance(node, ast.AsyncFunctionDef) else "")
        f.block_ctx = self.block_ctx() if not skipped else "top"
        self.enter(f)
        saved, self.lambda_depth = self.lambda_depth, 0
        self._params(node, node.args, f, span)
        for st in node.body:
            self.child(node, "body", st, f)
        self.lambda_depth = saved
        self.leave()
        if skipped:
            self.leave()

    def v_FunctionDef(self, node, scope):
        self._funcdef(node, scope, "FunctionDef")

    def v_AsyncFunctionDef(self, node, scope):
        self._funcdef(node, scope, "AsyncFunctionDef")

    def v_ClassDef(self, node, scope):
        for d in node.decorator_list:
            self.child(node, "decorator_list", d, scope)
        span = self._stmt_span(node)
        self.bind(scope, node.name, "ClassDef", span[0], span[1])
        outer = self._type_params(node, scope, node.name)
        skipped = outer is not scope
        if skipped:
            self.enter(outer)
            self.lambda_depth += 1
        for b in node.bases:
            self.child(node, "bases", b, outer)
        for k in node.keywords:
            self.child(node, "keywords", k, outer)
        if skipped:
            self.lambda_depth -= 1
        c = RScope("class", node, outer)
        c.block_ctx = self.block_ctx() if not skipped else "top"
        self.enter(c)
        saved, self.lambda_depth = self.lambda_depth, 0
        for st in node.body:
            self.child(node, "body", st, c)
        self.lambda_depth = saved
        self.leave()
        if skipped:
            self.leave()

    def v_TypeAlias(self, node, scope):
        self.model.uses_pep695 = True
        self.bind(scope, node.name.id, "TypeAlias", node.lineno, node.end_lineno)
        outer = self._type_params(node, scope, node.name.id)
        if outer is not scope:
            self.enter(outer)
        a = RScope("typealias", node, outer, node.name.id)
        self.enter(a)
        self.lambda_depth += 1
        self.visit(node.value, a)
        self.lambda_depth -= 1
        self.leave()
        if outer is not scope:
            self.leave()

    # ---- statements that bind
    def v_Assign(self, node, scope):
        self.child(node, "value", node.value, scope)
        span = self._stmt_span(node)
        chained = len(node.targets) > 1
        for t in node.targets:
            self.ctx.append(("Assign", "targets", True))
            self.targets(t, scope, "Assign", span, "chained" if chained and isinstance(t, ast.Name) else "")
            self.ctx.pop()

    def v_AugAssign(self, node, scope):
        self.child(node, "value", node.value, scope)
        if isinstance(node.target, ast.Name):
            span = self._stmt_span(node)
            self.ctx.append(("AugAssign", "target", True))
            self.bind(scope, node.target.id, "AugAssign", span[0], span[1])
            self.ctx.pop()
        else:
            self.child(node, "target", node.target, scope)

    def v_AnnAssign(self, node, scope):
        if node.value is not None:
            self.child(node, "value", node.value, scope)
        # annotations of simple names in function bodies are never evaluated, symtable still walks them
        self._annotation(node, "annotation", node.annotation, scope)
        span = self._stmt_span(node)
        if isinstance(node.target, ast.Name):
            self.ctx.append(("AnnAssign", "target", True))
            if node.value is not None:
                self.bind(scope, node.target.id, "AnnAssign", span[0], span[1])
            elif node.simple:
                self.bind(scope, node.target.id, "AnnAssign:novalue", span[0], span[1], optional=True)
            else:
                scope.notes[node.target.id] = "AnnAssign[parenthesized-target-without-value]"
            self.ctx.pop()
        else:
            self.child(node, "target", node.target, scope)

    def _for(self, node, scope, construct):
        self.child(node, "iter", node.iter, scope)
        span = (node.lineno, max(node.lineno, node.iter.end_lineno or node.lineno))
        self.ctx.append((type(node).__name__, "target", True))
        self.targets(node.target, scope, construct, span)
        self.ctx.pop()
        for st in node.body:
            self.child(node, "body", st, scope)
        for st in node.orelse:
            self.child(node, "orelse", st, scope)

    def v_For(self, node, scope):
        self._for(node, scope, "For")

    def v_AsyncFor(self, node, scope):
        self._for(node, scope, "AsyncFor")

    def _with(self, node, scope, construct):
        last = node.lineno
        for it in node.items:
            last = max(last, it.context_expr.end_lineno or last,
                       (it.optional_vars.end_lineno or last) if it.optional_vars is not None else last)
        for it in node.items:
            self.ctx.append((type(node).__name__, "items", True))
            self.child(it, "context_expr", it.context_expr, scope)
            if it.optional_vars is not None:
                self.ctx.append(("withitem", "optional_vars", False))
                self.targets(it.optional_vars, scope, construct, (node.lineno, last))
                self.ctx.pop()
            self.ctx.pop()
        for st in node.body:
            self.child(node, "body", st, scope)

    def v_With(self, node, scope):
        self._with(node, scope, "With")

    def v_AsyncWith(self, node, scope):
        self._with(node, scope, "AsyncWith")

    def _try(self, node, scope, construct):
        for st in node.body:
            self.child(node, "body", st, scope)
        for h in node.handlers:
            self.ctx.append((type(node).__name__, "handlers", True))
            if h.type is not None:
                self.child(h, "type", h.type, scope)
            if h.name:
                hi = h.body[0].lineno - 1 if h.body[0].lineno > h.lineno else h.lineno
                self.ctx.append(("ExceptHandler", "name", True))
                self.bind(scope, h.name, construct, h.lineno, hi)
                self.ctx.pop()
            for st in h.body:
                self.child(h, "body", st, scope)
            self.ctx.pop()
        for st in node.orelse:
            self.child(node, "orelse", st, scope)
        for st in node.finalbody:
            self.child(node, "finalbody", st, scope)

    def v_Try(self, node, scope):
        self._try(node, scope, "Except")

    def v_TryStar(self, node, scope):
        self._try(node, scope, "ExceptStar")

    def v_Import(self, node, scope):
        span = self._stmt_span(node)
        for a in node.names:
            if a.asname:
                self.bind(scope, a.asname, "Import[as]", span[0], span[1])
            elif "." in a.name:
                self.bind(scope, a.name.split(".")[0], "Import[dotted]", span[0], span[1])
            else:
                self.bind(scope, a.name, "Import", span[0], span[1])

    def v_ImportFrom(self, node, scope):
        span = self._stmt_span(node)
        for a in node.names:
            if a.name == "*":
                self.model.has_star_import = True
                continue
            self.bind(scope, a.asname or a.name, "ImportFrom[as]" if a.asname else "ImportFrom", span[0], span[1])

    def v_Global(self, node, scope):
        for n in node.names:
            self.bind(scope, n, "Global", node.lineno, node.end_lineno, table="decl_global")

    def v_Nonlocal(self, node, scope):
        for n in node.names:
            self.bind(scope, n, "Nonlocal", node.lineno, node.end_lineno, table="decl_nonlocal")

    def v_Delete(self, node, scope):
        span = self._stmt_span(node)
        for t in node.targets:
            self.ctx.append(("Delete", "targets", True))
            self.targets(t, scope, "Delete", span)
            self.ctx.pop()

    # ---- match
    def v_match_case(self, node, scope):
        self._case_hi = node.body[0].lineno - 1 if node.body[0].lineno > node.pattern.lineno else node.pattern.end_lineno
        self.child(node, "pattern", node.pattern, scope)
        if node.guard is not None:
            self.child(node, "guard", node.guard, scope)
        for st in node.body:
            self.child(node, "body", st, scope)

    def v_MatchAs(self, node, scope):
        if node.pattern is not None:
            self.visit(node.pattern, scope)
        if node.name is not None:
            self.bind(scope, node.name, "MatchAs[as]" if node.pattern is not None else "MatchAs",
                      node.lineno, max(node.end_lineno, getattr(self, "_case_hi", 0)))

    def v_MatchStar(self, node, scope):
        if node.name is not None:
            self.bind(scope, node.name, "MatchStar", node.lineno, max(node.end_lineno, getattr(self, "_case_hi", 0)))

    def v_MatchMapping(self, node, scope):
        for k in node.keys:
            self.visit(k, scope)
        for p in node.patterns:
            self.visit(p, scope)
        if node.rest is not None:
            self.bind(scope, node.rest, "MatchMapping", node.lineno, max(node.end_lineno, getattr(self, "_case_hi", 0)))


def build(src):
    """Build the reference model of module source text `src` (str)."""
    tree = ast.parse(src)
    compile(tree, "<m>", "exec", dont_inherit=True)
    future = any(isinstance(st, ast.ImportFrom) and st.module == "__future__" and st.level == 0
                 and any(a.name == "annotations" for a in st.names) for st in tree.body)
    module = RScope("module", tree, None)
    model = Model(src, tree, module, future)
    b = _Binder(model)
    b.enter(module)
    for st in tree.body:
        b.child(tree, "body", st, module)
    b.leave()
    module.end = src.count("\n") + (0 if src.endswith("\n") or not src else 1)
    return model


# --------------------------------------------------------------------------- positions
class Positions:
    """Conversions between (lineno, utf8 column), (lineno, char column) and str offsets."""

    def __init__(self, src):
        self.src = src
        self.lines = src.split("\n")
        self.starts = []
        off = 0
        for ln in self.lines:
            self.starts.append(off)
            off += len(ln) + 1

    def offset(self, lineno, bytecol):
        line = self.lines[lineno - 1]
        if line.isascii():
            return self.starts[lineno - 1] + bytecol
        return self.starts[lineno - 1] + len(line.encode("utf-8")[:bytecol].decode("utf-8", "replace"))

    def char_offset(self, lineno, charcol):
        return self.starts[lineno - 1] + charcol

    def node_span(self, node):
        return self.offset(node.lineno, node.col_offset), self.offset(node.end_lineno, node.end_col_offset)


def self_attrs(classnode):
    """Names assigned as attributes of a function's first parameter anywhere inside the class body."""
    out = set()
    for fn in ast.walk(classnode):
        if isinstance(fn, (ast.FunctionDef, ast.AsyncFunctionDef)):
            params = fn.args.posonlyargs + fn.args.args
            if not params:
                continue
            first = params[0].arg
            for n in ast.walk(fn):
                if isinstance(n, ast.Attribute) and not isinstance(n.ctx, ast.Load) and isinstance(n.value, ast.Name) \
                        and n.value.id == first:
                    out.add(n.attr)
    return out
