"""C02 - occurrence finding is exact: all and only references to the chosen binding.

Same generated projects and request labels as C01 (one generator, two verdict projections).
For a query token t the reported set S(t) = rope.contrib.findit.find_occurrences (unsure=False):
  (a) every location is a NAME token of the tokenizer with t's spelling - never inside a string,
      an f-string literal part or a comment;
  (b) t itself is in S(t);
  (c) query invariance: for other tokens t' in S(t), S(t') == S(t);
  (d) the tokens Rename.get_changes() rewrites are exactly S(t);
  (e) two-sided exactness against the reference binder (vlib/bindlex.py, symtable rules) for
      bindings owned by a function, lambda or comprehension scope: S(t) == the binder's
      occurrence set of that binding, and no location lies in another module.
"""
import io
import os
import sys
import tokenize

from vlib import behave, bindlex, core
from checks import c01_rename as c01

ID = "C02"
READY = True
LEVEL = "exploration"
RULE = ("same projects as C01 (pygen profile 'binding'); query points stratified by syntactic role; non-trivial = "
        "query whose answer has >= 2 locations; distinct = (role, binder owner kind, #locations bucket, #files "
        "bucket, outcome)")
ASSUMPTIONS = ["clause (e) is decided only for bindings the reference binder resolves to a function / lambda / "
               "comprehension scope; module-level, class-level and attribute bindings are judged by (a)-(d) and by C01",
               "unsure occurrences are excluded, as in the statement (statically determined bindings)"]
BUDGET = {"quick": (500, 240), "thorough": (1400, 900)}
EXHAUSTIVE = {}
CASE_TIMEOUT = 600
REQUIRE = {"queries": 1500, "invariance_checked": 800, "rename_agreement_checked": 800, "binder_two_sided_checked": 200,
           "keyword_queries_resolved": 100}
TECHNIQUE = ("observed occurrence sets checked against the tokenizer, against each other (query invariance), "
             "against the rename change set, and two-sided against a symtable-based reference binder")
LEVEL_TEXT = ("Each occurrence query is executed on the real code; the reported set is validated token by token "
              "with Python's tokenizer, compared with the sets obtained from other members of the set, with the "
              "tokens a rename would rewrite, and - for scope-local bindings - with the reference binder's set.")
LEVEL_NOTE = ("sampled programs/query points in fragment F; two-sided exactness for global, class and attribute "
              "bindings relies on invariance + rename agreement + C01's execution oracle")
DESIGN_REF = "DESIGN.md section 5, C02"

POINTS_PER_FILE = {"quick": 14, "thorough": 50}


def cases(tier, seed):
    i = 0
    while True:
        # every second project has a distinct spelling per binding (see C01): the spelling-clash
        # classes do not apply there and every clause is judged with fine keys
        yield {"seed": f"{seed}/C02/{i}", "pseed": seed * 1000003 + i + 500000, "unique": i % 3}
        i += 1


def name_spans(text):
    """{offset: (string, end)} for NAME tokens."""
    starts = [0]
    for line in text.split("\n")[:-1]:
        starts.append(starts[-1] + len(line) + 1)
    out = {}
    for t in tokenize.generate_tokens(io.StringIO(text).readline):
        if t.type == tokenize.NAME:
            off = starts[t.start[0] - 1] + t.start[1]
            out[off] = (t.string, off + len(t.string))
    return out


def occs(project, path, offset):
    from rope.contrib import findit
    locs = findit.find_occurrences(project, project.get_file(path), offset)
    return sorted({(l.resource.path, l.region[0], l.region[1]) for l in locs if not l.unsure})


def rename_tokens(project, files, path, offset, old, fresh):
    """Tokens a rename would rewrite, from the computed (not performed) change set."""
    from rope.base.change import ChangeContents, ChangeSet
    from rope.refactor.rename import Rename
    changes = Rename(project, project.get_file(path), offset).get_changes(fresh)
    out = set()

    def walk(c):
        if isinstance(c, ChangeSet):
            for x in c.changes:
                walk(x)
        elif isinstance(c, ChangeContents):
            p = c.resource.path
            a = [(t.type, t.string, t.start) for t in tokenize.generate_tokens(io.StringIO(files[p]).readline)]
            b = [(t.type, t.string) for t in tokenize.generate_tokens(io.StringIO(c.new_contents).readline)]
            if len(a) != len(b):
                out.add((p, -1, -1))
                return
            starts = [0]
            for line in files[p].split("\n")[:-1]:
                starts.append(starts[-1] + len(line) + 1)
            for (ty, s, st), (ty2, s2) in zip(a, b):
                if s != s2:
                    off = starts[st[0] - 1] + st[1]
                    out.add((p, off, off + len(s)))
    walk(changes)
    return sorted(out)


def run_case(spec):
    from rope.base import exceptions
    res = core.Result()
    rnd = core.rng(spec)
    tier = os.environ.get("VERIF_TIER", "quick")
    with core.Scratch() as tmp:
        case = behave.Case.__new__(behave.Case)
        from vlib import pygen, pyrun
        case.seed, case.profile, case.root = spec["pseed"], "binding", tmp + "/p"
        unique = bool(spec.get("unique"))
        ukey = "unique-names" if spec.get("unique") == 1 else "unique-names+class-attribute-spelled-like-global"
        case.files, case.gen = pygen.generate(spec["pseed"], "binding", p_fstring=0.05, p_star_import=0.03, p_kwonly=0.1,
                                              p_varargs=0.1, p_kwargs=0.15, p_kw_like_var=0.6, p_dunder_call=0.3,
                                              unique_names=int(spec.get("unique") or 0),
                                              **({"p_class_comp": 0.4, "p_multi_global": 0.5, "p_member_named_like_module": 0.5,
                                                  "p_attr_in_tuple_target": 0.6, "p_aug_attr": 0.5, "p_instance_global": 0.5}
                                                 if spec.get("unique") else {}))
        os.makedirs(case.root)
        pyrun.write_project(case.root, case.files)
        case.baseline = pyrun.behaviour(case.root, entries=("import_all.py",))
        if case.baseline[0][0] != 0:
            res.outcome("discarded")
            res.ev("discarded_invalid_projects")
            return res
        res.ev("projects")
        files = case.files
        facts = c01.project_facts(files)
        spans = {}
        lex = {}
        for p, t in files.items():
            if p.endswith(".py"):
                try:
                    spans[p] = name_spans(t)
                except Exception:
                    spans[p] = {}
        taken = {s for sp in spans.values() for s, _ in sp.values()}
        fresh = next(n for n in ("fresh_q", "fresh_q2", "zz_fresh") if n not in taken)
        project = case.project()
        import ast as _ast0
        def_names = set()
        for t_ in files.values():
            try:
                def_names |= {n.name for n in _ast0.walk(_ast0.parse(t_)) if isinstance(n, (_ast0.FunctionDef, _ast0.AsyncFunctionDef, _ast0.ClassDef))}
                def_names |= {(a.asname or a.name) for n in _ast0.walk(_ast0.parse(t_)) if isinstance(n, _ast0.ImportFrom) for a in n.names}
            except SyntaxError:
                pass
        paths = [p for p in files if p.endswith(".py") and files[p].strip()]
        rnd.shuffle(paths)
        import builtins
        for path in paths[:4]:
            text = files[path]
            toks = [t for t in c01.name_tokens(text) if not hasattr(builtins, t[1])]
            byrole = {}
            for t in toks:
                byrole.setdefault(c01.role_of(t, text), []).append(t)
            picked = []
            roles = sorted(byrole)
            while len(picked) < POINTS_PER_FILE[tier] and any(byrole.values()):
                for r in roles:
                    if byrole[r] and len(picked) < POINTS_PER_FILE[tier]:
                        picked.append((r, byrole[r].pop(rnd.randrange(len(byrole[r])))))
            try:
                lex[path] = bindlex.bindings(text)
            except bindlex.Unsupported:
                lex[path] = None
            starts = [0]
            for line in text.split("\n")[:-1]:
                starts.append(starts[-1] + len(line) + 1)
            lines = text.split("\n")

            def occ_offset(o):
                # bindlex columns are utf-8 byte columns
                line = lines[o.line - 1]
                return starts[o.line - 1] + len(line.encode("utf-8")[:o.col].decode("utf-8", "ignore"))

            def kwarg_line_col(off):
                ln = text.count("\n", 0, off) + 1
                return ln, len(text[starts[ln - 1]:off].encode("utf-8"))

            import ast as _ast
            special_hosts = []
            kwarg_offsets = set()       # offsets of keyword-argument names at calls
            super_kwarg_offsets = set()
            var_callee_kwarg_offsets = set()
            call_hosts = []
            try:
                for n in _ast.walk(_ast.parse(text)):
                    if isinstance(n, _ast.Call) and isinstance(n.func, _ast.Name) and n.func.id not in def_names:
                        for kw_ in n.keywords:
                            if kw_.arg:
                                var_callee_kwarg_offsets.add(starts[kw_.lineno - 1] + len(
                                    lines[kw_.lineno - 1].encode("utf-8")[:kw_.col_offset].decode("utf-8", "ignore")))
                    if (isinstance(n, _ast.Call) and isinstance(n.func, _ast.Attribute) and isinstance(n.func.value, _ast.Call)
                            and isinstance(n.func.value.func, _ast.Name) and n.func.value.func.id == "super"):
                        for kw_ in n.keywords:
                            if kw_.arg:
                                super_kwarg_offsets.add(starts[kw_.lineno - 1] + len(
                                    lines[kw_.lineno - 1].encode("utf-8")[:kw_.col_offset].decode("utf-8", "ignore")))
                    if isinstance(n, (_ast.FunctionDef, _ast.AsyncFunctionDef)) and n.name == "__call__":
                        call_hosts.append((n.lineno, n.end_lineno))
                    if isinstance(n, _ast.keyword) and n.arg:
                        kwarg_offsets.add(starts[n.lineno - 1] + len(lines[n.lineno - 1].encode("utf-8")[:n.col_offset].decode("utf-8", "ignore")))
                    if isinstance(n, (_ast.FunctionDef, _ast.AsyncFunctionDef)) and (
                            n.args.kwonlyargs or n.args.posonlyargs or n.args.vararg or n.args.kwarg):
                        special_hosts.append((n.lineno, n.end_lineno))
            except SyntaxError:
                pass
            for role, tok in picked:
                offset, old = tok[0], tok[1]
                label = None
                qline = text.count("\n", 0, offset) + 1
                if offset in var_callee_kwarg_offsets:
                    label = "keyword-argument-of-a-call-through-a-variable"
                elif any(lo <= qline <= hi for lo, hi in call_hosts):
                    # witnesses: self.attr / self.method(kw=...) inside __call__ of a class whose instances are
                    # called elsewhere give an empty answer
                    label = "inside-a-__call__-method"
                elif unique:
                    if old.startswith("__") and old.endswith("__"):
                        label = "dunder-name"
                    elif old not in facts["defined"] or old in facts["nonproject_imports"]:
                        label = "name-not-defined-in-project"
                    elif role == "alias" or old in facts["module_alias"].get(path, ()):
                        label = "import-alias"
                    elif facts["star"]:
                        label = "project-has-star-import"
                    elif facts["same_leaf"]:
                        label = "two-project-modules-share-their-file-name"
                    elif old in facts["bare_genexp_targets"]:
                        label = "variable-of-a-generator-expression-that-is-the-sole-unparenthesised-argument-of-a-call"
                    elif old in facts["class_nested_scope_loads"]:
                        label = "name-read-in-a-lambda-or-comprehension-directly-in-a-class-body"
                    elif old in facts["special_params"]:
                        label = "keyword-only-star-or-lambda-parameter"
                    elif old in facts["fstring_names"]:
                        label = "name-used-in-an-fstring-field"
                    elif offset in super_kwarg_offsets:
                        label = "keyword-argument-of-a-call-through-super()"
                    elif any(lo <= qline <= hi for lo, hi in special_hosts):
                        label = "inside-a-function-with-keyword-only-or-star-parameters"
                elif old.startswith("__") and old.endswith("__"):
                    label = "dunder-name"
                elif old not in facts["defined"] or old in facts["nonproject_imports"]:
                    label = "name-not-defined-in-project"
                elif role == "alias" or old in facts["module_alias"].get(path, ()):
                    label = "import-alias"
                elif old in facts["default_clash"]:
                    label = "default-argument-spelled-like-inner-binding"
                elif old in facts["modlevel_comp"]:
                    label = "module-level-comprehension-variable-spelled-like-global"
                elif facts["star"]:
                    label = "project-has-star-import"
                elif facts["same_leaf"]:
                    label = "two-project-modules-share-their-file-name"
                elif old.lower() in ("f", "r", "b", "u", "rb", "br", "fr", "rf") and facts["has_prefixed_string"]:
                    label = "name-equals-a-string-prefix"
                elif old in facts["special_params"]:
                    label = "spelled-like-a-keyword-only-star-or-lambda-parameter"
                elif old in facts["fstring_names"]:
                    label = "spelled-like-a-name-in-an-fstring-field"
                elif old in facts["comp_targets"]:
                    label = "spelled-like-a-comprehension-variable"
                elif old in facts["class_body_loads"]:
                    label = "spelled-like-a-name-loaded-in-a-class-body"
                elif old in facts["init_params"]:
                    label = "spelled-like-a-constructor-parameter"
                elif old in facts["inherited_members"]:
                    label = "spelled-like-a-member-of-a-class-that-has-subclasses"
                elif old in facts["ambiguous_members"]:
                    label = "member-of-a-class-whose-body-reads-a-name-it-also-binds"
                elif any(lo <= qline <= hi for lo, hi in special_hosts):
                    label = "inside-a-function-with-keyword-only-or-star-parameters"
                res.evals()
                res.ev("queries")

                def viol(clause, what, **kw):
                    key = f"occurrences|hostile:{label}" if label else (
                        f"occurrences|{clause}|{ukey if unique else 'core'}|role={role}")
                    res.violation(key, what, file=path, offset=offset, name=old, clause=clause, pseed=spec["pseed"],
                                  line=text[text.rfind("\n", 0, offset) + 1:text.find("\n", offset)], **kw)

                try:
                    S = occs(project, path, offset)
                except exceptions.RopeError:
                    res.outcome("refused")
                    continue
                except Exception as e:
                    viol(f"internal:{core.exc_sig(e)}", f"find_occurrences raised {e!r}"[:200])
                    continue
                if len(S) >= 2:
                    res.shape([role, min(len(S), 6), min(len({p for p, _, _ in S}), 3), bool(label)])
                res.ev("hostile_queries" if label else ("unique_names_queries" if unique else "core_queries"))
                # (a) tokenizer
                bad = None
                for (p, s, e) in S:
                    tk = spans.get(p, {}).get(s)
                    if tk is None:
                        bad = ("location-is-not-a-name-token", p, s)
                        break
                    if tk[0] != old and not (role in ("alias", "import-name")):
                        bad = ("location-has-another-spelling", p, s)
                        break
                if bad:
                    viol(bad[0], f"a reported occurrence of {old!r} is not a NAME token with that spelling",
                         where=[bad[1], bad[2]], text=files[bad[1]][max(0, bad[2] - 20):bad[2] + 20])
                    continue
                # (b) contains the query token
                if not S and offset in kwarg_offsets and _kwarg_has_no_parameter(files, text, offset, old, kwarg_line_col(offset)):
                    res.outcome("keyword-collected-by-**kwargs-has-no-binding")
                    continue
                if not S and offset in kwarg_offsets:
                    # an empty answer for a keyword-argument name: rope could not infer the callee (type
                    # inference, not scoping); the binding is not "statically determined" for rope -- counted,
                    # not judged (a keyword that IS resolved goes through every clause)
                    res.outcome("keyword-of-a-callee-rope-cannot-infer")
                    res.ev("keyword_queries_unresolved")
                    continue
                if offset in kwarg_offsets:
                    res.ev("keyword_queries_resolved")
                if not any(p == path and s <= offset < e for p, s, e in S):
                    viol("query-token-missing", "the occurrence used to ask is not in the answer", answer=S[:10])
                    continue
                # (c) invariance
                others = [x for x in S if not (x[0] == path and x[1] <= offset < x[2])]
                rnd.shuffle(others)
                inv_ok = True
                for (p, s, e) in others[:2]:
                    try:
                        S2 = occs(project, p, s)
                    except Exception as ex:
                        viol("invariance:query-raised", f"asking from another member of the set raised {ex!r}"[:200], other=[p, s])
                        inv_ok = False
                        break
                    res.ev("invariance_checked")
                    if S2 != S:
                        miss = [x for x in S if x not in S2][:3]
                        extra = [x for x in S2 if x not in S][:3]
                        viol("not-query-invariant", "two occurrences of one answer give different answers",
                             other=[p, s], only_first=miss, only_second=extra)
                        inv_ok = False
                        break
                if not inv_ok:
                    continue
                # (d) rename agreement
                try:
                    R = rename_tokens(project, files, path, offset, old, fresh)
                    res.ev("rename_agreement_checked")
                    if R != S and not any(x[1] == -1 for x in R):
                        viol("rename-set-differs", "the tokens a rename rewrites are not the reported occurrences",
                             only_occurrences=[x for x in S if x not in R][:4], only_rename=[x for x in R if x not in S][:4])
                        continue
                except exceptions.RopeError:
                    pass
                except Exception as e:
                    viol(f"rename-raised:{core.exc_sig(e)}", f"Rename.get_changes raised {e!r}"[:200])
                    continue
                # (e) two-sided vs reference binder for scope-local bindings
                lx = lex.get(path)
                if lx:
                    me = next((o for o in lx if occ_offset(o) == offset), None)
                    if me and isinstance(me.binding[0], tuple):
                        # (e0) a keyword-argument name is an occurrence of a PARAMETER of the called function only
                        res.ev("kwarg_rule_checked")
                        is_param = any(o.binding == me.binding and o.role == "parameter" for o in lx)
                        owner = _param_owner(text, me, old) if is_param else None
                        wrong = [x for x in S if x[0] == path and x[1] in kwarg_offsets
                                 and not _kwarg_may_belong(text, x, old, owner)]
                        if wrong:
                            viol("keyword-argument-name-of-an-unrelated-call",
                                 "a keyword-argument name at a call is reported as an occurrence of a binding that is not a "
                                 "parameter of the called function", extra=wrong[:4], binding=str(me.binding), owner=owner)
                            continue
                    if me and isinstance(me.binding[0], tuple) and len(me.binding[0]) > 1 and \
                            me.binding[0][-1].startswith(("function", "lambda", "comprehension")):
                        expected = sorted((path, occ_offset(o), occ_offset(o) + len(o.name)) for o in lx if o.binding == me.binding)
                        got = sorted(x for x in S)
                        # keyword-argument names at call sites belong to parameters too; the binder does not list them
                        got_cmp = [x for x in got if x in expected or x[0] != path or spans[path].get(x[1], ("",))[0] == old]
                        res.ev("binder_two_sided_checked")
                        extra = [x for x in got if x not in expected]
                        missing = [x for x in expected if x not in got]
                        # occurrences outside `expected` are legitimate only as keyword-argument names of a parameter
                        extra = [x for x in extra if not _is_kwarg_name(files, x) and not _in_scope_declaration(files, x)]
                        if missing or extra:
                            viol("binder-disagrees:" + ("missing" if missing else "extra"),
                                 "the reported set differs from the reference binder's occurrence set of this scope-local binding",
                                 missing=missing[:4], extra=extra[:4], binding=str(me.binding))
                            continue
                    elif me and isinstance(me.binding[0], tuple) and me.binding[0] == ("module",):
                        # module-level binding: two-sided on the LEXICAL occurrences of this module (names the
                        # binder resolves); attribute tails, other modules and class-body loads (dynamic) are not judged
                        lexical = {(path, occ_offset(o), occ_offset(o) + len(o.name)): o for o in lx}
                        expected = sorted(k for k, o in lexical.items() if o.binding == me.binding)
                        got = sorted(x for x in S if x in lexical and lexical[x].binding[0] != "<class-dynamic>")
                        res.ev("binder_module_level_checked")
                        missing = [x for x in expected if x not in S]
                        extra = [x for x in got if x not in expected]
                        if missing or extra:
                            viol("binder-disagrees-module-level:" + ("missing" if missing else "extra"),
                                 "for a module-level binding the reported occurrences inside the module differ from the reference binder's",
                                 missing=missing[:4], extra=extra[:4], binding=str(me.binding))
                            continue
                res.outcome("exact-on-all-clauses")
        res.sample({"pseed": spec["pseed"], "files": sorted(files)})
    return res


def _kwarg_has_no_parameter(files, text, offset, name, line_col):
    """True when the keyword `name=` at `offset` is passed to a callee of which a definition (found by its
    plain name, through from-import aliases) lacks a parameter `name` and collects **kwargs: the token
    then may have no binding at all and is outside the property."""
    import ast
    callee = None
    for n in ast.walk(ast.parse(text)):
        if isinstance(n, ast.Call):
            for kw in n.keywords:
                if kw.arg == name and (kw.lineno, kw.col_offset) == tuple(line_col):
                    f = n.func
                    callee = f.id if isinstance(f, ast.Name) else f.attr if isinstance(f, ast.Attribute) else None
    if callee is None:
        return False
    # a from-import alias of this module names the original function
    for n in ast.walk(ast.parse(text)):
        if isinstance(n, ast.ImportFrom):
            for a in n.names:
                if a.asname == callee:
                    callee = a.name
    defs = []
    for p, t in files.items():
        if not p.endswith(".py"):
            continue
        try:
            tree = ast.parse(t)
        except SyntaxError:
            continue
        for n in ast.walk(tree):
            if isinstance(n, (ast.FunctionDef, ast.AsyncFunctionDef)) and n.name == callee:
                defs.append(n)
            elif isinstance(n, ast.ClassDef) and n.name == callee:
                defs += [m for m in n.body if isinstance(m, ast.FunctionDef) and m.name in ("__init__", "__call__")]
    if not defs:
        return False
    # several definitions may share the spelling: it is enough that ONE candidate collects the keyword
    return any(d.args.kwarg and name not in [a.arg for a in d.args.posonlyargs + d.args.args + d.args.kwonlyargs]
               for d in defs)


def _param_owner(text, me, name):
    """Name of the function (def) that declares parameter `name` and whose span holds the queried token
    (innermost); '<lambda>' for a lambda."""
    import ast
    best = None
    for n in ast.walk(ast.parse(text)):
        if isinstance(n, (ast.FunctionDef, ast.AsyncFunctionDef, ast.Lambda)):
            a = n.args
            names = [x.arg for x in a.posonlyargs + a.args + a.kwonlyargs] + [x.arg for x in (a.vararg, a.kwarg) if x]
            if name in names and (n.lineno, n.col_offset) <= (me.line, me.col) and (me.line, me.col) <= (n.end_lineno, n.end_col_offset):
                if best is None or (best.lineno, best.col_offset) <= (n.lineno, n.col_offset):
                    best = n
    if best is None:
        return None
    return getattr(best, "name", "<lambda>")


def _kwarg_may_belong(text, loc, name, owner):
    """May the keyword-argument name at `loc` be an occurrence of parameter `name` of function `owner`?
    Syntactic and generous: yes unless the callee is a plain name / attribute whose last component
    differs from `owner` (constructors and callable instances go through __init__ / __call__)."""
    import ast
    if owner is None:
        return False            # the queried binding is not a parameter at all
    if owner in ("__init__", "__call__", "__new__", "<lambda>"):
        return True
    line = text.count("\n", 0, loc[1]) + 1
    col = len(text[text.rfind("\n", 0, loc[1]) + 1:loc[1]].encode("utf-8"))
    for n in ast.walk(ast.parse(text)):
        if isinstance(n, ast.Call):
            for kw in n.keywords:
                if kw.arg == name and (kw.lineno, kw.col_offset) == (line, col):
                    f = n.func
                    callee = f.id if isinstance(f, ast.Name) else f.attr if isinstance(f, ast.Attribute) else None
                    return callee is None or callee == owner
    return True


def _in_scope_declaration(files, loc):
    p, s, e = loc
    t = files[p]
    line = t[t.rfind("\n", 0, s) + 1:s].strip()
    return line.startswith(("global ", "nonlocal ")) or line in ("global", "nonlocal")


def _is_kwarg_name(files, loc):
    p, s, e = loc
    t = files[p]
    j = e
    while j < len(t) and t[j] in " \t":
        j += 1
    i = s - 1
    while i >= 0 and t[i] in " \t":
        i -= 1
    return j < len(t) and t[j] == "=" and t[j:j + 2] != "==" and i >= 0 and t[i] in "(,"


if __name__ == "__main__":
    core.main(sys.modules[__name__])
