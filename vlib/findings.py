"""Known-findings registry.  Read-only at run time: never written by a check.

known_findings.json = {"fixed": ["fixed: property=<id> <commit> <what failed>", ...],
                       "findings": [{"property","key","what","witness"}, ...]}
`key` is the mechanism signature produced by the check's classifier; matching is
exact string equality.  `fixed` entries suppress nothing.
"""
import json
from pathlib import Path

_PATH = Path(__file__).resolve().parents[1] / "known_findings.json"
_cache = None


def _load():
    global _cache
    if _cache is None:
        try:
            data = json.loads(_PATH.read_text())
        except FileNotFoundError:
            data = {"fixed": [], "findings": []}
        _cache = {}
        for f in data.get("findings", []):
            _cache[(f["property"], f["key"])] = f
    return _cache


def lookup(prop, key):
    return _load().get((prop, key))
