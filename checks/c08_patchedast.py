"""C08 - the source-annotated syntax tree is lossless and its regions are exact.

Differential check of rope.refactor.patchedast against the interpreter's own parser and
tokenizer on real code, layout-fuzzed variants of it and random programs covering every
node class of the running interpreter's `ast` module.

Per source text (a syntactically valid module):
  (a) patchedast.get_patched_ast(src, True) returns (any exception, RopeError included, refutes);
  (b) patchedast.write_ast(tree) == src;
  (c) every annotated node's region lies inside the region of its nearest annotated ancestor;
  (d) for every node the interpreter gives a position to: the node has a region, the interpreter's
      span (UTF-8 byte columns converted to character offsets) lies inside it, what is left over is
      made of parenthesis / comment / whitespace tokens only (decorators belong to a definition), and
      the region text parsed in the node's syntactic category is structurally equal to the node.
      Position-less nodes that rope annotates (arguments, comprehension, match_case) must contain
      the spans of their children and re-parse in their category as well.
"""
import ast
import bisect
import io
import keyword
import os
import re
import sys
import token as tokmod
import tokenize
import warnings

from vlib import core

ID = "C08"
READY = True
LEVEL = "exploration"
RULE = ("one evaluation = one oracle judgement (clause a or b per source text; clause c and d per annotated "
        "node). A node is non-trivial when its region text spans several lines, contains a comment or a "
        "backslash continuation, or is wider than the interpreter's span (parentheses attributed to it); "
        "distinct = (node class, parent class, sorted layout flags) measured with a set over all sources")
ASSUMPTIONS = ["source texts are modules the running interpreter (3.12) parses; corpus files it cannot compile() "
               "are skipped", "f-string literal chunks and format-spec JoinedStr nodes are not constructs that "
               "can be parsed on their own: no region is demanded for them",
               "a generator expression that is the sole call argument shares the call's parentheses in the "
               "interpreter's span; those two characters are not demanded from the region",
               "the interpreter's span of a compound statement takes in the ';' ending its last simple statement; "
               "that separator is not demanded from the region"]
BUDGET = {"quick": (4000, 240), "thorough": (8300, 900)}
EXHAUSTIVE = {}
REQUIRE = {"sources_checked": 300, "nodes_span_checked": 200000, "nodes_reparsed": 200000,
           "containment_pairs": 200000, "variant_sources": 100, "generated_sources": 100,
           "corpus_sources": 100, "witness_sources": 50, "b_lossless": 300}
TECHNIQUE = ("differential testing of the region annotator against the interpreter's parser positions, the "
             "tokenizer (what the leftover of a region is made of) and re-parsing of every region text; real-code "
             "corpus + validity-preserving layout mutations + random programs covering every ast node class")
LEVEL_TEXT = ("Every source text of the workload is annotated by the real code; losslessness is string equality, "
              "containment is checked for every parent/child pair, exactness for every node against the "
              "interpreter's span and by re-parsing the region text. Held = no judgement failed on the sources run; "
              "sampled over the space of programs and layouts.")
LEVEL_NOTE = ("the oracle is the running interpreter: only 3.12 syntax; f-string literal chunks and format specs are "
              "exempt from the region demand; when the annotator raises, the source is cut into its top-level "
              "statements / definition bodies (valid modules themselves) so that the failure is reported on the "
              "smallest failing chunk and the other chunks are still judged; a region mismatch is reported at the "
              "lowest node it can be blamed on")
DESIGN_REF = "DESIGN.md section 5, C08"
CASE_TIMEOUT = 300

# --------------------------------------------------------------------------- corpus / fuzz providers
from vlib import astgen, corpus, layoutfuzz  # noqa: E402  (shared helpers; corpus roots do not follow ROPE_ROOT)


# --------------------------------------------------------------------------- source index
_NL = re.compile(r"\r\n|\r|\n")


class Src:
    def __init__(self, text):
        self.text = text
        self.starts = [0] + [m.end() for m in _NL.finditer(text)]
        self.ascii = text.isascii()
        self._tok = None

    def off(self, lineno, col):
        ls = self.starts[lineno - 1]
        if self.ascii or col == 0:
            return ls + col
        le = self.starts[lineno] if lineno < len(self.starts) else len(self.text)
        line = self.text[ls:le]
        if line.isascii():
            return ls + col
        return ls + len(line.encode("utf-8")[:col].decode("utf-8", "replace"))

    def span(self, node):
        return self.off(node.lineno, node.col_offset), self.off(node.end_lineno, node.end_col_offset)

    # tokens: parallel lists, sorted by start offset (zero-width tokens dropped)
    def tokens(self):
        if self._tok is None:
            ts, te, tt, tstr = [], [], [], []
            comments, conts = [], []
            try:
                for t in tokenize.generate_tokens(io.StringIO(self.text).readline):
                    s = self.starts[t.start[0] - 1] + t.start[1] if t.start[0] <= len(self.starts) else len(self.text)
                    e = self.starts[t.end[0] - 1] + t.end[1] if t.end[0] <= len(self.starts) else len(self.text)
                    if e <= s:
                        continue
                    ts.append(s), te.append(e), tt.append(t.type), tstr.append(t.string)
                    if t.type == tokmod.COMMENT:
                        comments.append(s)
            except (tokenize.TokenError, SyntaxError, IndentationError):
                self._tok = False
                return False
            for m in re.finditer(r"\\\r?\n", self.text):
                conts.append(m.start())
            self._tok = (ts, te, tt, tstr, comments, conts)
        return self._tok

    def toks_in(self, a, b):
        """indices of tokens overlapping [a, b)"""
        ts, te = self._tok[0], self._tok[1]
        i = bisect.bisect_right(te, a)
        out = []
        while i < len(ts) and ts[i] < b:
            out.append(i)
            i += 1
        return out

    def tok_feature(self, i):
        tt, s = self._tok[2][i], self._tok[3][i]
        if tt == tokmod.OP:
            return s
        if tt == tokmod.NAME:
            return s if keyword.iskeyword(s) or s in ("match", "case", "type", "_") else "NAME"
        return tokmod.tok_name[tt]

    def count_in(self, arr, a, b):
        return bisect.bisect_left(arr, b) - bisect.bisect_left(arr, a)


# --------------------------------------------------------------------------- structural comparison
_CTX = (ast.Load, ast.Store, ast.Del)


def diff(a, b, owner="", field=""):
    """None if equal (expression contexts ignored), else a short mechanism description."""
    if isinstance(a, ast.AST):
        if a.__class__ is not b.__class__:
            if isinstance(a, _CTX) and isinstance(b, _CTX):
                return None
            bn = b.__class__.__name__ if isinstance(b, ast.AST) else type(b).__name__
            return f"{owner}.{field}:{a.__class__.__name__}!={bn}"
        cn = a.__class__.__name__
        for f in a._fields:
            d = diff(getattr(a, f, None), getattr(b, f, None), cn, f)
            if d:
                return d
        return None
    if isinstance(a, list):
        if not isinstance(b, list) or len(a) != len(b):
            return f"{owner}.{field}#len"
        for x, y in zip(a, b):
            d = diff(x, y, owner, field)
            if d:
                return d
        return None
    if isinstance(b, (ast.AST, list)) or type(a) is not type(b) or a != b:
        if isinstance(a, float) and isinstance(b, float) and a != a and b != b:
            return None
        return f"{owner}.{field}#value"
    return None


# --------------------------------------------------------------------------- re-parsing in category
class NoCategory(Exception):
    pass


def _first(tree, *path):
    n = tree
    for p in path:
        n = getattr(n, p) if isinstance(p, str) else n[p]
    return n


def reparse(node, parent, field, text, prefix, fctx):
    """Parse `text` as the syntactic category of `node`; returns the node that should equal it."""
    P = ast.parse
    if isinstance(node, ast.stmt):
        if isinstance(node, ast.If) and text.startswith("elif"):
            if prefix:
                code = "if 1:\n" + prefix + "if _:\n" + prefix + " pass\n" + prefix + text + "\n"
                return _first(P(code), "body", 0, "body", 0, "orelse", 0)
            return _first(P("if _:\n pass\n" + text + "\n"), "body", 0, "orelse", 0)
        if prefix:
            return _first(P("if 1:\n" + prefix + text + "\n"), "body", 0, "body", 0)
        return _first(P(text + "\n"), "body", 0)
    if isinstance(node, ast.FormattedValue):
        if fctx is None:
            raise NoCategory("fstring-context")
        vals = _first(P(fctx[0] + text + fctx[1] + "\n"), "body", 0, "value").values
        fv = [v for v in vals if isinstance(v, ast.FormattedValue)]
        return fv[0] if fv else vals
    if isinstance(node, ast.Starred):
        return _first(P("[" + text + "\n]"), "body", 0, "value", "elts", 0)
    if isinstance(node, ast.expr):
        if isinstance(node, ast.Slice) or (isinstance(parent, ast.Subscript) and field == "slice" and isinstance(node, ast.Tuple)
                                           and any(isinstance(x, (ast.Slice, ast.Starred)) for x in node.elts)):
            return _first(P("_[" + text + "\n]"), "body", 0, "value", "slice")
        return P("(" + text + "\n)", mode="eval").body
    if isinstance(node, ast.keyword):
        if isinstance(parent, ast.ClassDef):
            return _first(P("class _(" + text + "\n): pass"), "body", 0, "keywords", 0)
        return _first(P("_(" + text + "\n)"), "body", 0, "value", "keywords", 0)
    if isinstance(node, ast.arg):
        return _first(P("def _(" + text + "\n): pass"), "body", 0, "args", "args", 0)
    if isinstance(node, ast.arguments):
        return _first(P("def _(" + text + "\n): pass"), "body", 0, "args")
    if isinstance(node, ast.alias):
        if isinstance(parent, ast.ImportFrom):
            if text.strip() == "*":
                return _first(P("from _ import *"), "body", 0, "names", 0)
            return _first(P("from _ import (" + text + "\n)"), "body", 0, "names", 0)
        return _first(P("import " + text + "\n"), "body", 0, "names", 0)
    if isinstance(node, ast.comprehension):
        return _first(P("[_ " + text + "\n]"), "body", 0, "value", "generators", 0)
    if isinstance(node, ast.ExceptHandler):
        if prefix:
            return _first(P("if 1:\n" + prefix + "try:\n" + prefix + " pass\n" + prefix + text + "\n"),
                          "body", 0, "body", 0, "handlers", 0)
        return _first(P("try:\n pass\n" + text + "\n"), "body", 0, "handlers", 0)
    if isinstance(node, ast.match_case):
        pre = prefix or " "
        return _first(P("match _:\n" + pre + text + "\n"), "body", 0, "cases", 0)
    if isinstance(node, ast.pattern):
        if isinstance(node, ast.MatchStar):
            return _first(P("match _:\n case [" + text + "\n]: pass\n"), "body", 0, "cases", 0, "pattern", "patterns", 0)
        return _first(P("match _:\n case (" + text + "\n): pass\n"), "body", 0, "cases", 0, "pattern")
    if isinstance(node, ast.type_param):
        return _first(P("type _[" + text + "\n] = 0\n"), "body", 0, "type_params", 0)
    raise NoCategory(node.__class__.__name__)


# --------------------------------------------------------------------------- feature derivation
def const_kind(node):
    v = node.value
    if v is None or v is True or v is False:
        return "Constant.name"
    if v is Ellipsis:
        return "Constant.ellipsis"
    if isinstance(v, (str, bytes)):
        return "Constant.string"
    return "Constant.number"


def cls_name(node):
    return const_kind(node) if isinstance(node, ast.Constant) else node.__class__.__name__


def _tok_class(s):
    if not isinstance(s, str):
        return type(s).__name__
    if keyword.iskeyword(s):
        return s
    if s.isidentifier():
        return "NAME"
    if len(s) <= 3 and not any(c.isalnum() or c.isspace() for c in s):
        return s
    return "TEXT"


def crash_site(e):
    """(node class being handled, class of the token searched for) from the traceback of a rope exception."""
    node_cls, tok = "?", None
    tb = e.__traceback__
    while tb is not None:
        co = tb.tb_frame.f_code
        if co.co_filename.endswith("patchedast.py"):
            loc = tb.tb_frame.f_locals
            if co.co_name == "_handle" and isinstance(loc.get("node"), ast.AST):
                node_cls = cls_name(loc["node"])
                tok = None
                ch = loc.get("child")
                if ch is not None and not isinstance(ch, ast.AST):
                    tok = _tok_class(ch) if isinstance(ch, str) else "PATTERN"
            elif co.co_name in ("consume", "consume_joined_string") and "token" in loc:
                tok = _tok_class(loc["token"])
        tb = tb.tb_next
    return node_cls, (tok if tok is not None else "-")


class SearchLog:
    """Monitor on rope's own token search (_Source.consume / _consume_pattern / consume_joined_string): records
    (what was searched, cursor before, match start, match end).  Used only to name the mechanism behind a
    clause (a) failure; never a verdict by itself."""

    def __init__(self, patchedast):
        self.cls = patchedast._Source
        self.log = []

    def __enter__(self):
        log = self.log
        self.saved = {}
        for name in ("consume", "_consume_pattern", "consume_joined_string"):
            orig = self.cls.__dict__[name]
            self.saved[name] = orig

            def wrapper(src_self, what, *a, __orig=orig, __name=name, **kw):
                before = src_self.offset
                res = __orig(src_self, what, *a, **kw)
                f = sys._getframe(1)
                while f is not None and f.f_code.co_name in ("consume_string", "consume_number", "consume_empty_tuple",
                                                             "consume_with_or_comma_context_manager", "wrapper"):
                    f = f.f_back
                first = f.f_locals.get("first_token", True) if f is not None and f.f_code.co_name == "_handle" else True
                log.append((__name, what if isinstance(what, str) else None, before, res[0], res[1], first))
                return res
            setattr(self.cls, name, wrapper)
        return self

    def __exit__(self, *exc):
        for name, orig in self.saved.items():
            setattr(self.cls, name, orig)
        return False


def first_bad_jump(S, log):
    """Mechanism of the first token match of rope that is not the match of a real token in reading order:
    misaligned-match|<NAME|STRING|OTHER> (the match starts or ends inside a token of that kind), entered-bracket
    (a non-first template token was found inside a bracket opened after the cursor, i.e. in text rope never
    visited), hash-in-string / crossed-line (the match lies on a later logical line although it is not the first
    token there; with a '#' inside a string literal in between, which rope takes for a comment).  None if every
    match looks like a real token."""
    ts, te, tt, tstr = S._tok[:4]
    ends = None
    for name, what, before, m0, m1, first in log:
        if m1 <= m0:
            continue
        i = bisect.bisect_right(ts, m0) - 1
        if i < 0 or not (ts[i] <= m0 < te[i]):
            continue
        if ts[i] != m0:
            if what == "." and tstr[i] == "...":
                continue
            if what == "=" and tt[i] == tokmod.OP and tstr[i].endswith("=") and m1 == te[i] and len(tstr[i]) > 1 \
                    and tstr[i] not in ("==", "!=", "<=", ">=", ":="):
                continue  # second half of an augmented-assignment operator, consumed in two steps by design
            return "misaligned-match|" + _kind3(tt[i])
        if ends is None:
            ends = set(te)
        if m1 not in ends:
            j = bisect.bisect_right(ts, m1 - 1) - 1
            if what == "." and tstr[j] == "...":
                continue
            if what is not None and tt[j] == tokmod.OP and tstr[j] == what + "=":
                continue  # first half of an augmented-assignment operator
            return "misaligned-match|" + _kind3(tt[j])
        # aligned: did the search leave the logical line, or enter a bracket opened after the cursor?
        k = bisect.bisect_left(ts, before)
        crossed = False
        hash_in_string = False
        balance = 0
        for q in range(k, i):
            if tt[q] == tokmod.NEWLINE:
                crossed = True
                break
            if tt[q] in (tokmod.STRING, tokmod.FSTRING_MIDDLE) and "#" in tstr[q]:
                hash_in_string = True
            if tt[q] == tokmod.OP:
                if tstr[q] in "([{":
                    balance += 1
                elif tstr[q] in ")]}":
                    balance = max(0, balance - 1)
        if not crossed and not first and what is not None and balance > 0 and name == "consume":
            return "entered-bracket"
        if crossed:
            p = i - 1
            while p >= 0 and tt[p] in (tokmod.NL, tokmod.COMMENT, tokmod.INDENT, tokmod.DEDENT):
                p -= 1
            first_on_line = p < 0 or tt[p] == tokmod.NEWLINE
            if not first_on_line:
                return "hash-in-string" if hash_in_string else "crossed-line"
    return None


def _kind3(toktype):
    if toktype == tokmod.NAME:
        return "NAME"
    if toktype in (tokmod.STRING, tokmod.FSTRING_START, tokmod.FSTRING_MIDDLE, tokmod.FSTRING_END):
        return "STRING"
    return "OTHER"


# --------------------------------------------------------------------------- the oracle
HAS_POS = (ast.stmt, ast.expr, ast.excepthandler, ast.arg, ast.keyword, ast.alias, ast.pattern, ast.type_param)
_INSIGNIFICANT = {tokmod.COMMENT, tokmod.NL, tokmod.NEWLINE, tokmod.INDENT, tokmod.DEDENT}
_DEFS = (ast.FunctionDef, ast.AsyncFunctionDef, ast.ClassDef)


def _category(node):
    for c in (ast.stmt, ast.expr, ast.excepthandler, ast.pattern, ast.type_param):
        if isinstance(node, c):
            return c.__name__
    return node.__class__.__name__


def _fstring_ranges(S):
    """[(start, end, opener, closer)] of every f-string token group, for re-parsing FormattedValue text."""
    ts, te, tt, tstr = S._tok[:4]
    out, stack = [], []
    for i, t in enumerate(tt):
        if t == tokmod.FSTRING_START:
            stack.append(i)
        elif t == tokmod.FSTRING_END and stack:
            j = stack.pop()
            out.append((ts[j], te[i], tstr[j], tstr[i]))
    out.sort()
    return out


def number_feature(tok):
    """Spelling class of a numeric literal the region cuts through."""
    t = tok
    if "_" in t:
        return "underscore"
    if len(t) > 1 and t[0] == "0" and t[1] in "bBoOxX":
        return "0" + t[1]
    if t[-1] in "jJ":
        return "imaginary"
    if "e" in t.lower():
        return "exponent"
    return "other"


class Judge:
    """Clauses (c) and (d) for one annotated tree."""

    def __init__(self, S, report, counters):
        self.S = S
        self.src = S.text
        self.report = report          # report(key, what, **detail)
        self.n = counters
        self.franges = _fstring_ranges(S)
        self.edges = set()            # (relation, region boundary, span boundary) already reported deeper
        self.span_bad = {}
        self.zones = []               # (lo, hi) text already blamed on a lower node

    # ---- the interpreter's span of a node, adjusted for the two documented conventions
    def span_of(self, node, parent):
        S, src = self.S, self.src
        ts, te, tt, tstr = S._tok[:4]
        if isinstance(node, HAS_POS) and hasattr(node, "end_lineno"):
            s0, s1 = S.span(node)
            if isinstance(node, _DEFS) and node.decorator_list:
                d0 = S.span(node.decorator_list[0])[0]
                j = bisect.bisect_right(ts, d0 - 1) - 1 if d0 > 0 else -1
                while j >= 0 and not (tt[j] == tokmod.OP and tstr[j] == "@"):
                    if tt[j] not in (tokmod.NL, tokmod.COMMENT) and tstr[j] != "(":
                        j = -1
                        break
                    j -= 1
                if j >= 0:
                    s0 = ts[j]
            while isinstance(node, (ast.stmt, ast.excepthandler)) and s1 > s0 and src[s1 - 1:s1] == ";":
                # interpreter convention: a compound statement's span takes in the ';' that ends its last
                # simple statement; the separator is not demanded from the region
                k = bisect.bisect_left(te, s1)
                if 0 < k < len(te) and te[k] == s1 and tt[k] == tokmod.OP and tstr[k] == ";" and te[k - 1] > s0:
                    s1 = te[k - 1]
                    self.n["semicolon_trimmed_spans"] += 1
                else:
                    break
            return s0, s1, True
        spans = [S.span(c) for c in ast.walk(node) if c is not node and hasattr(c, "end_lineno")]
        if not spans:
            return None
        s0, s1 = min(s[0] for s in spans), max(s[1] for s in spans)
        while s1 > s0 and src[s1 - 1:s1] == ";":
            k = bisect.bisect_left(te, s1)
            if 0 < k < len(te) and te[k] == s1 and tstr[k] == ";" and te[k - 1] > s0:
                s1 = te[k - 1]
            else:
                break
        return s0, s1, False

    def span_problems(self, node, parent, region):
        """[(relation, feature, a, b)] - how the region disagrees with the interpreter's span."""
        S, src = self.S, self.src
        ts, te, tt, tstr = S._tok[:4]
        sp = self.span_of(node, parent)
        if sp is None:
            return [], None
        s0, s1, exact = sp
        r0, r1 = region
        if exact and isinstance(node, ast.GeneratorExp) and isinstance(parent, ast.Call) and hasattr(parent, "end_lineno") \
                and s1 == S.span(parent)[1] and src[s0:s0 + 1] == "(" and not (r0 <= s0 and s1 <= r1):
            inner = [i for i in S.toks_in(s0 + 1, s1 - 1) if tt[i] not in _INSIGNIFICANT]
            if inner:
                s0, s1 = ts[inner[0]], te[inner[-1]]
                self.n["genexp_shared_parens"] += 1
        out = []
        if s0 != s1 and (r1 <= s0 or r0 >= s1):
            return [("disjoint", "before" if r1 <= s0 else "after", r0, s0)], (s0, s1)

        def mid(i):
            if tt[i] == tokmod.NUMBER:
                return "mid-NUMBER:" + number_feature(tstr[i])
            return "mid-" + _kind3(tt[i])

        def whole(i):
            return "STRING" if _kind3(tt[i]) == "STRING" else S.tok_feature(i)
        for rel, a, b in (("start-late", s0, r0), ("end-early", r1, s1)):
            if a < b:  # part of the construct is missing from the region
                idx = [i for i in S.toks_in(a, b) if tt[i] not in _INSIGNIFICANT]
                if not idx:
                    continue
                i = idx[0]
                feat = whole(i)
                if rel == "end-early" and ts[i] < a:
                    feat = mid(i)
                elif rel == "start-late" and te[idx[-1]] > b:
                    feat = mid(idx[-1])
                out.append((rel, feat, a, b))
        if exact:
            for rel, a, b, paren in (("extra-left", r0, s0, "("), ("extra-right", s1, r1, ")")):
                if a < b:  # region wider than the construct: only parens, comments, whitespace allowed
                    idx = S.toks_in(a, b)
                    bad = [i for i in idx if not (tt[i] in _INSIGNIFICANT or (tt[i] == tokmod.OP and tstr[i] == paren))
                           or ts[i] < a or te[i] > b]
                    if bad:
                        # feature = the token rope took for the boundary of the construct
                        i = idx[0] if rel == "extra-left" else idx[-1]
                        feat = tstr[i] if (ts[i] >= a and te[i] <= b and tstr[i] in "()") else "other"
                        out.append((rel, feat, a, b))
        return out, (s0, s1)

    def explained(self, a, b, mark):
        """some descendant (zones recorded since the node was entered) already carries the blame for [a, b)"""
        zs = self.zones
        return any(zs[i][0] <= b + 1 and a - 1 <= zs[i][1] for i in range(mark, len(zs)))

    def fctx_for(self, a, b):
        best = None
        for (s, e, o, c) in self.franges:
            if s <= a and b <= e and (best is None or s >= best[0]):
                best = (s, e, o, c)
        return (best[2], best[3]) if best else None

    def walk(self, tree):
        S, src, n = self.S, self.src, self.n
        shapes, types_seen = set(), set()
        comments, conts = S._tok[4], S._tok[5]
        nevals = 0
        stack = [(tree, None, None, None, False, False)]
        bad_below = {}
        marks = {}
        while stack:
            node, parent, field, anc, infs, done = stack.pop()
            region = getattr(node, "region", None)
            if not done:
                types_seen.add(node.__class__.__name__)
                marks[id(node)] = len(self.zones)
                stack.append((node, parent, field, anc, infs, True))
                nanc = node if region is not None and isinstance(region[0], int) and isinstance(region[1], int) else anc
                ninfs = infs or isinstance(node, ast.JoinedStr)
                for f, val in ast.iter_fields(node):
                    if isinstance(val, ast.AST):
                        stack.append((val, node, f, nanc, ninfs, False))
                    elif isinstance(val, list):
                        for x in reversed(val):
                            if isinstance(x, ast.AST):
                                stack.append((x, node, f, nanc, ninfs, False))
                continue
            # ---- post-order visit
            below = any(bad_below.get(id(c)) for c in ast.iter_child_nodes(node))
            cname = cls_name(node) + ("@fstring" if infs else "")
            has_pos = isinstance(node, HAS_POS) and hasattr(node, "end_lineno")
            pname = parent.__class__.__name__ if parent is not None else "-"
            if region is None:
                if has_pos and (getattr(parent, "region", None) is not None or anc is None):
                    # topmost un-annotated node below an annotated one
                    if isinstance(parent, ast.JoinedStr) or (isinstance(parent, ast.FormattedValue) and field == "format_spec"):
                        n["noregion_exempt"] += 1
                    else:
                        nevals += 1
                        s0, s1 = S.span(node)
                        self.report(f"d|{_category(node)}|noregion|{pname}.{field}",
                                    f"{_category(node)} node in {pname}.{field} has a position in the interpreter's tree "
                                    f"but was given no region", text=src[s0:s1][:120], context=_ctx(src, s0, s1))
                        n["nodes_without_region"] += 1
                        self.zones.append((s0, s1))
                        below = True
                bad_below[id(node)] = below
                continue
            r0, r1 = region
            if not (isinstance(r0, int) and isinstance(r1, int)):
                nevals += 1
                self.report("d|region-not-offsets", f"region of {cname} is {region!r}, not a pair of "
                            f"offsets", context=_ctx(src, *S.span(node)) if has_pos else None)
                node.region = None  # so that descendants are judged against the next annotated ancestor
                bad_below[id(node)] = True
                continue
            if anc is not None and getattr(anc, "region", None) is not None:  # (c)
                nevals += 1
                n["containment_pairs"] += 1
                a0, a1 = anc.region
                if not (a0 <= r0 <= r1 <= a1):
                    self.report(f"c|{'before' if r0 < a0 else ''}{'after' if r1 > a1 else ''}{'inverted' if r0 > r1 else ''}",
                                f"region of {cname} is not inside the region of its ancestor {cls_name(anc)}",
                                region=[r0, r1], ancestor=[a0, a1], text=src[r0:r1][:120], context=_ctx(src, a0, a1))
            if isinstance(node, ast.Module):
                bad_below[id(node)] = below
                continue
            # (d) span
            nevals += 1
            n["nodes_span_checked"] += 1
            probs, sp = self.span_problems(node, parent, region)
            span_bad = False
            for rel, feat, a, b in probs:
                span_bad = True
                if (rel, a, b) in self.edges:
                    n["span_mismatch_propagated"] += 1
                    continue
                self.edges.add((rel, a, b))
                # the boundary of this region is the boundary of a child's region that is itself wrong:
                # a consequence, reported once at the child
                side = {"start-late": 0, "extra-left": 0, "end-early": 1, "extra-right": 1}.get(rel)
                if side is not None and any(self.span_bad.get(id(c)) and c.region[side] == region[side]
                                            for c in ast.iter_child_nodes(node) if getattr(c, "region", None)):
                    n["span_mismatch_propagated"] += 1
                    continue
                if rel != "disjoint" and self.explained(a, b, marks.get(id(node), 0)):  # the text in question is already blamed on a lower node
                    n["span_mismatch_propagated"] += 1
                    continue
                what = {"disjoint": "does not overlap the interpreter's span",
                        "start-late": f"leaves out the beginning of the construct (first missing token {feat!r})",
                        "end-early": f"leaves out the end of the construct (first missing token {feat!r})",
                        "extra-left": f"starts with text that is not part of the construct (region starts at {feat!r})",
                        "extra-right": f"ends with text that is not part of the construct (region ends with {feat!r})"}[rel]
                if rel in ("start-late", "end-early"):
                    # a parenthesis left out is the paren attribution shared by all node classes: keyed by category
                    key = f"d|{_category(node) if feat in ('(', ')') else cls_name(node)}|{rel}|{feat}"
                elif infs:  # inside an f-string: rope matches expression text against the literal parts as well
                    key = f"d|{rel}@fstring"
                else:
                    key = f"d|{rel}|{feat}"
                self.report(key, f"region of {cname} {what}", region_text=src[r0:r1][:160],
                            span_text=src[sp[0]:sp[1]][:160], context=_ctx(src, min(r0, sp[0]), max(r1, sp[1])))
            if span_bad:
                self.span_bad[id(node)] = True
                self.zones.append((min(r0, sp[0]), max(r1, sp[1])))
            # layout shape
            flags = []
            if S.count_in(S.starts, r0 + 1, r1 + 1):
                flags.append("multiline")
            if S.count_in(comments, r0, r1):
                flags.append("comment")
            if S.count_in(conts, r0, r1):
                flags.append("continuation")
            if has_pos and sp and (r0 < sp[0] or r1 > sp[1]) and not span_bad:
                flags.append("wider")
            if flags:
                n["nodes_nontrivial"] += 1
                shapes.add(f"{cname}/{pname}/{'+'.join(flags)}")
            # (d) re-parse
            if span_bad:
                below = True
            else:
                ls = S.starts[bisect.bisect_right(S.starts, r0) - 1]
                prefix = src[ls:r0]
                prefix = prefix.rpartition("\x0c")[2]  # a form feed resets the indentation column
                prefix = prefix if prefix and not prefix.strip(" \t") else ""
                text = src[r0:r1]
                fctx = self.fctx_for(r0, r1) if isinstance(node, ast.FormattedValue) else None
                d = None
                try:
                    other = reparse(node, parent, field, text, prefix, fctx)
                    d = diff(node, other, "", cls_name(node))
                    nevals += 1
                    n["nodes_reparsed"] += 1
                except NoCategory:
                    n["nodes_no_category"] += 1
                except (RecursionError, MemoryError):
                    n["nodes_no_category"] += 1
                except (SyntaxError, ValueError, IndexError, AttributeError) as e:
                    d = "SyntaxError" if isinstance(e, SyntaxError) else type(e).__name__
                    nevals += 1
                    n["nodes_reparsed"] += 1
                if d:
                    if below:
                        n["reparse_propagated"] += 1
                    else:
                        self.report(f"d|{cls_name(node)}|reparse|{d.lstrip('.')}",
                                    f"region text of {cname} does not re-parse to the same node ({d.lstrip('.')})",
                                    region_text=text[:200], context=_ctx(src, r0, r1))
                    below = True
            bad_below[id(node)] = below
        return nevals, shapes, types_seen


_SEARCH_FAILED = ("MismatchedTokenError", "AttributeError", "ValueError")


def split_chunks(src):
    """Smaller valid modules cut from `src`: its top-level statements, or - for a single definition - the header
    plus one body statement each.  None if `src` cannot be split into >= 2 compilable chunks."""
    try:
        tree = ast.parse(src)
    except (SyntaxError, ValueError, RecursionError):
        return None
    lines = src.split("\n")

    def first_line(st):
        return min([st.lineno] + [d.lineno for d in getattr(st, "decorator_list", [])])

    def groups(body):
        out = []
        for st in body:
            a, b = first_line(st), st.end_lineno
            if out and a <= out[-1][1]:
                out[-1][1] = max(out[-1][1], b)
            else:
                out.append([a, b])
        return out

    gs = groups(tree.body)
    if len(gs) >= 2:
        chunks = ["\n".join(lines[a - 1:b]) + "\n" for a, b in gs]
    elif len(tree.body) == 1 and isinstance(tree.body[0], _DEFS) and len(tree.body[0].body) >= 2:
        d = tree.body[0]
        h0, h1 = first_line(d), first_line(d.body[0])
        if h1 <= d.lineno:
            return None
        header = "\n".join(lines[h0 - 1:h1 - 1]) + "\n"
        gs = groups(d.body)
        if len(gs) < 2:
            return None
        chunks = [header + "\n".join(lines[a - 1:b]) + "\n" for a, b in gs]
    else:
        return None
    if not all(corpus.compiles(c) for c in chunks):
        return None
    return chunks


def check_source(src, res, origin, vio_limit=40):
    """Runs clauses a-d on one source text.  Returns the number of violations observed."""
    return _check(src, res, origin, vio_limit, 0)[0]


def _check(src, res, origin, vio_limit, level):
    import collections
    from rope.base import ast as rope_ast
    from rope.refactor import patchedast
    nvio = [0]
    seen_keys = set()

    def report(key, what, **detail):
        nvio[0] += 1
        if isinstance(origin, dict) and str(origin.get("witness", "")).startswith("paren-family"):
            # controlled, hazard-free inputs: every symptom there is its own finding
            key = key + "|in:paren-family"
        if key in seen_keys or len(seen_keys) >= vio_limit:
            return
        seen_keys.add(key)
        res.violation(key, what, origin=origin, **detail)

    res.ev("sources_checked")
    counters = collections.Counter()
    S = Src(src)
    if S.tokens() is False:
        res.ev("untokenizable_sources")
        return 0, False
    # ---- clause (a)
    res.evals()
    with warnings.catch_warnings(record=True) as wlist:
        warnings.simplefilter("always")
        try:
            tree = patchedast.get_patched_ast(src, True)
        except RecursionError:
            res.ev("recursion_limit_sources")
            return 0, False
        except Exception as e:  # any exception on a valid module refutes (a)
            res.ev("a_raised")
            # isolate: the failure is reported on the smallest chunk (a valid module itself) that still fails,
            # and the chunks that do not fail get their clauses (b)-(d) judged instead of being hidden
            chunks = split_chunks(src) if level < 3 else None
            if chunks:
                total, any_crash = 0, False
                for ch in chunks:
                    o = dict(origin, isolated_chunk=level + 1)
                    if len(ch) <= 3000:
                        o["source"] = ch
                    n, crashed = _check(ch, res, o, vio_limit, level + 1)
                    res.ev("isolated_chunks")
                    total += n
                    any_crash = any_crash or crashed
                if any_crash:
                    return total + 1, True
                nvio[0] += total
            cause = None
            try:  # diagnosis only: the same call in two steps with a monitor on rope's token search
                with SearchLog(patchedast) as probe:
                    try:
                        patchedast.patch_ast(rope_ast.parse(src), src, True)
                    except Exception:
                        pass
                cause = first_bad_jump(S, probe.log)
            except Exception:
                cause = None
            site = crash_site(e)
            exc = type(e).__name__
            key = "a|" + ("" if exc in _SEARCH_FAILED else exc + "|") + (cause or "direct")
            if "witness" in origin:  # fixed input: the construct family it exercises is part of the signature
                key += "|in:" + origin["witness"]
            report(key, f"get_patched_ast raised {core.exc_sig(e)}: {str(e)[:120]} while handling {site[0]} "
                   f"(searching {site[1]!r}); first suspicious token match: {cause}", excerpt=_excerpt_exc(src, e),
                   source=src if len(src) <= 3000 else None)
            res.ev("a_reported")
            return nvio[0], True
    for w in wlist:
        if "please report" in str(w.message):
            res.ev("rope_warnings")
    res.ev("a_ok")

    # ---- clause (b)
    res.evals()
    try:
        back = patchedast.write_ast(tree)
    except Exception as e:
        report(f"b|{type(e).__name__}", f"write_ast raised {type(e).__name__}: {str(e)[:120]}")
        back = None
    if back is not None and back != src:
        k = next((i for i, (x, y) in enumerate(zip(back, src)) if x != y), min(len(back), len(src)))
        cat = _lossy_node(tree, src, patchedast)
        how = "longer" if len(back) > len(src) else "shorter" if len(back) < len(src) else "same-length"
        report(f"b|{how}", f"write_ast(patched tree) differs from the source ({how}; lowest node whose written "
               f"form differs from its region text: {cat})",
               at=k, src=src[max(0, k - 40):k + 40], got=back[max(0, k - 40):k + 40])
    elif back is not None:
        res.ev("b_lossless")

    # ---- clauses (c), (d)
    nevals, shapes, types_seen = Judge(S, report, counters).walk(tree)
    res.evals(nevals)
    for k, v in counters.items():
        if v:
            res.ev(k, v)
    for t in types_seen:
        res.ev("nt." + t)
    for sh in shapes:
        res.shape(sh)
    return nvio[0], False


def _ctx(src, a, b, pad=30):
    return src[max(0, a - pad):b + pad][:300]


def _excerpt_exc(src, e):
    m = re.search(r"at \((\d+), (\d+)\)", str(e))
    if not m:
        return None
    lines = src.split("\n")
    ln = int(m.group(1))
    return "\n".join(lines[max(0, ln - 3):ln + 1])[:400]


def _lossy_node(tree, src, patchedast):
    """Category of the lowest node whose written form differs from the text of its region."""
    best = tree
    changed = True
    while changed:
        changed = False
        for c in ast.iter_child_nodes(best):
            if getattr(c, "region", None) is None or not hasattr(c, "sorted_children"):
                continue
            try:
                w = patchedast.write_ast(c)
            except Exception:
                continue
            if w != src[c.region[0]:c.region[1]]:
                best, changed = c, True
                break
    return _category(best)


# --------------------------------------------------------------------------- fixed witnesses
# One small valid module per construct family that the pinned tree is known to get wrong or that a mutant is
# likely to break; run on every tier so that the set of reachable signature keys does not depend on the seed.
WITNESSES = [
    ('numeric-literals', 'x = 1_000\ny = 0b101\nz = 0B1\no = 0O17\nh = 0XFF\nf = 1_0.0\nc = 1_0j\nok = 0x1f + 0o7 + 1e5 + 2.5j + .5 + 5.\n'),
    ('star-args', "f(*args)\na = [*b, c]\n*d, e = c\nf(*(a or b))\ng(**kw)\ng(**(a or b))\nh = {**a, 'b': 1}\n"),
    ('tuples-trailing-comma', 'x = a,\ny = a, b,\nz = (a,)\nw = ()\nfor i in a,: pass\n'),
    ('with-after-trailing-comma', 'x = a,\nwith b:\n    pass\n'),
    ('annotated-args', "def f(a: int, b: str = 'x') -> None:\n    pass\n"),
    ('all-parameter-kinds', 'def f(a, /, b, *args, c=1, **kw):\n    pass\n'),
    ('posonly-substring-name', 'def f(ab, /, b):\n    pass\n'),
    ('lambda-parameters', 'g = lambda *a, k=1, **kw: a\nh = lambda x, /, y=2: x\n'),
    ('kwonly-default-hash-string', "def f(*, d=('#', ';')):\n    pass\n"),
    ('kwonly-default-tuple', 'def f(a, *, k=(1, 2), m=3):\n    return a\n'),
    ('annotation-with-commas', 'def f(a: Tuple[int, str], b):\n    pass\n'),
    ('implicit-concatenation', 'x = (f"a{b}"\n     f"c{d}")\ny = ("a"\n     f"{b}")\nz = (\'a\'\n     \'b\')\nw = \'a\' \'b\' "c"\nv = b\'a\' b\'b\'\n'),
    ('fstring-brace-escape', 'x = f"{{a}} {b}"\ny = f"b {b}"\nz = f"{a}}}"\n'),
    ('fstring-nested-and-spec', 'x = f"{f\'{a}\'}"\ny = f"{a:>{w}}"\nz = f"{a!r:^10}"\nw = f"{a=}"\nv = f\'{d["k"]}\' f"{d[\'k\']}"\nu = rf\'{a}\\d\'\n'),
    ('fstring-multiline-field', 'x = f\'\'\'{\n    a\n}\'\'\'\ny = f"{a  # comment\n}"\n'),
    ('class-keywords', 'class A(B, metaclass=M):\n    pass\nclass C(*bases, **kw):\n    pass\n'),
    ('type-parameters', 'class A[T]:\n    pass\ndef f[T: int, *Ts, **P](x: T) -> T:\n    return x\ntype X[T] = list[T]\ntype Y = int\n'),
    ('try-else-finally', 'try:\n    a\nexcept E:\n    b\nelse:\n    c\nfinally:\n    d\n'),
    ('try-except', 'try:\n    a\nexcept (E, F) as e:\n    b\nexcept:\n    c\n'),
    ('try-star', 'try:\n    a\nexcept* E:\n    b\n'),
    ('async-constructs', 'async def f():\n    r = [x async for x in y]\n    async with a as b, c:\n        await b\n    async for i in r:\n        yield i\n'),
    ('yield-forms', 'def g():\n    (yield)\n    x = yield\n    y = yield from x\n    return *x, y\n'),
    ('parenthesized-expression-statements', '(a + b)\n(a).b\n((a))\n(a)(b)\n'),
    ('with-items', 'with a as b, \\\n     c as d:\n    pass\nwith (a as b,\n      c as d):\n    pass\nwith (a, b):\n    pass\n'),
    ('slices', 'x = a[1::]\ny = a[::2, 1:2]\nz = a[*b]\nw = a[(1, 2)]\nv = a[...]\n'),
    ('match-tuple-pattern', 'match x:\n    case (a, b):\n        pass\n'),
    ('match-patterns', "match x:\n    case [1, *rest] if rest:\n        pass\n    case {'k': v, **kw}:\n        pass\n    case Point(x=0, y=0) | None:\n        pass\n    case str() as s:\n        pass\n    case -1 | 1+2j:\n        pass\n    case m.K:\n        pass\n    case _:\n        pass\n"),
    ('nfkc-identifier', 'ﬁ = 1\nx = ﬁ + fi\n'),
    ('unicode-identifiers', "é = 'ü'  # ñ\n名前 = é . real\n"),
    ('elif-chain', 'if a:\n    pass\nelif b:\n    pass\nelif c:\n    pass\nelse:\n    pass\n'),
    ('decorators', '@a.b(c)\n@d\ndef f(): pass\n@e\nclass C: pass\n'),
    ('comments-with-brackets', "x = (\n    1  # one (\n)\ny = [  # ) ]\n    2,\n]\nz = {  # for x in y\n    'k': 3}\n"),
    ('comments-with-keywords', 'x = [a  # for b\n     for a in c  # if d\n     if a]\n'),
    ('global-nonlocal', 'global a, b\ndef f():\n    v = 1\n    def g():\n        nonlocal v\n        v = 2\n'),
    ('walrus-loops', 'if (n := len(a)) > 1: pass\nwhile x: break\nfor i in y: continue\nelse: pass\n'),
    ('imports', 'from . import a\nfrom .. b import (c as d,\n    e)\nfrom ... import f\nimport a.b.c as d, e\nfrom m import *\n'),
    ('annotated-and-augmented-assignment', "x: int = 1\n(y): int\na.b: str = 's'\nc[0]: int\nx += 1\nx @= y\nx >>= 2\nx //= 3\nx **= 4\n"),
    ('raise-from', 'raise E from e\n'),
    ('assert-del', 'assert a, b\ndel a, (b), c[0], d.e\n'),
    ('operators', 'x = a if b else c\ny = not a\nz = a is not b\nw = a not in b\nv = -a ** ~b\nu = a < b <= c != d\nt = a and b or c\n'),
    ('semicolons', 'a = 1; b = 2;\nif a: c = 3; d = 4;\n'),
    ('crlf', 'a = 1\r\nb = (2,\r\n     3)\r\n'),
    ('tabs-formfeed', 'if a:\n\tb = 1\n\tif c:\n\t\td = 2\n\x0ce = 3\n'),
    ('backslash-continuation', 'x = 1 + \\\n    2\ny = a \\\n    .b\nassert x, \\\n    y\n'),
    ('string-spellings', 'x = \'it\'\'s\' "q\\"q" \'\'\'t\n\'\'\'\ny = r\'\\d\' R"\\s" u\'u\'\nyb = br\'x\' Rb"y"\nz = \'hash # inside\'; w = "paren ( inside"  # real \' "\n'),
    ('calls-genexp', "print(a, end='')\nf(x for x in y)\nf((x for x in y), z)\nf(a)(b)[c].d\n"),
    ('displays-comprehensions', 'x = {1, 2}\ny = {k: v for k, v in z}\nw = {i for i in j if i}\nv = (i for i in j)\nu = [i for i in j for k in i if k]\n'),
    ('class-body', "class A:\n    'doc'\n    x: int = 1\n    def m(self): return super().m()[1:2, ::3].a\n"),
    ('docstring', "def h():\n    '''Doc.\n\n    for x in y: not code\n    '''\n    return 1\n"),
    ('lambda-forms', 'lambda: (yield)\nx = lambda: 0\ny = (lambda a, b=1: a)(2)\n'),
    ('coding-cookie-unencodable', "# -*- coding: latin-1 -*-\nx = '€'\n"),
    ('del-trailing-comma', 'del a, b,\n'),
    ('fstring-comment-quote', 'm = f"\'{ # r\'q\na}\' t"\n'),
    ('fstring-comment-before-expr', 'raise E(f\'{ # f"{\nself.a} d "p"\')\n'),
    ('fstring-brace-escape-parens', 'x = f"{{({b})}}"\n'),
    ('return-annotation-lambda-async', 'async def case_(*λ) -> lambda *if_: [T for d in n if typed.format]:\n    if (e.format or q,)():\n        pass\n'),
    ('return-annotation-lambda', 'def g(*a) -> lambda *if_: [T for d in n if t.f]:\n    if (e.f or q,)():\n        pass\n'),
    ('hash-string-before-parenthesized-call-argument', "f('#', (a + b)[c])\n"),
    ('hash-string-before-parenthesized-subscript', "x = '#'[(a or b).x]\n"),
]


# --------------------------------------------------------------------------- workload
def paren_family():
    """Systematic product: syntactic position of a parenthesised expression x how the parentheses are laid
    out (same line, newline after '(', trailing comment after '(' whose text contains brackets / quotes,
    comment before ')') - the layouts a backwards search for the opening parenthesis has to survive."""
    hosts = ["{P} * b", "b * {P}", "{P}.real", "{P}[0]", "{P}(1)", "f({P}, 2)", "f(1, {P})", "-{P}", "not {P}",
             "{P} if c else d", "c if {P} else d", "[{P}, 1]", "{P}, 1", "x[{P}]", "{P} < {P}", "lambda: {P}",
             "{P} and b", "[{P} for i in y]", "{P} .real"]
    stmts = ["total = {E}", "return_value = ({E})", "print({E})", "assert {E}", "for q in {E}:\n    pass",
             "if {E}:\n    pass", "with {E} as w:\n    pass", "del z[{E}]", "r = yield_like({E})"]
    inner = ["a", "a + b", "a, b", "i for i in y"]
    comments = ["# base (net", "# ) closes", "# [ ( {", "# 'quote (", "# plain"]
    layouts = ["({X})", "( {X} )", "(\n    {X})", "(  {C}\n    {X})", "(\n    {X}  {C}\n)", "(  {C}\n    {X}  {C}\n)",
               "(({X}))", "(  {C}\n    ({X}))"]
    out = []
    for hi, h in enumerate(hosts):
        for li, lay in enumerate(layouts):
            for xi, x in enumerate(inner):
                if x in ("a, b", "i for i in y") and li == 0 and False:
                    continue
                c = comments[(hi + li + xi) % len(comments)]
                P = lay.replace("{X}", x).replace("{C}", c)
                E = h.replace("{P}", P)
                st = stmts[(hi * 7 + li * 3 + xi) % len(stmts)]
                src = "prev = (1, 2)\n" + st.replace("{E}", E) + "\nnext_statement = (3)\n"
                out.append((f"paren-family/{hi}/{li}/{xi}", src))
    return out


def string_family():
    """Systematic product: where consecutive string-literal statements stand (module, class, def, if, loop,
    try, with, nested) x how the literals are spelled (quotes, implicit concatenation on one line or inside
    parentheses) x what follows.  Same keying as the parenthesis family (the label starts with paren-family)."""
    bodies = {
        "module": "{B}",
        "class": "class K:\n{B4}\nafter = 1\n",
        "def": "def fn(a):\n{B4}\nafter = 1\n",
        "if": "if cond:\n{B4}\nelse:\n    pass\nafter = 1\n",
        "for-else": "for i in y:\n    pass\nelse:\n{B4}\nafter = 1\n",
        "try": "try:\n{B4}\nexcept E:\n{B4}\nfinally:\n    pass\nafter = 1\n",
        "with": "with ctx as c:\n{B4}\nafter = 1\n",
        "def-in-if": "if cond:\n    def fn(a):\n{B8}\nafter = 1\n",
        "method": "class K:\n    def m(self):\n{B8}\n    x = 1\nafter = 1\n",
    }
    runs = [
        ['"""doc."""', '"""second."""'],
        ["'one'", "'two'"],
        ['"one"', "'two'", '"""three"""'],
        ["'a' 'b'", "'c'"],
        ['"""doc."""', "value = 1", "'attribute doc'"],
        ['"""doc."""', "'x'", "value = 'y'"],
        ["'lone'"],
        ["b'bytes'", "'text'"],
        ["r'raw\\d'", "u'uni'"],
    ]
    out = []
    for bname, shape in bodies.items():
        for ri, run in enumerate(runs):
            def block(ind):
                return "\n".join(ind + l for st in run for l in st.split("\n"))
            src = shape.replace("{B4}", block("    ")).replace("{B8}", block("        ")).replace("{B}", block("") + "\nafter = 1\n")
            out.append((f"paren-family/strings/{bname}/{ri}", "cond = y = E = ctx = None\n" + src))
    return out


def longstring_family():
    """Systematic product: triple-quoted literals whose body contains runs of the delimiter's own quote
    character (one, two, two pairs, an escaped one, one right before the closing quotes) x one line / several
    lines x the position of the literal (docstring, assignment, argument, implicit concatenation, prefixes).
    Same keying as the parenthesis family."""
    out = []
    bodies = ['say {q} now', 'Return {q}{q} when nothing', '{q}{q} first', 'a {q}{q} b {q}{q} c', 'esc \\{q} end',
              'pair {q}{q}\\{q}', 'other {o}{o}{o} kind', 'x{q} {q}y']
    hosts = ["def fn(a):\n    {L}\n    return a\n", "doc = {L}\nafter = 1\n", "print({L}, 2)\nafter = 1\n",
             "both = ({L}\n        'tail')\nafter = 1\n", "class K:\n    {L}\n    attr = {L}\n"]
    for qi, (q, o) in enumerate((('"', "'"), ("'", '"'))):
        for bi, b in enumerate(bodies):
            text = b.replace("{q}", q).replace("{o}", o)
            for li, lines in enumerate((text, text + "\n    was found.\n    ", "\n" + text + "\n")):
                for pi, prefix in enumerate(("", "r", "b")):
                    if prefix == "r" and "\\" in text and text.endswith("\\" + q):
                        continue
                    lit = prefix + q * 3 + lines + q * 3
                    for hi, h in enumerate(hosts):
                        if (bi + li + pi + hi) % 2 and pi:      # prefixes only on half of the hosts
                            continue
                        src = h.replace("{L}", lit)
                        try:
                            compile(src, "<longstr>", "exec", dont_inherit=True)
                        except (SyntaxError, ValueError):
                            continue
                        out.append((f"paren-family/longstr/{qi}/{bi}/{li}/{pi}/{hi}", src))
    return out


def cases(tier, seed):
    import random
    rnd = random.Random(f"{seed}/C08/cases")
    rope_files = corpus.paths(("rope",))
    other = corpus.select(f"{seed}/C08", None, roots=("stdlib", "ropetest"))
    if tier == "quick":
        files = rope_files + other[:200]
        knobs = {"whole": 1, "snips": 3, "nmut": 10}
        ngen, per_gen = 64, 8
    else:
        files = rope_files + other
        knobs = {"whole": 2, "snips": 6, "nmut": 12}
        ngen, per_gen = 800, 10
    # generated programs first (cheap; they guarantee node-class coverage), then the files, big ones first
    for i in range(min(ngen, 32)):
        yield {"kind": "gen", "seed": f"{seed}/C08/gen/{i}", "n": per_gen}
    yield {"kind": "seeds", "seed": f"{seed}/C08/seeds", "n": 6 if tier == "quick" else 40}
    sized = sorted(files, key=lambda p: (-os.path.getsize(p), p))
    for i, p in enumerate(sized):
        yield dict(knobs, kind="file", path=p, seed=f"{seed}/C08/file/{i}")
    for i in range(32, ngen):
        yield {"kind": "gen", "seed": f"{seed}/C08/gen/{i}", "n": per_gen}
    if tier == "thorough":  # more variants of random corpus files until the budget ends
        i = 0
        while True:
            yield {"kind": "file", "path": rnd.choice(files), "whole": 1, "snips": 8, "nmut": rnd.choice([6, 12, 20]),
                   "only_variants": True, "seed": f"{seed}/C08/more/{i}"}
            i += 1


def setup_worker():
    sys.setrecursionlimit(3000)


def _mutated(text, rnd, nmut):
    try:
        m = layoutfuzz.mutate_ex(text, rnd, n_mutations=nmut, crlf=rnd.random() < 0.1)
    except (RecursionError, MemoryError):
        return None
    if m is None or m.text == text:
        return None
    return m


def _check_variant(res, base, rnd, nmut, origin):
    m = _mutated(base, rnd, nmut)
    if m is None:
        res.ev("variants_not_produced")
        return 0
    res.ev("variant_sources")
    for tag in set(m.applied):
        res.ev("mut." + tag)
    o = dict(origin, mutations=m.applied)
    if len(m.text) <= 3000:
        o["source"] = m.text
    return check_source(m.text, res, o)


def run_case(spec):
    res = core.Result()
    rnd = core.rng(spec)
    total = 0
    with warnings.catch_warnings():
        warnings.simplefilter("ignore")
        if spec["kind"] == "file":
            src = corpus.load(spec["path"])
            if src is None:
                res.ev("corpus_skipped_uncompilable")
                res.outcome("skipped")
                return res
            rel = _rel(spec["path"])
            if not spec.get("only_variants"):
                res.ev("corpus_sources")
                total += check_source(src, res, {"file": rel})
            if len(src) <= 60_000:
                for j in range(spec["whole"]):
                    total += _check_variant(res, src, rnd, spec["nmut"] + len(src) // 4000, {"file": rel, "variant": j})
            for j in range(spec["snips"]):
                sn = corpus.snippet(src, rnd, 3, 60)
                if sn is None:
                    continue
                total += _check_variant(res, sn, rnd, spec["nmut"], {"file": rel, "snippet_variant": j})
            res.sample({"kind": "file", "path": rel, "chars": len(src), "violations": total})
        elif spec["kind"] == "seeds":
            for label, sn in WITNESSES + paren_family() + string_family() + longstring_family():
                if corpus.compiles(sn):
                    res.ev("witness_sources")
                    total += check_source(sn, res, {"witness": label, "source": sn})
                else:
                    res.ev("witness_invalid")
            for j in range(spec["n"]):
                for k, sn in enumerate(layoutfuzz.SEED_SNIPPETS):
                    if j == 0:
                        res.ev("seed_sources")
                        total += check_source(sn, res, {"seed_snippet": k, "source": sn})
                    total += _check_variant(res, sn, rnd, 12, {"seed_snippet": k, "variant": j})
            res.sample({"kind": "seeds", "snippets": len(layoutfuzz.SEED_SNIPPETS), "violations": total})
        else:
            first = None
            for j in range(spec["n"]):
                src = astgen.coverage_module_source(rnd) if j == 0 else astgen.random_module_source(rnd)
                if not corpus.compiles(src):
                    res.ev("generated_repaired")
                    src = astgen.valid_statements_source(src)
                    if src is None or not corpus.compiles(src):
                        res.ev("generated_discarded_invalid")
                        continue
                first = first or src
                res.ev("generated_sources")
                total += check_source(src, res, {"generated": spec["seed"], "index": j, "source": src[:3000]})
                total += _check_variant(res, src, rnd, 10, {"generated": spec["seed"], "index": j})
            res.sample({"kind": "generated", "seed": spec["seed"], "first_program": (first or "")[:600],
                        "violations": total})
    res.outcome("violating-source" if total else "exact")
    return res


def _rel(path):
    for name in ("stdlib", "rope", "ropetest"):
        root = corpus.root_dir(name)
        if path.startswith(root + os.sep):
            return name + ":" + path[len(root) + 1:]
    return path


def finalize(agg):
    ev = agg["events"]
    seen = {k[3:]: ev.pop(k) for k in list(ev) if k.startswith("nt.")}
    muts = {k[4:]: ev.pop(k) for k in list(ev) if k.startswith("mut.")}
    want = astgen.reachable_node_classes()
    missing = sorted(set(want) - set(seen))
    out = {"node_types_seen": dict(sorted(seen.items())), "node_types_missing": missing,
           "node_types_total": len(want), "mutation_kinds_applied": dict(sorted(muts.items()))}
    if missing:
        out["inconclusive"] = "node classes never produced by the workload: " + ", ".join(missing)
    return out


if __name__ == "__main__":
    core.main(sys.modules[__name__])
