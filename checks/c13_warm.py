"""C13 - a long-lived project answers like a freshly opened one.

Differential at the API boundary after every step of a random history: the same queries are put
to the long-lived ("warm") project and to a Project newly opened on the same directory.
View = file lists, module lookup by dotted name, and per module: source, defined names and for
each name (PyName class, object class, definition module+line, attribute set / parameters),
occurrences of every top-level definition, and the auto-import global-name index.
History alphabet: create / write / move / remove of files, folders and packages through rope,
rename refactorings, undo / redo, and edits / creations / removals BEHIND rope's back (mtime and
size forced to differ) followed by validate().  Queries run at every step so every cache is warm
in every order; cache hits are counted and a run without warm hits is inconclusive.
"""
import os
import sys

from vlib import core, pyrun, treesnap

ID = "C13"
READY = True
LEVEL = "exploration"
RULE = ("random histories of 25-60 steps over a 7-path universe (2 top-level modules, a package with 2 "
        "sub-modules, a nested package) with 4 source variants per path (plain / from / star / relative imports, "
        "classes with inheritance across modules, syntax error); view compared after EVERY step; non-trivial = "
        "history with >= 1 cache hit before a mutation and >= 1 mutation of each class (through rope, external + "
        "validate, undo/redo); distinct = multiset of step kinds (bucketed)")
ASSUMPTIONS = ["external changes are followed by validate(); they change mtime or size (the documented indicator)",
               "automatic_soa / perform_doa off on both sides: accumulated call information is not a cache"]
BUDGET = {"quick": (900, 240), "thorough": (7700, 900)}
EXHAUSTIVE = {}
CASE_TIMEOUT = 600
REQUIRE = {"views_compared": 3000, "module_cache_hits": 1000, "external_then_validate": 200, "filelist_cached_returns": 500}
TECHNIQUE = ("differential testing of the long-lived project against a freshly opened project after every step "
             "of random mutation histories, with counters proving the caches were warm")
LEVEL_TEXT = ("After each step of each history every query of the view is evaluated on the warm project and on a "
              "new Project on the same directory; any difference is a stale or wrong cache. Counters on the module "
              "cache and the file-list cache show the caches were populated when mutated.")
LEVEL_NOTE = ("sampled histories; the view is the set of queries listed in the statement restricted to statically "
              "resolvable information; object information accumulated by analysis is excluded by configuration")
DESIGN_REF = "DESIGN.md section 5, C13"

PATHS = ["m1.py", "m2.py", "pk/__init__.py", "pk/a.py", "pk/b.py", "pk/sub/__init__.py", "pk/sub/c.py"]
VARIANTS = {
    "m1.py": ["class Base:\n    kind = 'b'\n    def who(self):\n        return self.kind\n\ndef top(x):\n    return x + 1\n\nVALUE = top(1)\n",
              "import m2\n\nclass Base(m2.Root):\n    def who(self):\n        return 1\n\ndef top(x, y=2):\n    return m2.util(x) + y\n",
              "from m2 import *\n\ndef top(x):\n    return util(x)\n\nclass Base:\n    pass\n",
              "def top(x:\n    return\n"],
    "m2.py": ["class Root:\n    level = 0\n    def up(self):\n        return self.level\n\ndef util(v):\n    return v * 2\n",
              "from pk.a import Leaf\n\nclass Root(Leaf):\n    def up(self):\n        return 2\n\ndef util(v, w=1):\n    return v\n\n__all__ = ['Root', 'util']\n",
              "import pk.a\nimport pk.sub.c as deep\n\nclass Root:\n    def up(self):\n        return deep.DEEP\n\ndef util(v):\n    return pk.a.leaf_fn(v)\n",
              "util = 3\n"],
    "pk/__init__.py": ["", "from .a import Leaf\n", "from . import a, b\nMARK = 1\n", "from .b import *\n"],
    "pk/a.py": ["class Leaf:\n    tag = 1\n    def show(self):\n        return self.tag\n\ndef leaf_fn(q):\n    return q\n",
                "from .b import Other\n\nclass Leaf(Other):\n    def show(self):\n        return 0\n\ndef leaf_fn(q, r=0):\n    return q + r\n",
                "from . import b\n\nclass Leaf:\n    def show(self):\n        return b.B_CONST\n\ndef leaf_fn(q):\n    return b.other_fn(q)\n",
                "class Leaf\n    pass\n"],
    "pk/b.py": ["class Other:\n    o = 2\n    def other_m(self):\n        return self.o\n\ndef other_fn(z):\n    return z\n\nB_CONST = 5\n",
                "import m1\n\nclass Other(m1.Base):\n    def other_m(self):\n        return self.who()\n\ndef other_fn(z):\n    return m1.top(z)\n\nB_CONST = 6\n",
                "from .sub.c import DEEP, deep_fn\n\nclass Other:\n    pass\n\ndef other_fn(z):\n    return deep_fn(z) + DEEP\n\nB_CONST = DEEP\n",
                "B_CONST = 7\n"],
    "pk/sub/__init__.py": ["", "from .c import deep_fn\n"],
    "pk/sub/c.py": ["DEEP = 9\n\ndef deep_fn(d):\n    return d + DEEP\n",
                    "from ..a import Leaf\n\nDEEP = 10\n\nclass Deep(Leaf):\n    def deep_m(self):\n        return self.show()\n\ndef deep_fn(d):\n    return Deep().deep_m() + d\n",
                    "from ... import nothing\nDEEP = 1\n"],
}
DOTTED = ["m1", "m2", "pk", "pk.a", "pk.b", "pk.sub", "pk.sub.c", "pk.moved", "m3", "pk2", "pk2.a", "nope"]
EXTRA_NAMES = ["m3.py", "pk/moved.py", "pk2"]

_COUNTS = {"module_cache_hits": 0, "module_cache_misses": 0, "filelist_cached_returns": 0, "filelist_rebuilds": 0}


def setup_worker():
    """Counting wrappers on rope's caches (monitors, no behaviour change)."""
    from rope.base import project as rp, pycore
    orig = pycore._ModuleCache.get_pymodule

    def get_pymodule(self, resource, force_errors=False):
        _COUNTS["module_cache_hits" if resource in self.module_map else "module_cache_misses"] += 1
        return orig(self, resource, force_errors)
    pycore._ModuleCache.get_pymodule = get_pymodule
    orig_gf = rp._FileListCacher.get_files

    def get_files(self):
        _COUNTS["filelist_cached_returns" if self.files is not None else "filelist_rebuilds"] += 1
        return orig_gf(self)
    rp._FileListCacher.get_files = get_files


def cases(tier, seed):
    i = 0
    while True:
        yield {"seed": f"{seed}/C13/{i}"}
        i += 1


def _open(root):
    from rope.base.project import Project
    return Project(root, ropefolder=None, automatic_soa=False, perform_doa=False, save_history=False, save_objectdb=False)


def _describe(pyname, depth=0):
    from rope.base import pynames, pyobjects
    out = [type(pyname).__name__]
    try:
        obj = pyname.get_object()
    except Exception as e:
        return out + ["get_object-raised:" + type(e).__name__]
    out.append(type(obj).__name__)
    try:
        mod, line = pyname.get_definition_location()
        res = mod.get_resource() if mod is not None else None
        out.append([res.path if res is not None else None, line])
    except Exception as e:
        out.append("defloc-raised:" + type(e).__name__)
    try:
        if isinstance(obj, pyobjects.AbstractClass):
            out.append(sorted(obj.get_attributes().keys()))
            out.append([type(s).__name__ + ":" + (s.get_name() if hasattr(s, "get_name") else "?") for s in obj.get_superclasses()])
        elif isinstance(obj, pyobjects.AbstractModule):
            out.append(sorted(k for k in obj.get_attributes().keys()))
            r = obj.get_resource() if hasattr(obj, "get_resource") else None
            out.append(r.path if r is not None else None)
        elif isinstance(obj, pyobjects.AbstractFunction):
            out.append(obj.get_param_names())
        else:
            t = obj.get_type()
            out.append(type(t).__name__ + ":" + (t.get_name() if hasattr(t, "get_name") else ""))
    except Exception as e:
        out.append("attrs-raised:" + type(e).__name__)
    return out


def view(project, root):
    """Everything the statement lists, as a JSON-able structure."""
    from rope.base import exceptions
    from rope.contrib import findit
    v = {}
    v["files"] = sorted(f.path for f in project.get_files())
    v["pyfiles"] = sorted(f.path for f in project.get_python_files())
    v["find_module"] = {}
    for n in DOTTED:
        try:
            r = project.find_module(n)
            v["find_module"][n] = r.path if r is not None else None
        except Exception as e:
            v["find_module"][n] = "raised:" + type(e).__name__
    mods = {}
    for path in v["pyfiles"]:
        res = project.get_file(path)
        try:
            pm = project.get_pymodule(res)
        except exceptions.ModuleSyntaxError:
            mods[path] = "syntax-error"
            continue
        except Exception as e:
            mods[path] = "raised:" + type(e).__name__
            continue
        entry = {"source": pm.source_code}
        try:
            attrs = pm.get_attributes()
            entry["names"] = {k: _describe(pn) for k, pn in sorted(attrs.items())}
        except Exception as e:
            entry["names"] = "raised:" + type(e).__name__
        occ = {}
        src = pm.source_code
        for kw in ("def ", "class "):
            start = 0
            while True:
                i = src.find(kw, start)
                if i < 0:
                    break
                start = i + 1
                if i > 0 and src[i - 1] != "\n":
                    continue
                off = i + len(kw)
                try:
                    locs = findit.find_occurrences(project, res, off)
                    occ[f"{kw.strip()}@{off}"] = sorted([l.resource.path, l.offset, bool(l.unsure)] for l in locs)
                except exceptions.RopeError as e:
                    occ[f"{kw.strip()}@{off}"] = "refused:" + type(e).__name__
                except Exception as e:
                    occ[f"{kw.strip()}@{off}"] = "raised:" + type(e).__name__
        entry["occurrences"] = occ
        mods[path] = entry
    v["modules"] = mods
    pkgs = {}
    for folder in ("pk", "pk/sub", "pk2", "pk2/sub"):
        full = os.path.join(root, folder)
        if os.path.isdir(full):
            try:
                po = project.get_pymodule(project.get_folder(folder))
                pkgs[folder] = {"names": {k: _describe(pn) for k, pn in sorted(po.get_attributes().items())}}
            except Exception as e:
                pkgs[folder] = "raised:" + type(e).__name__
    v["packages"] = pkgs
    return v


def autoimport_view(ai):
    names = sorted(ai.get_all_names())
    return {"all_names": names, "modules": {n: sorted(ai.get_modules(n)) for n in names}}


def first_diff(a, b, path=""):
    if type(a) is not type(b):
        return path, a, b
    if isinstance(a, dict):
        for k in sorted(set(a) | set(b), key=str):
            if k not in a or k not in b:
                return f"{path}/{k}", a.get(k, "<absent>"), b.get(k, "<absent>")
            d = first_diff(a[k], b[k], f"{path}/{k}")
            if d:
                return d
        return None
    if isinstance(a, list):
        if len(a) != len(b):
            return path + "/len", a, b
        for i, (x, y) in enumerate(zip(a, b)):
            d = first_diff(x, y, f"{path}[{i}]")
            if d:
                return d
        return None
    return None if a == b else (path, a, b)


def _clause(path):
    """Finite classification of where the view differs."""
    for c in ("files", "pyfiles", "find_module"):
        if path.startswith("/" + c):
            return c
    if "/source" in path:
        return "module-source"
    if "/occurrences" in path:
        return "occurrences"
    if "/names" in path:
        import re
        m = re.search(r"\[(\d+)\]", path)
        return "names:" + {None: "set", "0": "pyname-class", "1": "object-class", "2": "definition-location",
                           "3": "attribute-set", "4": "superclasses-or-resource"}.get(m.group(1) if m else None, "other")
    if path.startswith("/packages/"):
        return "package-names"
    if path.startswith("/modules/"):
        return "module-state"
    return "other"


def _touch(full, rnd):
    st = os.stat(full)
    os.utime(full, ns=(st.st_atime_ns, st.st_mtime_ns + rnd.randint(2, 5) * 10**9))


def run_case(spec):
    from rope.base import change as ch, exceptions
    from rope.contrib.autoimport import AutoImport
    from rope.refactor.rename import Rename
    res = core.Result()
    rnd = core.rng(spec)
    for k in _COUNTS:
        _COUNTS[k] = 0
    with core.Scratch() as tmp:
        root = tmp + "/p"
        os.makedirs(root)
        init = {p: VARIANTS[p][0] for p in PATHS if rnd.random() < 0.85}
        for p in list(init):
            d = os.path.dirname(p)
            while d:
                init.setdefault(d + "/__init__.py", VARIANTS.get(d + "/__init__.py", [""])[0])
                d = os.path.dirname(d)
        pyrun.write_project(root, init)
        warm = _open(root)
        ai = AutoImport(warm, observe=True)
        ai.generate_cache()
        steps = rnd.randint(25, 60)
        log = []
        kinds = []
        res.evals()
        diverged = set()

        def exists(p):
            return os.path.exists(os.path.join(root, p))

        state = {"warm": warm, "ai": ai}

        def compare(step_kind):
            warm, ai = state["warm"], state["ai"]
            w = view(warm, root)
            fresh = _open(root)
            f = view(fresh, root)
            res.ev("views_compared")
            d = first_diff(w, f)
            if d:
                cl = _clause(d[0])
                cls = ("file-lists" if cl in ("files", "pyfiles", "find_module") else
                       "module-source" if cl in ("module-source", "module-state") else "resolved-names")
                if "(after-external-change)" in step_kind:
                    # undo/redo of a rope change after the tree was changed behind rope's back: one labelled class
                    key = "hostile:undo-redo-after-external-change"
                else:
                    key = f"{cls}|after={step_kind}"
                if key not in diverged:
                    diverged.add(key)
                    res.violation(key, f"warm project differs from a freshly opened one in {cl} after a {step_kind} step",
                                  where=d[0], warm=repr(d[1])[:300], fresh=repr(d[2])[:300], log=log[-12:])
                # resynchronise so that later steps are judged on their own: continue with the fresh project
                state["warm"] = fresh
                state["ai"] = AutoImport(fresh, observe=True)
                state["ai"].generate_cache()
                res.ev("resyncs")
                return False
            fai = AutoImport(fresh, observe=False)
            fai.generate_cache()
            a, b = autoimport_view(ai), autoimport_view(fai)
            d = first_diff(a, b)
            if d:
                key = "hostile:legacy-autoimport-index-stale"
                if key not in diverged:
                    diverged.add(key)
                    res.violation(key, f"auto-import index of the warm project differs from a fresh one after a {step_kind} step",
                                  where=d[0], warm=repr(d[1])[:300], fresh=repr(d[2])[:300], log=log[-12:])
                ai.clear_cache()
                ai.generate_cache()
                res.ev("resyncs")
                return False
            return True

        compare("open")
        for _ in range(steps):
            warm = state["warm"]
            r = rnd.random()
            kind = None
            try:
                if r < 0.22:
                    p = rnd.choice(PATHS)
                    text = rnd.choice(VARIANTS[p])
                    if exists(p):
                        kind = "rope-write"
                        warm.do(ch.ChangeContents(warm.get_file(p), text))
                    elif exists(os.path.dirname(p)) or "/" not in p:
                        kind = "rope-create"
                        f = warm.get_folder(os.path.dirname(p)).create_file(os.path.basename(p))
                        f.write(text)
                    log.append([kind, p, VARIANTS[p].index(text)])
                elif r < 0.30:
                    cands = [p for p in PATHS if exists(p) and not p.endswith("__init__.py")]
                    if cands:
                        p = rnd.choice(cands)
                        dst = rnd.choice(["m3.py", "pk/moved.py"])
                        # side stream (main one not consumed): a destination the default `ignored_resources`
                        # exclude -- the moved file must leave the file lists of the warm project too
                        import random as _random
                        side = _random.Random(hash(rnd.getstate()[1]))
                        if side.random() < 0.3:
                            dst = side.choice(["m9.py~", "pk/m9.py~"])
                            res.ev("moves_onto_ignored_name")
                        if not exists(dst) and exists(os.path.dirname(dst) or "."):
                            kind = "rope-move-file"
                            warm.do(ch.MoveResource(warm.get_file(p), dst, exact=True))
                            log.append([kind, p, dst])
                            # keep the universe stable: allow moving back later
                elif r < 0.36:
                    for src, dst in (("m3.py", "m1.py"), ("pk/moved.py", "pk/a.py"), ("pk2", "pk"), ("pk", "pk2"),
                                     ("m9.py~", "m2.py"), ("pk/m9.py~", "pk/b.py")):
                        if exists(src) and not exists(dst) and rnd.random() < 0.6:
                            kind = "rope-move-folder" if "." not in src else "rope-move-file"
                            resrc = warm.get_folder(src) if "." not in src else warm.get_file(src)
                            warm.do(ch.MoveResource(resrc, dst, exact=True))
                            log.append([kind, src, dst])
                            break
                elif r < 0.42:
                    cands = [p for p in PATHS + ["m3.py", "pk/moved.py"] if exists(p)]
                    if cands:
                        p = rnd.choice(cands)
                        kind = "rope-remove"
                        warm.do(ch.RemoveResource(warm.get_file(p)))
                        log.append([kind, p])
                elif r < 0.47:
                    if not exists("pk"):
                        kind = "rope-create-folder"
                        warm.root.create_folder("pk")
                        log.append([kind, "pk"])
                    elif not exists("pk/sub"):
                        kind = "rope-create-folder"
                        warm.get_folder("pk").create_folder("sub")
                        log.append([kind, "pk/sub"])
                elif r < 0.55:
                    cands = [(p, n) for p in ("m1.py", "m2.py", "pk/a.py", "pk/b.py") if exists(p)
                             for n in ("top", "util", "leaf_fn", "other_fn", "Leaf", "Root") if ("def " + n) in open(os.path.join(root, p)).read() or ("class " + n) in open(os.path.join(root, p)).read()]
                    if cands:
                        p, n = rnd.choice(cands)
                        src = open(os.path.join(root, p)).read()
                        i = src.find("def " + n)
                        off = (i + 4) if i >= 0 else src.find("class " + n) + 6
                        try:
                            changes = Rename(warm, warm.get_file(p), off).get_changes(n + "_r")
                            kind = "refactor-rename"
                            warm.do(changes)
                            log.append([kind, p, n])
                            # rename back keeps the universe bounded
                        except exceptions.RopeError:
                            pass
                elif r < 0.63:
                    h = warm.history
                    if h.undo_list:
                        kind = "undo"
                        try:
                            h.undo()
                        except (NotImplementedError, exceptions.RopeError, OSError):
                            kind = "undo-failed"
                        log.append([kind])
                elif r < 0.68:
                    h = warm.history
                    if h.redo_list:
                        kind = "redo"
                        try:
                            h.redo()
                        except (exceptions.RopeError, OSError):
                            kind = "redo-failed"
                        log.append([kind])
                elif r < 0.90:
                    # ---- behind rope's back, then validate
                    sub = rnd.random()
                    p = rnd.choice(PATHS)
                    if state.get("last_ext") and rnd.random() < 0.45:
                        p = state["last_ext"]      # hit the same file again (second invalidation of one entry)
                        sub = 0.0
                    state["last_ext"] = p
                    full = os.path.join(root, p)
                    if sub < 0.5:
                        if os.path.isdir(os.path.dirname(full)):
                            text = rnd.choice(VARIANTS[p])
                            existed = os.path.exists(full)
                            old = open(full).read() if existed else None
                            if old == text:
                                text = text + "# edited\n"
                            with open(full, "w") as f:
                                f.write(text)
                            if existed:
                                _touch(full, rnd)
                            kind = "external-edit" if existed else "external-create"
                            log.append([kind, p])
                    elif sub < 0.75:
                        if os.path.exists(full):
                            os.remove(full)
                            kind = "external-remove"
                            log.append([kind, p])
                    else:
                        import shutil
                        if exists("pk") and not exists("pk2") and rnd.random() < 0.5:
                            shutil.move(os.path.join(root, "pk"), os.path.join(root, "pk2"))
                            kind = "external-move-folder"
                            log.append([kind, "pk", "pk2"])
                        elif exists("pk2") and not exists("pk"):
                            shutil.move(os.path.join(root, "pk2"), os.path.join(root, "pk"))
                            kind = "external-move-folder"
                            log.append([kind, "pk2", "pk"])
                    if kind:
                        warm.validate(warm.root)
                        res.ev("external_then_validate")
                        kind = kind + "+validate"
                else:
                    kind = "query-only"
            except (exceptions.RopeError, OSError) as e:
                log.append(["step-refused", kind, type(e).__name__])
                kind = (kind or "step") + "-refused"
            if kind is None:
                continue
            if kind.startswith("external"):
                state["ext"] = True
            elif kind.startswith(("undo", "redo")):
                if state.get("ext"):
                    kind = kind + "(after-external-change)"
            elif kind.startswith(("rope-", "refactor-")):
                pass
            kinds.append(kind)
            res.ev("steps")
            compare(kind)
        for k, v in _COUNTS.items():
            res.ev(k, v)
        if _COUNTS["module_cache_hits"] > 0 and any("external" in k for k in kinds) and any(k.startswith("rope-") for k in kinds):
            bucket = sorted({k for k in kinds})
            res.shape(bucket)
        res.outcome("diverged" if diverged else "agreed")
        res.sample({"steps": kinds[:15], "log_head": log[:6]})
    return res


if __name__ == "__main__":
    core.main(sys.modules[__name__])
