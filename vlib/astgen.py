"""Random Python programs covering every node class of the running interpreter's `ast` module.

Programs are built as `ast` trees under the validity constraints compile() enforces (targets, single starred
target, yield/await/return/break placement, pattern rules, unique parameter / keyword / capture names, ...)
and turned into text with `ast.unparse`.  The caller still filters with compile(): the few trees that violate
a rule not modelled here are discarded and counted by the caller.

API
    reachable_node_classes()            names of all node classes `ast.parse(text)` (exec mode) can produce
    random_module(rnd, n_stmts=None)    ast.Module
    coverage_module(rnd)                ast.Module in which every statement / expression / pattern / type-param
                                        constructor is used at least once (children random)
    random_module_source(rnd, n_stmts=None), coverage_module_source(rnd) -> str
    node_types(tree_or_source)          set of class names occurring
All randomness comes from the `random.Random` passed in.
"""
from __future__ import annotations

import ast

_ABSTRACT = {"AST", "mod", "stmt", "expr", "expr_context", "boolop", "operator", "unaryop", "cmpop",
             "excepthandler", "pattern", "type_ignore", "type_param", "slice"}
_NOT_FROM_EXEC_PARSE = {"Interactive", "Expression", "FunctionType", "TypeIgnore", "Suite", "AugLoad", "AugStore",
                        "Param", "Index", "ExtSlice", "Num", "Str", "Bytes", "NameConstant", "Ellipsis"}


def reachable_node_classes():
    out = []
    for name in dir(ast):
        if name.startswith("_"):
            continue
        o = getattr(ast, name)
        if isinstance(o, type) and issubclass(o, ast.AST) and name not in _ABSTRACT and name not in _NOT_FROM_EXEC_PARSE:
            if o.__module__ in ("ast", "_ast"):
                out.append(name)
    return sorted(out)


def node_types(tree):
    if isinstance(tree, str):
        tree = ast.parse(tree)
    return {n.__class__.__name__ for n in ast.walk(tree)}


NAMES = ["a", "b", "ab", "ba", "x", "y", "xy", "i", "n", "nin", "in_", "is_", "as_", "if_", "or_", "orb", "fora",
         "elif_", "else_", "not_", "andy", "self", "cls", "data", "item", "key", "val", "lambda_", "d", "f", "e",
         "λ", "é1", "__x", "T", "def_", "classy", "with_", "async_", "awaits", "typed", "matcher", "case_"]
ATTRS = ["a", "b", "ab", "x", "real", "imag", "in_", "for_", "if_", "attr", "items", "format", "é", "fora", "T"]
MODS = ["os", "sys", "a.b", "a.b.c", "pkg.in_", "x"]
HASH_STRS = ["#notcomment", "a # b", "#"]   # rare on purpose: a '#' inside a literal derails rope's token search
STRS = ["", "s", "a b", "it's", 'say "hi"', "(", "x)", "[", "}", "{", "{}", "for x in y:", "line\nbreak",
        "tab\there", "back\\slash", "éè", "名前", "'''", '"""', "a,b", "1_000", "if", "\\", "%s", "*", "**"]
BYTES = [b"", b"b", b"\x00\xff", b"it's", b'"', b"(", b"\\"]
INTS = [0, 1, 2, 7, 10, 255, 1000, 65535, 10 ** 6, 2 ** 40, 10 ** 30]
FLOATS = [0.0, 0.5, 1.0, 1.5, 3.14, 1e10, 1e-07, 2.5e+20, 1e100, 123456.789]
IMAGS = [1j, 2.5j, 0j, 1e3j]

BINOPS = [ast.Add, ast.Sub, ast.Mult, ast.Div, ast.Mod, ast.Pow, ast.MatMult, ast.LShift, ast.RShift,
          ast.BitOr, ast.BitAnd, ast.BitXor, ast.FloorDiv]
UNOPS = [ast.Invert, ast.Not, ast.UAdd, ast.USub]
CMPOPS = [ast.Eq, ast.NotEq, ast.Lt, ast.LtE, ast.Gt, ast.GtE, ast.Is, ast.IsNot, ast.In, ast.NotIn]
BOOLOPS = [ast.And, ast.Or]


class _Scope:
    """Placement flags (what compile() allows here)."""

    def __init__(self, func=False, is_async=False, loop=False, cls=False, module=True, no_flow=False):
        self.func, self.is_async, self.loop, self.cls, self.module, self.no_flow = func, is_async, loop, cls, module, no_flow

    def but(self, **kw):
        s = _Scope(self.func, self.is_async, self.loop, self.cls, self.module, self.no_flow)
        for k, v in kw.items():
            setattr(s, k, v)
        return s


class Gen:
    def __init__(self, rnd, max_expr_depth=3, max_stmt_depth=3):
        self.r = rnd
        self.max_e = max_expr_depth
        self.max_s = max_stmt_depth
        self.uid = 0
        # cycling decks guarantee that every constructor is used within a bounded number of draws
        self._decks = {}

    # ------------------------------------------------------------------ helpers
    def fresh(self, stem="v"):
        self.uid += 1
        return f"{stem}{self.uid}"

    def pick(self, deck_name, options):
        """Draw from a shuffled deck (without replacement until exhausted): uniform coverage of constructors."""
        d = self._decks.get(deck_name)
        if not d:
            d = list(options)
            self.r.shuffle(d)
            self._decks[deck_name] = d
        return d.pop()

    def name(self):
        return self.r.choice(NAMES)

    def Name(self, ctx=None):
        return ast.Name(id=self.name(), ctx=ctx or ast.Load())

    def some(self, fn, lo, hi, *a, **kw):
        return [fn(*a, **kw) for _ in range(self.r.randint(lo, hi))]

    # ------------------------------------------------------------------ constants
    def constant(self, kinds=("int", "float", "complex", "str", "bytes", "name", "ellipsis")):
        k = self.pick("const:" + ",".join(kinds), kinds)
        r = self.r
        if k == "int":
            return ast.Constant(value=r.choice(INTS))
        if k == "float":
            return ast.Constant(value=r.choice(FLOATS))
        if k == "complex":
            return ast.Constant(value=r.choice(IMAGS))
        if k == "str":
            if r.random() < 0.03:
                return ast.Constant(value=r.choice(HASH_STRS))
            return ast.Constant(value=r.choice(STRS), kind="u" if r.random() < 0.05 else None)
        if k == "bytes":
            return ast.Constant(value=r.choice(BYTES))
        if k == "name":
            return ast.Constant(value=r.choice([None, True, False]))
        return ast.Constant(value=...)

    # ------------------------------------------------------------------ expressions
    EXPRS = ["BoolOp", "NamedExpr", "BinOp", "UnaryOp", "Lambda", "IfExp", "Dict", "Set", "ListComp", "SetComp",
             "DictComp", "GeneratorExp", "Await", "Yield", "YieldFrom", "Compare", "Call", "JoinedStr", "Constant",
             "Attribute", "Subscript", "Starred", "Name", "List", "Tuple", "Slice"]

    def expr(self, sc, depth=0, safe=False, kind=None):
        """safe: no walrus / yield / await (annotation scopes, comprehension iterables, defaults, decorators)."""
        r = self.r
        if depth >= self.max_e:
            kind = kind or r.choice(["Name", "Constant", "Name", "Attribute"])
        kind = kind or self.pick("expr", self.EXPRS)
        d = depth + 1
        E = lambda **kw: self.expr(sc, d, safe, **kw)  # noqa: E731
        if kind == "Name":
            return self.Name()
        if kind == "Constant":
            return self.constant()
        if kind == "Attribute":
            v = E() if depth + 1 < self.max_e else self.Name()
            return ast.Attribute(value=v, attr=r.choice(ATTRS), ctx=ast.Load())
        if kind == "BoolOp":
            return ast.BoolOp(op=self.pick("boolop", BOOLOPS)(), values=self.some(E, 2, 3))
        if kind == "NamedExpr":
            if safe or sc.cls:
                return E(kind="BinOp")
            return ast.NamedExpr(target=ast.Name(id=self.fresh("w"), ctx=ast.Store()), value=E())
        if kind == "BinOp":
            return ast.BinOp(left=E(), op=self.pick("binop", BINOPS)(), right=E())
        if kind == "UnaryOp":
            return ast.UnaryOp(op=self.pick("unop", UNOPS)(), operand=E())
        if kind == "Lambda":
            inner = sc.but(func=True, is_async=False, loop=False, cls=False, module=False)
            return ast.Lambda(args=self.arguments(sc, annotations=False, depth=d),
                              body=self.expr(inner, d, True))
        if kind == "IfExp":
            return ast.IfExp(test=E(), body=E(), orelse=E())
        if kind == "Dict":
            keys, vals = [], []
            for _ in range(r.randint(0, 3)):
                keys.append(None if r.random() < 0.25 else E())
                vals.append(E())
            return ast.Dict(keys=keys, values=vals)
        if kind == "Set":
            return ast.Set(elts=[self.maybe_starred(sc, d, safe) for _ in range(r.randint(1, 3))])
        if kind in ("ListComp", "SetComp", "GeneratorExp"):
            gens = self.generators(sc, d)
            elt = self.expr(sc, d, True)
            return getattr(ast, kind)(elt=elt, generators=gens)
        if kind == "DictComp":
            gens = self.generators(sc, d)
            return ast.DictComp(key=self.expr(sc, d, True), value=self.expr(sc, d, True), generators=gens)
        if kind == "Await":
            if safe or not (sc.func and sc.is_async):
                return E(kind="Call")
            return ast.Await(value=self.expr(sc, d, True))
        if kind == "Yield":
            if safe or not sc.func or sc.cls:
                return E(kind="Compare")
            return ast.Yield(value=None if r.random() < 0.3 else self.expr(sc, d, True))
        if kind == "YieldFrom":
            if safe or not sc.func or sc.is_async or sc.cls:
                return E(kind="Subscript")
            return ast.YieldFrom(value=self.expr(sc, d, True))
        if kind == "Compare":
            n = r.randint(1, 3)
            return ast.Compare(left=E(), ops=[self.pick("cmpop", CMPOPS)() for _ in range(n)],
                               comparators=[E() for _ in range(n)])
        if kind == "Call":
            args = [self.maybe_starred(sc, d, safe, p=0.2) for _ in range(r.randint(0, 3))]
            kws, used = [], set()
            for _ in range(r.randint(0, 3)):
                if r.random() < 0.3:
                    kws.append(ast.keyword(arg=None, value=E()))
                else:
                    k = self.name()
                    if k in used:
                        continue
                    used.add(k)
                    kws.append(ast.keyword(arg=k, value=E()))
            if r.random() < 0.1 and not args and not kws:
                args = [ast.GeneratorExp(elt=self.expr(sc, d, True), generators=self.generators(sc, d))]
            return ast.Call(func=E() if r.random() < 0.5 else self.Name(), args=args, keywords=kws)
        if kind == "JoinedStr":
            return self.joinedstr(sc, d)
        if kind == "Subscript":
            return ast.Subscript(value=E(), slice=self.slice_(sc, d, safe), ctx=ast.Load())
        if kind == "Slice":  # only legal inside a subscript
            return ast.Subscript(value=self.Name(), slice=self.slice_(sc, d, safe, force="Slice"), ctx=ast.Load())
        if kind == "Starred":  # only legal inside a display / call
            return ast.List(elts=[ast.Starred(value=E(), ctx=ast.Load())] + self.some(E, 0, 2), ctx=ast.Load())
        if kind == "List":
            return ast.List(elts=[self.maybe_starred(sc, d, safe) for _ in range(r.randint(0, 3))], ctx=ast.Load())
        if kind == "Tuple":
            return ast.Tuple(elts=[self.maybe_starred(sc, d, safe) for _ in range(r.choice([0, 1, 1, 2, 3]))], ctx=ast.Load())
        raise AssertionError(kind)

    def maybe_starred(self, sc, d, safe, p=0.15):
        e = self.expr(sc, d, safe)
        if self.r.random() < p:
            return ast.Starred(value=e, ctx=ast.Load())
        return e

    def slice_(self, sc, d, safe, force=None):
        r = self.r

        def one():
            o = lambda: None if r.random() < 0.4 else self.expr(sc, d, safe)  # noqa: E731
            return ast.Slice(lower=o(), upper=o(), step=o())
        k = force or self.pick("slice", ["Slice", "expr", "tuple", "tuple-slices", "starred"])
        if k == "Slice":
            return one()
        if k == "expr":
            return self.expr(sc, d, safe)
        if k == "tuple":
            return ast.Tuple(elts=self.some(self.expr, 1, 3, sc, d, safe), ctx=ast.Load())
        if k == "starred":
            return ast.Tuple(elts=[ast.Starred(value=self.Name(), ctx=ast.Load())] + self.some(self.expr, 0, 1, sc, d, safe),
                             ctx=ast.Load())
        return ast.Tuple(elts=[one() if r.random() < 0.6 else self.expr(sc, d, safe) for _ in range(r.randint(2, 3))],
                         ctx=ast.Load())

    def generators(self, sc, d):
        r = self.r
        gens = []
        for i in range(r.choice([1, 1, 2])):
            is_async = int(bool(sc.func and sc.is_async and r.random() < 0.3))
            gens.append(ast.comprehension(target=self.target(sc, d, names_only=True), iter=self.expr(sc, d, True),
                                          ifs=self.some(self.expr, 0, 2, sc, d, True), is_async=is_async))
        return gens

    def joinedstr(self, sc, d):
        r = self.r
        vals = []
        for _ in range(r.randint(1, 4)):
            if r.random() < 0.4:
                vals.append(ast.Constant(value=r.choice(["s", "a b", "{", "}", "{}", "it's", 'q"', "x=", "a{b}c", "(", "# " if r.random() < 0.05 else "-"])))
            else:
                vals.append(self.formatted(sc, d))
        if not any(isinstance(v, ast.FormattedValue) for v in vals):
            vals.append(self.formatted(sc, d))
        # ast.unparse merges nothing: adjacent constants are fine for it
        return ast.JoinedStr(values=vals)

    def formatted(self, sc, d, nested=0):
        r = self.r
        kind = r.choice(["Name", "Attribute", "Call", "Subscript", "BinOp", "Constant", "IfExp", "Dict", "JoinedStr", "Tuple"])
        if kind == "Constant":
            val = ast.Constant(value=r.choice(["q", "it's", 'd"q', 3, 2.5]))
        elif kind == "JoinedStr" and nested < 1 and d < self.max_e:
            val = ast.JoinedStr(values=[self.formatted(sc, d + 1, nested + 1)])
        elif kind == "JoinedStr":
            val = self.Name()
        else:
            val = self.expr(sc, max(d, self.max_e - 1), True, kind=kind)
        spec = None
        if r.random() < 0.4:
            parts = [ast.Constant(value=r.choice([">10", "^", ".2f", "x", "<{w}".replace("{w}", ""), "%Y-%m", "08.3f", "#x", ","]))]
            if r.random() < 0.4 and nested < 1:
                parts.append(ast.FormattedValue(value=self.Name(), conversion=-1, format_spec=None))
                if r.random() < 0.5:
                    parts.append(ast.Constant(value=r.choice(["d", ".3", "s"])))
            spec = ast.JoinedStr(values=parts)
        return ast.FormattedValue(value=val, conversion=r.choice([-1, -1, -1, 115, 114, 97]), format_spec=spec)

    # ------------------------------------------------------------------ targets
    def target(self, sc, d=0, names_only=False, allow_star=True, fresh=False):
        r = self.r
        k = r.choice(["Name", "Name", "Name", "Tuple", "List"] if names_only
                     else ["Name", "Name", "Attribute", "Subscript", "Tuple", "List"])
        if d >= self.max_e:
            k = "Name"
        if k == "Name":
            return ast.Name(id=self.fresh("t") if fresh else self.name(), ctx=ast.Store())
        if k == "Attribute":
            return ast.Attribute(value=self.expr(sc, d + 1, True), attr=r.choice(ATTRS), ctx=ast.Store())
        if k == "Subscript":
            return ast.Subscript(value=self.expr(sc, d + 1, True), slice=self.slice_(sc, d + 1, True), ctx=ast.Store())
        n = r.randint(1, 3)
        elts = [self.target(sc, d + 1, names_only, False, fresh) for _ in range(n)]
        if allow_star and r.random() < 0.3:
            i = r.randrange(n)
            elts[i] = ast.Starred(value=self.target(sc, d + 1, names_only, False, fresh), ctx=ast.Store())
        return (ast.Tuple if k == "Tuple" else ast.List)(elts=elts, ctx=ast.Store())

    def del_target(self, sc):
        r = self.r
        k = r.choice(["Name", "Attribute", "Subscript", "Tuple"])
        if k == "Name":
            return ast.Name(id=self.name(), ctx=ast.Del())
        if k == "Attribute":
            return ast.Attribute(value=self.Name(), attr=r.choice(ATTRS), ctx=ast.Del())
        if k == "Subscript":
            return ast.Subscript(value=self.Name(), slice=self.slice_(sc, 2, True), ctx=ast.Del())
        return ast.Tuple(elts=[ast.Name(id=self.name(), ctx=ast.Del()) for _ in range(r.randint(1, 2))], ctx=ast.Del())

    # ------------------------------------------------------------------ arguments
    def arguments(self, sc, annotations=True, depth=1, prefix_self=False):
        r = self.r
        used = set()

        def arg(stem=None):
            n = self.name()
            while n in used:
                n = self.fresh("p")
            used.add(n)
            ann = self.expr(sc, depth + 1, True) if annotations and r.random() < 0.4 else None
            return ast.arg(arg=n, annotation=ann)
        posonly = [arg() for _ in range(r.choice([0, 0, 0, 1, 2]))]
        args = [arg() for _ in range(r.choice([0, 1, 2, 3]))]
        npos = len(posonly) + len(args)
        ndef = r.randint(0, npos)
        defaults = [self.expr(sc, depth + 1, True) for _ in range(ndef)]
        vararg = arg() if r.random() < 0.35 else None
        kwonly = [arg() for _ in range(r.choice([0, 0, 1, 2]))]
        kw_defaults = [None if r.random() < 0.4 else self.expr(sc, depth + 1, True) for _ in kwonly]
        kwarg = arg() if r.random() < 0.35 else None
        return ast.arguments(posonlyargs=posonly, args=args, vararg=vararg, kwonlyargs=kwonly,
                             kw_defaults=kw_defaults, kwarg=kwarg, defaults=defaults)

    def type_params(self, sc):
        r = self.r
        out = []
        for _ in range(r.randint(1, 3)):
            k = self.pick("type_param", ["TypeVar", "TypeVar-bound", "TypeVar-constraints", "ParamSpec", "TypeVarTuple"])
            n = self.fresh("T")
            if k == "TypeVar":
                out.append(ast.TypeVar(name=n, bound=None))
            elif k == "TypeVar-bound":
                out.append(ast.TypeVar(name=n, bound=self.type_expr()))
            elif k == "TypeVar-constraints":
                out.append(ast.TypeVar(name=n, bound=ast.Tuple(elts=[self.type_expr(), self.type_expr()], ctx=ast.Load())))
            elif k == "ParamSpec":
                out.append(ast.ParamSpec(name=n))
            else:
                out.append(ast.TypeVarTuple(name=n))
        return out

    def type_expr(self):
        r = self.r
        k = r.choice(["Name", "Subscript", "BinOp", "Attribute", "Constant"])
        if k == "Name":
            return ast.Name(id=r.choice(["int", "str", "T", "list"]), ctx=ast.Load())
        if k == "Subscript":
            return ast.Subscript(value=ast.Name(id=r.choice(["list", "dict", "Callable"]), ctx=ast.Load()),
                                 slice=ast.Name(id="int", ctx=ast.Load()), ctx=ast.Load())
        if k == "BinOp":
            return ast.BinOp(left=ast.Name(id="int", ctx=ast.Load()), op=ast.BitOr(), right=ast.Constant(value=None))
        if k == "Attribute":
            return ast.Attribute(value=ast.Name(id="typing", ctx=ast.Load()), attr="Any", ctx=ast.Load())
        return ast.Constant(value="Forward")

    # ------------------------------------------------------------------ patterns
    PATTERNS = ["MatchValue", "MatchSingleton", "MatchSequence", "MatchMapping", "MatchClass", "MatchAs-capture",
                "MatchAs-wildcard", "MatchAs-as", "MatchOr", "MatchSequence-star"]

    def pattern(self, d=0, refutable_only=False, binding=True):
        r = self.r
        k = self.pick("pattern", self.PATTERNS)
        if d >= 2 and k in ("MatchSequence", "MatchMapping", "MatchClass", "MatchOr", "MatchSequence-star", "MatchAs-as"):
            k = "MatchValue"
        if not binding and k in ("MatchAs-capture", "MatchAs-as", "MatchSequence-star", "MatchMapping", "MatchSequence",
                                 "MatchClass"):
            k = r.choice(["MatchValue", "MatchSingleton"])
        if refutable_only and k in ("MatchAs-capture", "MatchAs-wildcard"):
            k = "MatchValue"
        if k == "MatchValue":
            return ast.MatchValue(value=self.pattern_value())
        if k == "MatchSingleton":
            return ast.MatchSingleton(value=r.choice([None, True, False]))
        if k in ("MatchSequence", "MatchSequence-star"):
            pats = [self.pattern(d + 1) for _ in range(r.randint(0, 3))]
            if k.endswith("star"):
                pats.insert(r.randint(0, len(pats)), ast.MatchStar(name=None if r.random() < 0.3 else self.fresh("c")))
            return ast.MatchSequence(patterns=pats)
        if k == "MatchMapping":
            n = r.randint(0, 2)
            keys = []
            for i in range(n):
                keys.append(ast.Constant(value=f"k{i}") if r.random() < 0.7 else
                            ast.Attribute(value=ast.Name(id="K", ctx=ast.Load()), attr=f"k{i}", ctx=ast.Load()))
            return ast.MatchMapping(keys=keys, patterns=[self.pattern(d + 1) for _ in range(n)],
                                    rest=self.fresh("c") if r.random() < 0.4 else None)
        if k == "MatchClass":
            cls = ast.Name(id=r.choice(["Point", "str", "int"]), ctx=ast.Load())
            if r.random() < 0.3:
                cls = ast.Attribute(value=ast.Name(id="m", ctx=ast.Load()), attr="Cls", ctx=ast.Load())
            nk = r.randint(0, 2)
            return ast.MatchClass(cls=cls, patterns=[self.pattern(d + 1) for _ in range(r.randint(0, 2))],
                                  kwd_attrs=[f"at{i}" for i in range(nk)],
                                  kwd_patterns=[self.pattern(d + 1) for _ in range(nk)])
        if k == "MatchAs-capture":
            return ast.MatchAs(pattern=None, name=self.fresh("c"))
        if k == "MatchAs-wildcard":
            return ast.MatchAs(pattern=None, name=None)
        if k == "MatchAs-as":
            return ast.MatchAs(pattern=self.pattern(d + 1, refutable_only=True), name=self.fresh("c"))
        if k == "MatchOr":
            return ast.MatchOr(patterns=[self.pattern(d + 1, True, binding=False) for _ in range(r.randint(2, 3))])
        raise AssertionError(k)

    def pattern_value(self):
        r = self.r
        k = r.choice(["int", "str", "neg", "complex", "attr", "bytes", "float"])
        if k == "int":
            return ast.Constant(value=r.choice(INTS))
        if k == "float":
            return ast.Constant(value=r.choice(FLOATS))
        if k == "str":
            return ast.Constant(value=r.choice(STRS))
        if k == "bytes":
            return ast.Constant(value=r.choice(BYTES))
        if k == "neg":
            return ast.UnaryOp(op=ast.USub(), operand=ast.Constant(value=r.choice([1, 2.5])))
        if k == "complex":
            return ast.BinOp(left=ast.Constant(value=1), op=r.choice([ast.Add, ast.Sub])(), right=ast.Constant(value=2j))
        return ast.Attribute(value=ast.Name(id=r.choice(["Color", "m"]), ctx=ast.Load()), attr=r.choice(ATTRS), ctx=ast.Load())

    # ------------------------------------------------------------------ statements
    STMTS = ["FunctionDef", "AsyncFunctionDef", "ClassDef", "Return", "Delete", "Assign", "TypeAlias", "AugAssign",
             "AnnAssign", "For", "AsyncFor", "While", "If", "If-elif", "With", "AsyncWith", "Match", "Raise", "Try",
             "Try-finally", "TryStar", "Assert", "Import", "ImportFrom", "Global", "Nonlocal", "Expr", "Pass", "Break",
             "Continue", "Expr-doc", "Assign-multi", "generic-def", "generic-class"]

    def body(self, sc, depth, lo=1, hi=3):
        return [self.stmt(sc, depth) for _ in range(self.r.randint(lo, hi))]

    def simple_body(self, sc):
        r = self.r
        out = []
        for _ in range(r.randint(1, 2)):
            k = r.choice(["Pass", "Expr", "Assign"])
            out.append(self.stmt(sc.but(no_flow=True), self.max_s, kind=k))
        return out

    def stmt(self, sc, depth=0, kind=None):
        r = self.r
        if kind is None:
            kind = self.pick("stmt", self.STMTS)
            if depth >= self.max_s and kind in ("FunctionDef", "AsyncFunctionDef", "ClassDef", "For", "AsyncFor", "While",
                                                 "If", "If-elif", "With", "AsyncWith", "Match", "Try", "Try-finally",
                                                 "TryStar", "Nonlocal", "generic-def", "generic-class"):
                kind = r.choice(["Assign", "Expr", "AugAssign", "Pass", "Return", "Assert"])
        d = depth + 1
        X = lambda safe=False: self.expr(sc, 0, safe)  # noqa: E731
        if kind in ("FunctionDef", "AsyncFunctionDef", "generic-def"):
            is_async = kind == "AsyncFunctionDef" or (kind == "generic-def" and r.random() < 0.3)
            inner = _Scope(func=True, is_async=is_async, loop=False, cls=False, module=False)
            generic = kind == "generic-def"
            tps = self.type_params(sc) if generic else []
            decs = [] if r.random() < 0.6 else self.some(self.expr, 1, 2, sc, 1, True)
            body = []
            if r.random() < 0.3:
                body.append(ast.Expr(value=ast.Constant(value=r.choice(["Doc string.", "Multi\nline doc\n"]))))
            body += self.body(inner, d, 1, 3)
            cls = ast.AsyncFunctionDef if is_async else ast.FunctionDef
            return cls(name=self.fresh("fn") if r.random() < 0.5 else self.name(),
                       args=self.arguments(sc if not generic else sc, annotations=True),
                       body=body, decorator_list=decs,
                       returns=self.expr(sc, 1, True) if r.random() < 0.4 else None, type_comment=None, type_params=tps)
        if kind in ("ClassDef", "generic-class"):
            inner = _Scope(func=False, is_async=False, loop=False, cls=True, module=False)
            tps = self.type_params(sc) if kind == "generic-class" else []
            bases = self.some(self.expr, 0, 2, sc, 1, True)
            if r.random() < 0.2:
                bases.append(ast.Starred(value=self.Name(), ctx=ast.Load()))
            kws = []
            if r.random() < 0.4:
                kws.append(ast.keyword(arg="metaclass", value=self.Name()))
            if r.random() < 0.2:
                kws.append(ast.keyword(arg=None, value=self.Name()))
            decs = [] if r.random() < 0.7 else self.some(self.expr, 1, 2, sc, 1, True)
            return ast.ClassDef(name=self.fresh("Cls") if r.random() < 0.5 else self.name(), bases=bases, keywords=kws,
                                body=self.body(inner, d, 1, 3), decorator_list=decs, type_params=tps)
        if kind == "Return":
            if not sc.func or sc.cls or sc.no_flow:
                return self.stmt(sc, depth, "Expr")
            if sc.is_async or r.random() < 0.25:
                return ast.Return(value=None)
            v = X(True)
            if r.random() < 0.2:
                v = ast.Tuple(elts=[ast.Starred(value=self.Name(), ctx=ast.Load()), X(True)], ctx=ast.Load())
            return ast.Return(value=v)
        if kind == "Delete":
            return ast.Delete(targets=[self.del_target(sc) for _ in range(r.randint(1, 3))])
        if kind in ("Assign", "Assign-multi"):
            n = 1 if kind == "Assign" else r.randint(2, 3)
            v = X()
            if r.random() < 0.15:
                v = ast.Tuple(elts=[X(True) for _ in range(r.choice([1, 2]))], ctx=ast.Load())
            return ast.Assign(targets=[self.target(sc) for _ in range(n)], value=v, type_comment=None)
        if kind == "TypeAlias":
            return ast.TypeAlias(name=ast.Name(id=self.fresh("Alias"), ctx=ast.Store()),
                                 type_params=self.type_params(sc) if r.random() < 0.5 else [], value=self.type_expr())
        if kind == "AugAssign":
            t = self.target(sc, self.max_e - 1)
            if isinstance(t, (ast.Tuple, ast.List)):
                t = ast.Name(id=self.name(), ctx=ast.Store())
            return ast.AugAssign(target=t, op=self.pick("augop", BINOPS)(), value=X())
        if kind == "AnnAssign":
            k = r.choice(["name", "name", "attr", "sub", "paren"])
            if k in ("name", "paren"):
                t = ast.Name(id=self.fresh("an"), ctx=ast.Store())
            elif k == "attr":
                t = ast.Attribute(value=self.Name(), attr=r.choice(ATTRS), ctx=ast.Store())
            else:
                t = ast.Subscript(value=self.Name(), slice=self.expr(sc, 2, True), ctx=ast.Store())
            return ast.AnnAssign(target=t, annotation=self.expr(sc, 1, True),
                                 value=X(True) if r.random() < 0.6 else None, simple=int(k == "name"))
        if kind in ("For", "AsyncFor"):
            if kind == "AsyncFor" and not (sc.func and sc.is_async):
                kind = "For"
            it = X(True)
            if r.random() < 0.15:
                it = ast.Tuple(elts=[ast.Starred(value=self.Name(), ctx=ast.Load()), X(True)], ctx=ast.Load())
            return getattr(ast, kind)(target=self.target(sc), iter=it, body=self.body(sc.but(loop=True), d),
                                      orelse=self.body(sc, d, 1, 2) if r.random() < 0.3 else [], type_comment=None)
        if kind == "While":
            return ast.While(test=X(), body=self.body(sc.but(loop=True), d),
                             orelse=self.body(sc, d, 1, 2) if r.random() < 0.3 else [])
        if kind == "If":
            return ast.If(test=X(), body=self.body(sc, d), orelse=self.body(sc, d, 1, 2) if r.random() < 0.5 else [])
        if kind == "If-elif":
            node = ast.If(test=X(), body=self.body(sc, d, 1, 2), orelse=self.body(sc, d, 1, 1) if r.random() < 0.5 else [])
            for _ in range(r.randint(1, 2)):
                node = ast.If(test=X(), body=self.body(sc, d, 1, 2), orelse=[node])
            return node
        if kind in ("With", "AsyncWith"):
            if kind == "AsyncWith" and not (sc.func and sc.is_async):
                kind = "With"
            items = [ast.withitem(context_expr=X(True), optional_vars=self.target(sc, 1, allow_star=False) if r.random() < 0.6 else None)
                     for _ in range(r.randint(1, 3))]
            return getattr(ast, kind)(items=items, body=self.body(sc, d), type_comment=None)
        if kind == "Match":
            ncase = r.randint(1, 4)
            cases = []
            for i in range(ncase):
                last = i == ncase - 1
                guard = X(True) if r.random() < 0.3 else None
                cases.append(ast.match_case(pattern=self.pattern(0, refutable_only=not last or guard is not None),
                                            guard=guard, body=self.body(sc, d, 1, 2)))
            subj = X(True)
            if r.random() < 0.2:
                subj = ast.Tuple(elts=[X(True), X(True)], ctx=ast.Load())
            return ast.Match(subject=subj, cases=cases)
        if kind == "Raise":
            exc = X(True) if r.random() < 0.8 else None
            return ast.Raise(exc=exc, cause=X(True) if exc is not None and r.random() < 0.4 else None)
        if kind in ("Try", "Try-finally"):
            handlers = []
            nh = r.randint(0 if kind == "Try-finally" else 1, 3)
            for i in range(nh):
                bare = i == nh - 1 and r.random() < 0.3
                typ = None if bare else (X(True) if r.random() < 0.7 else
                                         ast.Tuple(elts=[self.Name(), self.Name()], ctx=ast.Load()))
                handlers.append(ast.ExceptHandler(type=typ, name=self.name() if typ is not None and r.random() < 0.5 else None,
                                                  body=self.body(sc, d, 1, 2)))
            return ast.Try(body=self.body(sc, d, 1, 2), handlers=handlers,
                           orelse=self.body(sc, d, 1, 1) if handlers and r.random() < 0.3 else [],
                           finalbody=self.body(sc, d, 1, 2) if kind == "Try-finally" or r.random() < 0.2 else [])
        if kind == "TryStar":
            handlers = [ast.ExceptHandler(type=X(True), name=self.name() if r.random() < 0.5 else None,
                                          body=self.simple_body(sc)) for _ in range(r.randint(1, 2))]
            return ast.TryStar(body=self.body(sc, d, 1, 2), handlers=handlers,
                               orelse=self.simple_body(sc) if r.random() < 0.3 else [],
                               finalbody=self.simple_body(sc) if r.random() < 0.3 else [])
        if kind == "Assert":
            return ast.Assert(test=X(), msg=X(True) if r.random() < 0.5 else None)
        if kind == "Import":
            return ast.Import(names=[ast.alias(name=r.choice(MODS), asname=self.name() if r.random() < 0.4 else None)
                                     for _ in range(r.randint(1, 3))])
        if kind == "ImportFrom":
            level = r.choice([0, 0, 1, 2, 3])
            module = r.choice(MODS) if level == 0 or r.random() < 0.6 else None
            if sc.module and r.random() < 0.15:
                names = [ast.alias(name="*", asname=None)]
            else:
                names = [ast.alias(name=self.name(), asname=self.name() if r.random() < 0.4 else None)
                         for _ in range(r.randint(1, 3))]
            return ast.ImportFrom(module=module, names=names, level=level)
        if kind == "Global":
            # fresh names: a global statement must precede every use of the name in its scope
            return ast.Global(names=[self.fresh("g") for _ in range(r.randint(1, 2))]) if not sc.module or True else None
        if kind == "Nonlocal":
            nl = self.fresh("nl")
            inner_sc = _Scope(func=True, module=False)
            inner = ast.FunctionDef(name=self.fresh("inner"), args=self.arguments(sc, annotations=False),
                                    body=[ast.Nonlocal(names=[nl]),
                                          ast.Assign(targets=[ast.Name(id=nl, ctx=ast.Store())], value=X(True), type_comment=None)]
                                    + self.body(inner_sc, self.max_s, 0, 1),
                                    decorator_list=[], returns=None, type_comment=None, type_params=[])
            return ast.FunctionDef(name=self.fresh("outer"), args=ast.arguments(posonlyargs=[], args=[], vararg=None,
                                   kwonlyargs=[], kw_defaults=[], kwarg=None, defaults=[]),
                                   body=[ast.Assign(targets=[ast.Name(id=nl, ctx=ast.Store())], value=ast.Constant(value=0), type_comment=None),
                                         inner], decorator_list=[], returns=None, type_comment=None, type_params=[])
        if kind == "Expr":
            return ast.Expr(value=X())
        if kind == "Expr-doc":
            return ast.Expr(value=ast.Constant(value=r.choice(STRS)))
        if kind == "Pass":
            return ast.Pass()
        if kind in ("Break", "Continue"):
            if not sc.loop or sc.no_flow:
                return ast.Pass()
            return ast.Break() if kind == "Break" else ast.Continue()
        raise AssertionError(kind)


def random_module(rnd, n_stmts=None):
    g = Gen(rnd, max_expr_depth=rnd.choice([1, 2, 2, 2, 3]), max_stmt_depth=rnd.choice([1, 2, 3]))
    n = n_stmts or rnd.randint(4, 10)
    sc = _Scope()
    body = [g.stmt(sc, 0) for _ in range(n)]
    return ast.Module(body=body, type_ignores=[])


def coverage_module(rnd):
    """Every statement kind once at module level, inside a function, an async function and a loop; every
    expression kind once in a plain and once in an async-function context; every pattern kind."""
    g = Gen(rnd)
    sc = _Scope()
    body = []
    for k in Gen.STMTS:
        body.append(g.stmt(sc, 1, kind=k))
    fsc = _Scope(func=True, module=False)
    asc = _Scope(func=True, is_async=True, module=False)
    noargs = lambda: ast.arguments(posonlyargs=[], args=[], vararg=None, kwonlyargs=[], kw_defaults=[], kwarg=None, defaults=[])  # noqa: E731
    fbody = [ast.Expr(value=g.expr(fsc, 1, False, kind=k)) for k in Gen.EXPRS if k != "Await"]
    fbody += [ast.While(test=g.Name(), body=[g.stmt(fsc.but(loop=True), 2, kind=k) for k in ("Break", "Continue", "Return")], orelse=[])]
    body.append(ast.FunctionDef(name="cov_sync", args=noargs(), body=fbody, decorator_list=[], returns=None,
                                type_comment=None, type_params=[]))
    abody = [ast.Expr(value=g.expr(asc, 1, False, kind=k)) for k in ("Await", "Yield", "ListComp", "GeneratorExp", "DictComp")]
    abody += [g.stmt(asc, 2, kind=k) for k in ("AsyncFor", "AsyncWith", "Return")]
    abody.append(ast.Expr(value=ast.ListComp(elt=g.Name(), generators=[ast.comprehension(
        target=ast.Name(id="i", ctx=ast.Store()), iter=g.Name(), ifs=[], is_async=1)])))
    body.append(ast.AsyncFunctionDef(name="cov_async", args=noargs(), body=abody, decorator_list=[], returns=None,
                                     type_comment=None, type_params=[]))
    cases = []
    for k in Gen.PATTERNS:
        g._decks["pattern"] = [k]
        refutable = k not in ("MatchAs-capture", "MatchAs-wildcard")
        if refutable:
            cases.append(ast.match_case(pattern=g.pattern(0, refutable_only=True), guard=None, body=[ast.Pass()]))
    g._decks["pattern"] = ["MatchAs-capture"]
    cases.append(ast.match_case(pattern=g.pattern(0), guard=g.Name(), body=[ast.Pass()]))
    g._decks["pattern"] = ["MatchAs-wildcard"]
    cases.append(ast.match_case(pattern=g.pattern(0), guard=None, body=[ast.Pass()]))
    body.append(ast.Match(subject=g.Name(), cases=cases))
    return ast.Module(body=body, type_ignores=[])


def _unparse(tree):
    return ast.unparse(ast.fix_missing_locations(tree)) + "\n"


def random_module_source(rnd, n_stmts=None):
    return _unparse(random_module(rnd, n_stmts))


def coverage_module_source(rnd):
    return _unparse(coverage_module(rnd))


def valid_statements_source(src):
    """Keeps only the top-level statements of `src` that compile() on their own (a generated module with one
    statement violating a rule not modelled by the generator is still useful)."""
    try:
        tree = ast.parse(src)
    except (SyntaxError, ValueError, RecursionError):
        return None
    keep = []
    for st in tree.body:
        text = ast.unparse(st) + "\n"
        try:
            compile(text, "<astgen>", "exec", dont_inherit=True)
        except (SyntaxError, ValueError, RecursionError, MemoryError, OverflowError):
            continue
        keep.append(text)
    return "".join(keep) if keep else None
