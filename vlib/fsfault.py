"""Counting / failing FileSystemCommands (rope's pluggable file-system layer) and a
TaskHandle observer that stops the handle at the k-th notification."""
import errno

from rope.base import fscommands, taskhandle


class InjectedFault(OSError):
    pass


class FaultyCommands(fscommands.FileSystemCommands):
    """Counts every file-system operation rope issues; optionally raises before the k-th.

    The fault is raised *before* the operation has any effect (the single-fault model:
    an operation either happens completely or raises without effect)."""

    MUTATING = ("create_file", "create_folder", "move", "remove", "write")

    def __init__(self, fail_at=None, count_reads=False, exc=None):
        self.fail_at = fail_at
        self.count_reads = count_reads
        self.n = 0
        self.log = []
        self.armed = False
        self.fired = False
        self.exc = exc

    def arm(self, fail_at=None):
        self.n = 0
        self.log = []
        self.armed = True
        self.fired = False
        self.fail_at = fail_at

    def disarm(self):
        self.armed = False

    def _tick(self, op, *paths):
        if not self.armed:
            return
        self.n += 1
        self.log.append((op,) + paths)
        if self.fail_at is not None and self.n == self.fail_at and not self.fired:
            self.fired = True
            raise (self.exc or InjectedFault)(errno.EIO, f"injected fault at op {self.n} ({op})")

    def create_file(self, path):
        self._tick("create_file", path)
        super().create_file(path)

    def create_folder(self, path):
        self._tick("create_folder", path)
        super().create_folder(path)

    def move(self, path, new_location):
        self._tick("move", path, new_location)
        super().move(path, new_location)

    def remove(self, path):
        self._tick("remove", path)
        super().remove(path)

    def write(self, path, data):
        self._tick("write", path)
        super().write(path, data)

    def read(self, path):
        if self.count_reads:
            self._tick("read", path)
        return super().read(path)


class StopAt:
    """TaskHandle observer: stop the handle at the k-th notification (job boundary)."""

    def __init__(self, k=None):
        self.handle = taskhandle.TaskHandle("verif")
        self.k = k
        self.n = 0
        self.stopped_at = None
        self.handle.add_observer(self)

    def __call__(self):
        if self.handle.is_stopped():
            return
        self.n += 1
        if self.k is not None and self.n == self.k:
            self.stopped_at = self.n
            self.handle.stop()
