"""Random change specs over a small tree, a dict-tree reference model, and a builder of
real rope Change objects.  Shared by C10, C11, C12, C18.

Model tree: {path: str (file text) | None (folder)}; the root "" is implicit.
Change spec (JSON-able):
    ["edit", path, text] ["mkfile", parent, name] ["mkdir", parent, name]
    ["move", src, dst] ["remove", path] ["set", description, [children...]]
"""
import os

FILE_NAMES = ["a.py", "b.py", "c.py", "d.txt", "\u00e9.py", "m_1.py"]
DIR_NAMES = ["pkg", "sub", "d2"]
TEXTS = [
    "", "x = 1\n", "def f():\n    return 1\n", "# c\u00f6mment \u4e2d\n", "a = 'b'\nc = a\n",
    "import os\n\n\ndef g(a, b=2):\n    return a + b\n", "no newline at end",
    "line1\nline2\nline3\n", "\u2603 = '\U0001F600'\n", "class C:\n    pass\n", "\n\n\n",
]

INITIAL = {"a.py": "x = 1\n", "b.py": "import a\nprint(a.x)\n", "pkg": None,
           "pkg/__init__.py": "", "pkg/c.py": "def f():\n    return 1\n"}


def parent_of(p):
    return p.rsplit("/", 1)[0] if "/" in p else ""


def join(parent, name):
    return f"{parent}/{name}" if parent else name


def is_dir(tree, p):
    return p == "" or (p in tree and tree[p] is None)


def dirs(tree):
    return [""] + [p for p, v in tree.items() if v is None]


def files(tree):
    return [p for p, v in tree.items() if v is not None]


def under(tree, p):
    return [k for k in tree if k == p or k.startswith(p + "/")]


NEWLINE_AWARE = [False]  # C12: file texts carry their newline convention; edits keep it


def newline_of(text):
    if "\r\n" in text:
        return "\r\n"
    if "\r" in text:
        return "\r"
    return "\n"


def _edit_text(old, new):
    """Text an edit leaves on disk: the file's newline convention is kept (reference codec rule)."""
    if not NEWLINE_AWARE[0]:
        return new
    nl = newline_of(old)
    return new if nl == "\n" else new.replace("\n", nl)


class ModelError(Exception):
    """The model says this change is invalid (rope must then refuse)."""


def apply(tree, spec):
    """Reference semantics of a change; returns a new tree."""
    t = dict(tree)
    kind = spec[0]
    if kind == "edit":
        if t.get(spec[1]) is None:
            raise ModelError("edit of non-file")
        t[spec[1]] = _edit_text(t[spec[1]], spec[2])
    elif kind in ("mkfile", "mkdir"):
        p = join(spec[1], spec[2])
        if not is_dir(t, spec[1]) or p in t:
            raise ModelError("create: exists or no parent")
        t[p] = "" if kind == "mkfile" else None
    elif kind == "move":
        src, dst = spec[1], spec[2]
        if src not in t or dst in t or not is_dir(t, parent_of(dst)) or dst.startswith(src + "/"):
            raise ModelError("invalid move")
        for k in under(tree, src):
            t[dst + k[len(src):]] = t.pop(k)
    elif kind == "remove":
        if spec[1] not in t:
            raise ModelError("remove of missing")
        for k in under(tree, spec[1]):
            del t[k]
    elif kind == "set":
        for c in spec[2]:
            t = apply(t, c)
    else:
        raise ValueError(kind)
    return t


def touched(spec, tree=None):
    """Resource paths the change names (what rope's get_changed_resources returns)."""
    k = spec[0]
    if k == "edit" or k == "remove":
        return {spec[1]}
    if k in ("mkfile", "mkdir"):
        return {join(spec[1], spec[2])}
    if k == "move":
        return {spec[1], spec[2]}
    out = set()
    for c in spec[2]:
        out |= touched(c)
    return out


def leaves(spec):
    if spec[0] == "set":
        out = []
        for c in spec[2]:
            out += leaves(c)
        return out
    return [spec]


def kinds(spec):
    return sorted({l[0] for l in leaves(spec)})


def gen_leaf(rnd, tree, allow_remove=True, texts=TEXTS):
    """One valid leaf change for `tree` (never fails)."""
    for _ in range(50):
        r = rnd.random()
        fs, ds = files(tree), dirs(tree)
        if r < 0.40 and fs:
            p = rnd.choice(fs)
            return ["edit", p, rnd.choice([t for t in texts if t != tree[p]] or texts)]
        if r < 0.55:
            d = rnd.choice(ds)
            n = rnd.choice(FILE_NAMES)
            if join(d, n) not in tree:
                return ["mkfile", d, n]
        elif r < 0.68:
            d = rnd.choice(ds)
            n = rnd.choice(DIR_NAMES)
            if join(d, n) not in tree and join(d, n).count("/") < 3:
                return ["mkdir", d, n]
        elif r < 0.90 and tree:
            src = rnd.choice(sorted(tree))
            d = rnd.choice(ds)
            names = DIR_NAMES if tree[src] is None else FILE_NAMES
            dst = join(d, rnd.choice(names))
            if dst not in tree and not (d == src or d.startswith(src + "/")) and dst.count("/") < 4:
                return ["move", src, dst]
        elif allow_remove and tree:
            return ["remove", rnd.choice(sorted(tree))]
    return ["mkfile", "", "z%d.py" % rnd.randrange(10**6)]


def gen_change(rnd, tree, depth=0, max_leaves=6, allow_remove=True, counter=None, texts=TEXTS):
    """A valid change (leaf or nested set) and the tree after it."""
    counter = counter if counter is not None else [0]
    if depth < 2 and rnd.random() < (0.75 if depth == 0 else 0.3):
        n = rnd.randint(1, 4)
        children = []
        t = tree
        for _ in range(n):
            if counter[0] >= max_leaves:
                break
            # dependent chains: bias the next child to touch what the previous one made
            c, t = gen_change(rnd, t, depth + 1, max_leaves, allow_remove, counter, texts)
            children.append(c)
        if children:
            return ["set", "set-%d" % rnd.randrange(1000), children], t
    counter[0] += 1
    leaf = gen_leaf(rnd, tree, allow_remove, texts)
    return leaf, apply(tree, leaf)


def gen_dependent_chain(rnd, tree, allow_remove=False):
    """create folder -> create file in it -> move a file into it -> edit the moved file."""
    name = next((n for n in ["nd", "nd2", "nd3"] if n not in tree), None)
    if name is None or not files(tree):
        return gen_change(rnd, tree, allow_remove=allow_remove)
    src = rnd.choice(files(tree))
    base = src.rsplit("/", 1)[-1]
    if base == "new.py":
        base = "new2.py"
    steps = [["mkdir", "", name], ["mkfile", name, "new.py"], ["move", src, f"{name}/{base}"],
             ["edit", f"{name}/{base}", "moved = True\n"], ["edit", f"{name}/{base}", "moved = 2\n"]]
    steps = steps[: rnd.randint(2, len(steps))]
    spec = ["set", "chain", steps]
    return spec, apply(tree, spec)


# ---------------------------------------------------------------- real side
def write_tree(root, tree):
    for p in sorted(tree, key=lambda s: (s.count("/"), s)):
        full = os.path.join(root, *p.split("/"))
        if tree[p] is None:
            os.makedirs(full, exist_ok=True)
        else:
            os.makedirs(os.path.dirname(full), exist_ok=True)
            with open(full, "wb") as f:
                f.write(tree[p].encode("utf-8") if isinstance(tree[p], str) else tree[p])


def tree_as_snap(tree):
    """Model tree in treesnap form (utf-8 bytes)."""
    out = {}
    for p, v in tree.items():
        out[p] = ("d",) if v is None else ("f", v.encode("utf-8") if isinstance(v, str) else v)
    return out


def build(project, spec, tree):
    """Real rope Change for `spec`; `tree` = model tree at the time the change is performed
    (tells folder from file for resources that do not exist yet)."""
    from rope.base import change as ch
    k = spec[0]
    if k == "edit":
        return ch.ChangeContents(project.get_file(spec[1]), spec[2])
    if k == "mkfile":
        return ch.CreateFile(project.get_folder(spec[1]), spec[2])
    if k == "mkdir":
        return ch.CreateFolder(project.get_folder(spec[1]), spec[2])
    if k == "move":
        res = project.get_folder(spec[1]) if tree.get(spec[1], "") is None else project.get_file(spec[1])
        return ch.MoveResource(res, spec[2], exact=True)
    if k == "remove":
        res = project.get_folder(spec[1]) if tree.get(spec[1], "") is None else project.get_file(spec[1])
        return ch.RemoveResource(res)
    if k == "set":
        cs = ch.ChangeSet(spec[1])
        t = tree
        for c in spec[2]:
            cs.add_change(build(project, c, t))
            try:
                t = apply(t, c)
            except ModelError:
                pass
        return cs
    raise ValueError(k)
