#!/bin/bash
# Offline setup: nothing to build.  Verifies the interpreter and that rope imports from /repo.
set -e
cd "$(dirname "$0")"
export PIP_NO_INDEX=1
PY="${VERIF_PYTHON:-/venv/bin/python}"
"$PY" -c 'import sys; assert sys.version_info[:2]==(3,12), sys.version'
PYTHONPATH="$(pwd):${ROPE_ROOT:-/repo}" "$PY" -c 'import rope, vlib.core, pytoolconfig; print("rope", rope.VERSION, "from", rope.__file__)'
mkdir -p evidence
echo "setup ok"
