"""Independent reference codec for Python source files (oracle of C16).

Nothing here imports rope.  The reference is Python itself:

* the newline convention is detected on the RAW bytes (every source encoding accepted by the
  interpreter is an ASCII superset in which 0x0A / 0x0D only ever mean LF / CR - this also holds for
  the multi-byte codec shift_jis, whose trail bytes are >= 0x40);
* the declared encoding comes from `tokenize.detect_encoding` (PEP 263 cookie on line 1 or 2, BOM),
  fed with the lines of the detected convention (the interpreter reads source with universal
  newlines; `detect_encoding` only knows `\\n`, so the lines are handed over re-terminated with `\\n`);
* `codecs` does the decoding / encoding.

Model of a file:  bytes  <->  Decoded(text with "\\n" newlines and without BOM, codec, newline, bom).
"""
import codecs
import io
import tokenize

BOM = codecs.BOM_UTF8
NL_BYTES = {"LF": b"\n", "CRLF": b"\r\n", "CR": b"\r"}
NL_STR = {"LF": "\n", "CRLF": "\r\n", "CR": "\r"}


class RefError(Exception):
    """The bytes are outside the reference model (mixed newlines, undecodable, bad cookie)."""


def newline_counts(data):
    crlf = data.count(b"\r\n")
    return {"CRLF": crlf, "CR": data.count(b"\r") - crlf, "LF": data.count(b"\n") - crlf}


def detect_newline(data):
    """'LF' | 'CRLF' | 'CR' | None (no line terminator at all) | 'MIXED'."""
    kinds = [k for k, n in newline_counts(data).items() if n]
    if not kinds:
        return None
    return kinds[0] if len(kinds) == 1 else "MIXED"


def split_lines(data, newline):
    """Lines of `data` including their terminator (the last one may have none); newline may be None."""
    if not data:
        return []
    if newline in (None, "MIXED"):
        return io.BytesIO(data).readlines() if newline == "MIXED" else [data]
    sep = NL_BYTES[newline]
    parts = data.split(sep)
    lines = [p + sep for p in parts[:-1]]
    if parts[-1]:
        lines.append(parts[-1])
    return lines


def detect_encoding(data, newline=None):
    """(codec name as python reports it, bom present).  'utf-8-sig' <=> BOM present."""
    if newline is None:
        newline = detect_newline(data)
    if newline == "MIXED":
        raise RefError("mixed newlines")
    first = split_lines(data, newline)[:2]
    sep = NL_BYTES.get(newline, b"\n")
    it = iter([(l[: -len(sep)] + b"\n") if l.endswith(sep) else l for l in first])

    def readline():
        return next(it, b"")

    try:
        enc, _ = tokenize.detect_encoding(readline)
    except SyntaxError as e:
        raise RefError("cookie: %s" % e)
    return enc, data.startswith(BOM)


class Decoded:
    __slots__ = ("text", "codec", "newline", "bom", "final_newline")

    def __init__(self, text, codec, newline, bom):
        self.text, self.codec, self.newline, self.bom = text, codec, newline, bom
        self.final_newline = text.endswith("\n")

    def replace(self, text):
        return Decoded(text, self.codec, self.newline, self.bom)

    def describe(self):
        return {"codec": self.codec, "newline": self.newline, "bom": self.bom,
                "final_newline": self.final_newline}


def decode(data):
    """Reference decode.  Raises RefError if the bytes are outside the model."""
    newline = detect_newline(data)
    if newline == "MIXED":
        raise RefError("mixed newlines")
    codec, bom = detect_encoding(data, newline)
    try:
        text = codecs.decode(data, codec)      # utf-8-sig strips the BOM
    except (UnicodeDecodeError, LookupError) as e:
        raise RefError("decode: %s" % e)
    if newline in ("CRLF", "CR"):
        text = text.replace(NL_STR[newline], "\n")
    if "\r" in text:
        raise RefError("lone CR in text")
    return Decoded(text, codec, newline, bom)


def encode(text, codec, newline, bom=None):
    """Reference encode of "\\n"-newline text.  `bom` defaults to what the codec implies."""
    if "\r" in text:
        raise RefError("text to encode contains CR")
    if text.startswith("\ufeff"):
        raise RefError("text to encode starts with U+FEFF; strip it and pass bom=True")
    if newline in ("CRLF", "CR"):
        text = text.replace("\n", NL_STR[newline])
    base = "utf-8" if codec == "utf-8-sig" else codec
    if bom is None:
        bom = codec == "utf-8-sig"
    if bom and base != "utf-8":
        raise RefError("BOM with non-UTF-8 codec")
    return (BOM if bom else b"") + codecs.encode(text, base)


def encode_like(dec, text):
    """Bytes a file must have when its text becomes `text` and everything else of `dec` is preserved."""
    return encode(text, dec.codec, dec.newline, dec.bom)


def encodable(text, codec):
    base = "utf-8" if codec == "utf-8-sig" else codec
    try:
        return codecs.decode(codecs.encode(text, base), base) == text
    except UnicodeError:
        return False


def strip_bom_char(text):
    """rope keeps U+FEFF as first character of the text of a BOM file; the model does not."""
    return (text[1:], True) if text.startswith("\ufeff") else (text, False)


# ---------------------------------------------------------------------------------- diagnosis
_CANDIDATES = ("utf-8", "latin-1", "cp1252", "koi8-r", "shift_jis", "iso8859-15")


def _norm_codec(name):
    try:
        return codecs.lookup("utf-8" if name == "utf-8-sig" else name).name
    except LookupError:
        return name


def diagnose(expected, got, dec):
    """Finite-alphabet label of HOW `got` differs from `expected` (both bytes; dec = Decoded the
    expectation was built from).  None if equal.  Labels are joined with '+', fixed order."""
    if expected == got:
        return None
    labels = []
    e, g = expected, got
    if e.startswith(BOM) and g.startswith(BOM + BOM):
        labels.append("bom-doubled")
        g = g[len(BOM):]
    if e.startswith(BOM) and not g.startswith(BOM):
        labels.append("bom-lost")
        e = e[len(BOM):]
    elif g.startswith(BOM) and not e.startswith(BOM):
        labels.append("bom-added")
        g = g[len(BOM):]
    elif e.startswith(BOM):
        e, g = e[len(BOM):], g[len(BOM):]
    if e == g:
        return "+".join(labels)
    ne, ng = detect_newline(e), detect_newline(g)
    if ne != ng and ne is not None:
        if ng == "MIXED":
            labels.append("newline:->mixed")
        elif ng == "LF" or ng is None:
            labels.append("newline:nonLF->LF" if ng == "LF" else "newline:->none")
        else:
            labels.append("newline:->" + str(ng))
        # compare the rest newline-normalised
        e = e.replace(b"\r\n", b"\n").replace(b"\r", b"\n")
        g = g.replace(b"\r\n", b"\n").replace(b"\r", b"\n")
        if e == g:
            return "+".join(labels)
    if e.rstrip(b"\r\n") == g.rstrip(b"\r\n"):
        labels.append("final-newline-added" if len(g) > len(e) else "final-newline-removed")
        return "+".join(labels)
    base = _norm_codec(dec.codec)
    try:
        etext = e.decode(base)
    except UnicodeError:
        etext = None
    if etext is not None:
        for cand in _CANDIDATES:
            c = _norm_codec(cand)
            if c == base:
                continue
            try:
                if g.decode(c) == etext:
                    labels.append("reencoded:->%s" % c)
                    return "+".join(labels)
            except UnicodeError:
                pass
    try:
        gtext = g.decode(base)
    except UnicodeError:
        labels.append("undecodable-in-declared-encoding")
        return "+".join(labels)
    if etext is not None:
        ea = "".join(ch for ch in etext if ord(ch) < 128)
        ga = "".join(ch for ch in gtext if ord(ch) < 128)
        labels.append("non-ascii-text-differs" if ea == ga else "text-differs")
    else:
        labels.append("text-differs")
    return "+".join(labels)
