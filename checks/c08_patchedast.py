"""C08 - the source-annotated syntax tree is lossless and its regions are exact.

Differential check of rope.refactor.patchedast against the interpreter's own parser and
tokenizer on real code, layout-fuzzed variants of it and random programs covering every
node class of the running interpreter's `ast` module.

Per source text (a syntactically valid module):
  (a) patchedast.get_patched_ast(src, True) returns (any exception, RopeError included, refutes);
  (b) patchedast.write_ast(tree) == src;
  (c) every annotated node's region lies inside the region of its nearest annotated ancestor;
  (d) for every node the interpreter gives a position to: the node has a region, the interpreter's
      span (UTF-8 byte columns converted to character offsets) lies inside it, what is left over is
      made of parenthesis / comment / whitespace tokens only (decorators belong to a definition), and
      the region text parsed in the node's syntactic category is structurally equal to the node.
      Position-less nodes that rope annotates (arguments, comprehension, match_case) must contain
      the spans of their children and re-parse in their category as well.
"""
import ast
import bisect
import io
import keyword
import os
import re
import sys
import sysconfig
import token as tokmod
import tokenize
import warnings

from vlib import core

ID = "C08"
LEVEL = "differential"
RULE = ("one evaluation = one oracle judgement (clause a or b per source text; clause c and d per annotated "
        "node). A node is non-trivial when its region text spans several lines, contains a comment or a "
        "backslash continuation, or is wider than the interpreter's span (parentheses attributed to it); "
        "distinct = (node class, parent class, sorted layout flags) measured with a set over all sources")
ASSUMPTIONS = ["source texts are modules the running interpreter (3.12) parses; corpus files it cannot compile() "
               "are skipped", "f-string literal chunks and format-spec JoinedStr nodes are not constructs that "
               "can be parsed on their own: no region is demanded for them",
               "a generator expression that is the sole call argument shares the call's parentheses in the "
               "interpreter's span; those two characters are not demanded from the region"]
BUDGET = {"quick": (4000, 75), "thorough": (200000, 840)}
EXHAUSTIVE = {}
REQUIRE = {"sources_checked": 300, "nodes_span_checked": 200000, "nodes_reparsed": 200000,
           "containment_pairs": 200000, "variant_sources": 100, "generated_sources": 100}
TECHNIQUE = ("differential testing of the region annotator against the interpreter's parser positions, the "
             "tokenizer (what the leftover of a region is made of) and re-parsing of every region text; real-code "
             "corpus + validity-preserving layout mutations + random programs covering every ast node class")
LEVEL_TEXT = ("Every source text of the workload is annotated by the real code; losslessness is string equality, "
              "containment is checked for every parent/child pair, exactness for every node against the "
              "interpreter's span and by re-parsing the region text. Held = no judgement failed on the sources run; "
              "sampled over the space of programs and layouts.")
LEVEL_NOTE = ("the oracle is the running interpreter: only 3.12 syntax; f-string literal chunks and format specs are "
              "exempt from the region demand; an exception in the annotator hides the remaining clauses for that "
              "source; a re-parse mismatch is reported at the lowest node only")
DESIGN_REF = "DESIGN.md section 5, C08"
CASE_TIMEOUT = 300

# --------------------------------------------------------------------------- corpus / fuzz providers
try:  # shared helpers written concurrently; private fallbacks below are used while they do not exist
    from vlib import corpus as _corpus
except Exception:  # pragma: no cover
    _corpus = None
try:
    from vlib import layoutfuzz as _layoutfuzz
except Exception:  # pragma: no cover
    _layoutfuzz = None


def _list_py(root):
    out = []
    for dp, dns, fns in os.walk(root):
        dns[:] = sorted(d for d in dns if d not in ("__pycache__", "site-packages", ".git"))
        for fn in sorted(fns):
            if fn.endswith(".py"):
                out.append(os.path.join(dp, fn))
    return out


def _roots():
    rope_root = core.ROPE_ROOT
    return sysconfig.get_paths()["stdlib"], os.path.join(rope_root, "rope"), os.path.join(rope_root, "ropetest")


def read_source(path):
    """Text of a python file exactly as its bytes say (no newline translation); None if undecodable."""
    with open(path, "rb") as f:
        data = f.read()
    try:
        enc, _ = tokenize.detect_encoding(io.BytesIO(data).readline)
        return data.decode(enc)
    except (SyntaxError, UnicodeDecodeError, LookupError):
        return None


# --------------------------------------------------------------------------- source index
_NL = re.compile(r"\r\n|\r|\n")
_ALLOWED_LEFT = {tokmod.COMMENT, tokmod.NL, tokmod.NEWLINE, tokmod.INDENT, tokmod.DEDENT}


class Src:
    def __init__(self, text):
        self.text = text
        self.starts = [0] + [m.end() for m in _NL.finditer(text)]
        self.ascii = text.isascii()
        self._tok = None

    def off(self, lineno, col):
        ls = self.starts[lineno - 1]
        if self.ascii or col == 0:
            return ls + col
        le = self.starts[lineno] if lineno < len(self.starts) else len(self.text)
        line = self.text[ls:le]
        if line.isascii():
            return ls + col
        return ls + len(line.encode("utf-8")[:col].decode("utf-8", "replace"))

    def span(self, node):
        return self.off(node.lineno, node.col_offset), self.off(node.end_lineno, node.end_col_offset)

    # tokens: parallel lists, sorted by start offset (zero-width tokens dropped)
    def tokens(self):
        if self._tok is None:
            ts, te, tt, tstr = [], [], [], []
            comments, conts = [], []
            try:
                for t in tokenize.generate_tokens(io.StringIO(self.text).readline):
                    s = self.starts[t.start[0] - 1] + t.start[1] if t.start[0] <= len(self.starts) else len(self.text)
                    e = self.starts[t.end[0] - 1] + t.end[1] if t.end[0] <= len(self.starts) else len(self.text)
                    if e <= s:
                        continue
                    ts.append(s), te.append(e), tt.append(t.type), tstr.append(t.string)
                    if t.type == tokmod.COMMENT:
                        comments.append(s)
            except (tokenize.TokenError, SyntaxError, IndentationError):
                self._tok = False
                return False
            for m in re.finditer(r"\\\r?\n", self.text):
                conts.append(m.start())
            self._tok = (ts, te, tt, tstr, comments, conts)
        return self._tok

    def toks_in(self, a, b):
        """indices of tokens overlapping [a, b)"""
        ts, te = self._tok[0], self._tok[1]
        i = bisect.bisect_right(te, a)
        out = []
        while i < len(ts) and ts[i] < b:
            out.append(i)
            i += 1
        return out

    def tok_feature(self, i):
        tt, s = self._tok[2][i], self._tok[3][i]
        if tt == tokmod.OP:
            return s
        if tt == tokmod.NAME:
            return s if keyword.iskeyword(s) or s in ("match", "case", "type", "_") else "NAME"
        return tokmod.tok_name[tt]

    def count_in(self, arr, a, b):
        return bisect.bisect_left(arr, b) - bisect.bisect_left(arr, a)


# --------------------------------------------------------------------------- structural comparison
_CTX = (ast.Load, ast.Store, ast.Del)


def diff(a, b, owner="", field=""):
    """None if equal (expression contexts ignored), else a short mechanism description."""
    if isinstance(a, ast.AST):
        if a.__class__ is not b.__class__:
            if isinstance(a, _CTX) and isinstance(b, _CTX):
                return None
            bn = b.__class__.__name__ if isinstance(b, ast.AST) else type(b).__name__
            return f"{owner}.{field}:{a.__class__.__name__}!={bn}"
        cn = a.__class__.__name__
        for f in a._fields:
            d = diff(getattr(a, f, None), getattr(b, f, None), cn, f)
            if d:
                return d
        return None
    if isinstance(a, list):
        if not isinstance(b, list) or len(a) != len(b):
            return f"{owner}.{field}#len"
        for x, y in zip(a, b):
            d = diff(x, y, owner, field)
            if d:
                return d
        return None
    if isinstance(b, (ast.AST, list)) or type(a) is not type(b) or a != b:
        if isinstance(a, float) and isinstance(b, float) and a != a and b != b:
            return None
        return f"{owner}.{field}#value"
    return None


# --------------------------------------------------------------------------- re-parsing in category
class NoCategory(Exception):
    pass


def _first(tree, *path):
    n = tree
    for p in path:
        n = getattr(n, p) if isinstance(p, str) else n[p]
    return n


def reparse(node, parent, field, text, prefix, fctx):
    """Parse `text` as the syntactic category of `node`; returns the node that should equal it."""
    P = ast.parse
    if isinstance(node, ast.stmt):
        if isinstance(node, ast.If) and text.startswith("elif"):
            if prefix:
                code = "if 1:\n" + prefix + "if _:\n" + prefix + " pass\n" + prefix + text + "\n"
                return _first(P(code), "body", 0, "body", 0, "orelse", 0)
            return _first(P("if _:\n pass\n" + text + "\n"), "body", 0, "orelse", 0)
        if prefix:
            return _first(P("if 1:\n" + prefix + text + "\n"), "body", 0, "body", 0)
        return _first(P(text + "\n"), "body", 0)
    if isinstance(node, ast.FormattedValue):
        if fctx is None:
            raise NoCategory("fstring-context")
        vals = _first(P(fctx[0] + text + fctx[1] + "\n"), "body", 0, "value").values
        fv = [v for v in vals if isinstance(v, ast.FormattedValue)]
        return fv[0] if fv else vals
    if isinstance(node, ast.Starred):
        return _first(P("[" + text + "\n]"), "body", 0, "value", "elts", 0)
    if isinstance(node, ast.expr):
        if isinstance(node, ast.Slice) or (isinstance(parent, ast.Subscript) and field == "slice"):
            return _first(P("_[" + text + "\n]"), "body", 0, "value", "slice")
        return P("(" + text + "\n)", mode="eval").body
    if isinstance(node, ast.keyword):
        if isinstance(parent, ast.ClassDef):
            return _first(P("class _(" + text + "\n): pass"), "body", 0, "keywords", 0)
        return _first(P("_(" + text + "\n)"), "body", 0, "value", "keywords", 0)
    if isinstance(node, ast.arg):
        return _first(P("def _(" + text + "\n): pass"), "body", 0, "args", "args", 0)
    if isinstance(node, ast.arguments):
        return _first(P("def _(" + text + "\n): pass"), "body", 0, "args")
    if isinstance(node, ast.alias):
        if isinstance(parent, ast.ImportFrom):
            if text.strip() == "*":
                return _first(P("from _ import *"), "body", 0, "names", 0)
            return _first(P("from _ import (" + text + "\n)"), "body", 0, "names", 0)
        return _first(P("import " + text + "\n"), "body", 0, "names", 0)
    if isinstance(node, ast.comprehension):
        return _first(P("[_ " + text + "\n]"), "body", 0, "value", "generators", 0)
    if isinstance(node, ast.ExceptHandler):
        pre = prefix or ""
        return _first(P("if 1:\n" + pre + " try:\n" + pre + "  pass\n" + pre + " " + text + "\n"),
                      "body", 0, "body", 0, "handlers", 0)
    if isinstance(node, ast.match_case):
        pre = prefix or " "
        return _first(P("match _:\n" + pre + text + "\n"), "body", 0, "cases", 0)
    if isinstance(node, ast.pattern):
        if isinstance(node, ast.MatchStar):
            return _first(P("match _:\n case [" + text + "\n]: pass\n"), "body", 0, "cases", 0, "pattern", "patterns", 0)
        return _first(P("match _:\n case (" + text + "\n): pass\n"), "body", 0, "cases", 0, "pattern")
    if isinstance(node, ast.type_param):
        return _first(P("type _[" + text + "\n] = 0\n"), "body", 0, "type_params", 0)
    raise NoCategory(node.__class__.__name__)


# --------------------------------------------------------------------------- feature derivation
def const_kind(node):
    v = node.value
    if v is None or v is True or v is False:
        return "Constant.name"
    if v is Ellipsis:
        return "Constant.ellipsis"
    return "Constant." + type(v).__name__


def cls_name(node):
    return const_kind(node) if isinstance(node, ast.Constant) else node.__class__.__name__


def _tok_class(s):
    if not isinstance(s, str):
        return type(s).__name__
    if keyword.iskeyword(s):
        return s
    if s.isidentifier():
        return "NAME"
    if len(s) <= 3 and not any(c.isalnum() or c.isspace() for c in s):
        return s
    return "TEXT"


def exception_key(e, cause=None):
    """clause (a): exception type + innermost rope frame + (first wrong region before the failure, if any,
    else the node class being handled and the token searched for)."""
    node_cls, tok = "?", None
    tb = e.__traceback__
    while tb is not None:
        co = tb.tb_frame.f_code
        if co.co_filename.endswith("patchedast.py"):
            loc = tb.tb_frame.f_locals
            if co.co_name == "_handle" and isinstance(loc.get("node"), ast.AST):
                node_cls = cls_name(loc["node"])
                tok = None
                ch = loc.get("child")
                if ch is not None and not isinstance(ch, ast.AST):
                    tok = _tok_class(ch) if isinstance(ch, str) else "PATTERN"
            elif co.co_name in ("consume", "consume_joined_string") and "token" in loc:
                tok = _tok_class(loc["token"])
        tb = tb.tb_next
    if cause:
        return f"a|{core.exc_sig(e)}|after:{cause}"
    return f"a|{core.exc_sig(e)}|{node_cls}|{tok if tok is not None else '-'}"


# --------------------------------------------------------------------------- the oracle
HAS_POS = (ast.stmt, ast.expr, ast.excepthandler, ast.arg, ast.keyword, ast.alias, ast.pattern, ast.type_param)
_INSIGNIFICANT = {tokmod.COMMENT, tokmod.NL, tokmod.NEWLINE, tokmod.INDENT, tokmod.DEDENT}
_DEFS = (ast.FunctionDef, ast.AsyncFunctionDef, ast.ClassDef)


def _category(node):
    for c in (ast.stmt, ast.expr, ast.excepthandler, ast.pattern, ast.type_param):
        if isinstance(node, c):
            return c.__name__
    return node.__class__.__name__


def _fstring_ranges(S):
    """[(start, end, opener, closer)] of every f-string token group, for re-parsing FormattedValue text."""
    ts, te, tt, tstr = S._tok[:4]
    out, stack = [], []
    for i, t in enumerate(tt):
        if t == tokmod.FSTRING_START:
            stack.append(i)
        elif t == tokmod.FSTRING_END and stack:
            j = stack.pop()
            out.append((ts[j], te[i], tstr[j], tstr[i]))
    out.sort()
    return out


class Judge:
    """Clauses (c) and (d) for one annotated tree."""

    def __init__(self, S, report, counters):
        self.S = S
        self.src = S.text
        self.report = report          # report(key, what, **detail)
        self.n = counters
        self.franges = _fstring_ranges(S)
        self.edges = set()            # (relation, region boundary, span boundary) already reported deeper

    # ---- the interpreter's span of a node, adjusted for the two documented conventions
    def span_of(self, node, parent):
        S = self.S
        ts, te, tt, tstr = S._tok[:4]
        if isinstance(node, HAS_POS) and hasattr(node, "end_lineno"):
            s0, s1 = S.span(node)
            if isinstance(node, _DEFS) and node.decorator_list:
                d0 = S.span(node.decorator_list[0])[0]
                j = bisect.bisect_right(ts, d0 - 1) - 1 if d0 > 0 else -1
                while j >= 0 and not (tt[j] == tokmod.OP and tstr[j] == "@"):
                    if tt[j] not in (tokmod.NL, tokmod.COMMENT) and tstr[j] != "(":
                        j = -1
                        break
                    j -= 1
                if j >= 0:
                    s0 = ts[j]
            return s0, s1, True
        spans = [S.span(c) for c in ast.walk(node) if c is not node and hasattr(c, "end_lineno")]
        if not spans:
            return None
        return min(s[0] for s in spans), max(s[1] for s in spans), False

    def span_problems(self, node, parent, region):
        """[(relation, feature, a, b)] - how the region disagrees with the interpreter's span."""
        S, src = self.S, self.src
        ts, te, tt, tstr = S._tok[:4]
        sp = self.span_of(node, parent)
        if sp is None:
            return [], None
        s0, s1, exact = sp
        r0, r1 = region
        if exact and isinstance(node, ast.GeneratorExp) and isinstance(parent, ast.Call) and hasattr(parent, "end_lineno") \
                and s1 == S.span(parent)[1] and src[s0:s0 + 1] == "(" and not (r0 <= s0 and s1 <= r1):
            inner = [i for i in S.toks_in(s0 + 1, s1 - 1) if tt[i] not in _INSIGNIFICANT]
            if inner:
                s0, s1 = ts[inner[0]], te[inner[-1]]
                self.n["genexp_shared_parens"] += 1
        out = []
        if s0 != s1 and (r1 <= s0 or r0 >= s1):
            return [("disjoint", "before" if r1 <= s0 else "after", r0, s0)], (s0, s1)
        for rel, a, b in (("start-late", s0, r0), ("end-early", r1, s1)):
            if a < b:  # part of the construct is missing from the region
                idx = [i for i in S.toks_in(a, b) if tt[i] not in _INSIGNIFICANT]
                if not idx:
                    continue
                i = idx[0]
                feat = S.tok_feature(i)
                if rel == "end-early" and ts[i] < a:
                    feat = "mid-" + tokmod.tok_name[tt[i]] + (":" + _charclass(src[a]) if tt[i] == tokmod.NUMBER else "")
                elif rel == "start-late" and te[idx[-1]] > b:
                    j = idx[-1]
                    feat = "mid-" + tokmod.tok_name[tt[j]] + (":" + _charclass(src[b]) if tt[j] == tokmod.NUMBER else "")
                out.append((rel, feat, a, b))
        if exact:
            for rel, a, b, paren in (("extra-left", r0, s0, "("), ("extra-right", s1, r1, ")")):
                if a < b:  # region wider than the construct: only parens, comments, whitespace allowed
                    idx = S.toks_in(a, b)
                    bad = [i for i in idx if not (tt[i] in _INSIGNIFICANT or (tt[i] == tokmod.OP and tstr[i] == paren))
                           or ts[i] < a or te[i] > b]
                    if bad:
                        i = bad[-1] if rel == "extra-left" else bad[0]
                        feat = S.tok_feature(i) if (ts[i] >= a and te[i] <= b) else "mid-" + tokmod.tok_name[tt[i]]
                        out.append((rel, feat, a, b))
        return out, (s0, s1)

    def fctx_for(self, a, b):
        best = None
        for (s, e, o, c) in self.franges:
            if s <= a and b <= e and (best is None or s >= best[0]):
                best = (s, e, o, c)
        return (best[2], best[3]) if best else None

    def first_divergence(self, tree):
        """Diagnosis for clause (a): first completed node (document order) whose region disagrees with its span."""
        best = None
        stack = [(tree, None, False)]
        while stack:
            node, parent, infs = stack.pop()
            region = getattr(node, "region", None)
            infs = infs or isinstance(node, ast.JoinedStr)
            if region is not None and not isinstance(node, ast.Module):
                probs, sp = self.span_problems(node, parent, region)
                if probs and (best is None or sp[0] < best[0]):
                    rel, feat = probs[0][0], probs[0][1]
                    best = (sp[0], f"{cls_name(node)}{'@fstring' if infs else ''}/{rel}/{feat}")
            for c in ast.iter_child_nodes(node):
                stack.append((c, node, infs))
        return best[1] if best else None

    def walk(self, tree):
        S, src, n = self.S, self.src, self.n
        shapes, types_seen = set(), set()
        comments, conts = S._tok[4], S._tok[5]
        nevals = 0
        stack = [(tree, None, None, None, False, False)]
        bad_below = {}
        while stack:
            node, parent, field, anc, infs, done = stack.pop()
            region = getattr(node, "region", None)
            if not done:
                types_seen.add(node.__class__.__name__)
                stack.append((node, parent, field, anc, infs, True))
                nanc = node if region is not None else anc
                ninfs = infs or isinstance(node, ast.JoinedStr)
                for f, val in ast.iter_fields(node):
                    if isinstance(val, ast.AST):
                        stack.append((val, node, f, nanc, ninfs, False))
                    elif isinstance(val, list):
                        for x in reversed(val):
                            if isinstance(x, ast.AST):
                                stack.append((x, node, f, nanc, ninfs, False))
                continue
            # ---- post-order visit
            below = any(bad_below.get(id(c)) for c in ast.iter_child_nodes(node))
            cname = cls_name(node) + ("@fstring" if infs else "")
            has_pos = isinstance(node, HAS_POS) and hasattr(node, "end_lineno")
            pname = parent.__class__.__name__ if parent is not None else "-"
            if region is None:
                if has_pos and (getattr(parent, "region", None) is not None or anc is None):
                    # topmost un-annotated node below an annotated one
                    if isinstance(parent, ast.JoinedStr) or (isinstance(parent, ast.FormattedValue) and field == "format_spec"):
                        n["noregion_exempt"] += 1
                    else:
                        nevals += 1
                        s0, s1 = S.span(node)
                        self.report(f"d|{_category(node)}|noregion|{pname}.{field}",
                                    f"{_category(node)} node in {pname}.{field} has a position in the interpreter's tree "
                                    f"but was given no region", text=src[s0:s1][:120], context=_ctx(src, s0, s1))
                        n["nodes_without_region"] += 1
                        below = True
                bad_below[id(node)] = below
                continue
            r0, r1 = region
            if anc is not None:  # (c)
                nevals += 1
                n["containment_pairs"] += 1
                a0, a1 = anc.region
                if not (a0 <= r0 <= r1 <= a1):
                    self.report(f"c|{cname}|{cls_name(anc)}|{'before' if r0 < a0 else ''}{'after' if r1 > a1 else ''}",
                                f"region of {cname} is not inside the region of its ancestor {cls_name(anc)}",
                                region=[r0, r1], ancestor=[a0, a1], text=src[r0:r1][:120], context=_ctx(src, a0, a1))
            if isinstance(node, ast.Module):
                bad_below[id(node)] = below
                continue
            # (d) span
            nevals += 1
            n["nodes_span_checked"] += 1
            probs, sp = self.span_problems(node, parent, region)
            span_bad = False
            for rel, feat, a, b in probs:
                span_bad = True
                if (rel, a, b) in self.edges:
                    n["span_mismatch_propagated"] += 1
                    continue
                self.edges.add((rel, a, b))
                what = {"disjoint": "does not overlap the interpreter's span",
                        "start-late": f"leaves out the beginning of the construct (first missing token {feat!r})",
                        "end-early": f"leaves out the end of the construct (first missing token {feat!r})",
                        "extra-left": f"starts with text that is not part of the construct ({feat!r})",
                        "extra-right": f"ends with text that is not part of the construct ({feat!r})"}[rel]
                self.report(f"d|{cname}|{rel}|{feat}", f"region of {cname} {what}", region_text=src[r0:r1][:160],
                            span_text=src[sp[0]:sp[1]][:160], context=_ctx(src, min(r0, sp[0]), max(r1, sp[1])))
            # layout shape
            flags = []
            if S.count_in(S.starts, r0 + 1, r1 + 1):
                flags.append("multiline")
            if S.count_in(comments, r0, r1):
                flags.append("comment")
            if S.count_in(conts, r0, r1):
                flags.append("continuation")
            if has_pos and sp and (r0 < sp[0] or r1 > sp[1]) and not span_bad:
                flags.append("wider")
            if flags:
                n["nodes_nontrivial"] += 1
                shapes.add(f"{cname}/{pname}/{'+'.join(flags)}")
            # (d) re-parse
            if span_bad:
                below = True
            else:
                ls = S.starts[bisect.bisect_right(S.starts, r0) - 1]
                prefix = src[ls:r0]
                prefix = prefix if prefix and not prefix.strip(" \t\x0c") else ""
                text = src[r0:r1]
                fctx = self.fctx_for(r0, r1) if isinstance(node, ast.FormattedValue) else None
                d = None
                try:
                    other = reparse(node, parent, field, text, prefix, fctx)
                    d = diff(node, other, "", cls_name(node))
                    nevals += 1
                    n["nodes_reparsed"] += 1
                except NoCategory:
                    n["nodes_no_category"] += 1
                except (RecursionError, MemoryError):
                    n["nodes_no_category"] += 1
                except (SyntaxError, ValueError, IndexError, AttributeError) as e:
                    d = "SyntaxError" if isinstance(e, SyntaxError) else type(e).__name__
                    nevals += 1
                    n["nodes_reparsed"] += 1
                if d:
                    if below:
                        n["reparse_propagated"] += 1
                    else:
                        self.report(f"d|{cname}|reparse|{d.lstrip('.')}",
                                    f"region text of {cname} does not re-parse to the same node ({d.lstrip('.')})",
                                    region_text=text[:200], context=_ctx(src, r0, r1))
                    below = True
            bad_below[id(node)] = below
        return nevals, shapes, types_seen


def check_source(src, res, origin, vio_limit=40):
    """Runs clauses a-d on one source text.  Returns number of violations recorded."""
    import collections
    from rope.base import ast as rope_ast
    from rope.refactor import patchedast
    nvio = [0]
    seen_keys = set()

    def report(key, what, **detail):
        nvio[0] += 1
        if key in seen_keys or len(seen_keys) >= vio_limit:
            return
        seen_keys.add(key)
        res.violation(key, what, origin=origin, **detail)

    res.ev("sources_checked")
    counters = collections.Counter()
    S = Src(src)
    if S.tokens() is False:
        res.ev("untokenizable_sources")
        return 0
    # ---- clause (a)
    res.evals()
    with warnings.catch_warnings(record=True) as wlist:
        warnings.simplefilter("always")
        try:
            tree = patchedast.get_patched_ast(src, True)
        except RecursionError:
            res.ev("recursion_limit_sources")
            return 0
        except Exception as e:  # any exception on a valid module refutes (a)
            res.ev("a_raised")
            cause = None
            try:  # diagnosis only: same call in two steps, keeping the partially annotated tree
                partial = rope_ast.parse(src)
                try:
                    patchedast.patch_ast(partial, src, True)
                except Exception:
                    cause = Judge(S, report, counters).first_divergence(partial)
            except Exception:
                cause = None
            report(exception_key(e, cause), f"get_patched_ast raised {type(e).__name__}: {str(e)[:120]}"
                   + (f"; first wrong region before the failure: {cause}" if cause else ""),
                   excerpt=_excerpt_exc(src, e))
            return nvio[0]
    for w in wlist:
        if "please report" in str(w.message):
            res.ev("rope_warnings")
    res.ev("a_ok")

    # ---- clause (b)
    res.evals()
    try:
        back = patchedast.write_ast(tree)
    except Exception as e:
        report(f"b|{core.exc_sig(e)}", f"write_ast raised {type(e).__name__}: {str(e)[:120]}")
        back = None
    if back is not None and back != src:
        k = next((i for i, (x, y) in enumerate(zip(back, src)) if x != y), min(len(back), len(src)))
        cls, feat = _lossy_node(tree, src, patchedast, S, k)
        report(f"b|{cls}|{feat}", "write_ast(patched tree) differs from the source",
               at=k, src=src[max(0, k - 40):k + 40], got=back[max(0, k - 40):k + 40])
    elif back is not None:
        res.ev("b_lossless")

    # ---- clauses (c), (d)
    nevals, shapes, types_seen = Judge(S, report, counters).walk(tree)
    res.evals(nevals)
    for k, v in counters.items():
        if v:
            res.ev(k, v)
    for t in types_seen:
        res.ev("nt." + t)
    for s in shapes:
        res.shape(s)
    return nvio[0]


def _charclass(c):
    if c.isdigit():
        return "digit"
    if c in "_.bBoOxXeEjJ+-":
        return c
    return "other"


def _ctx(src, a, b, pad=30):
    return src[max(0, a - pad):b + pad][:300]


def _excerpt_exc(src, e):
    m = re.search(r"at \((\d+), (\d+)\)", str(e))
    if not m:
        return None
    lines = src.split("\n")
    ln = int(m.group(1))
    return "\n".join(lines[max(0, ln - 3):ln + 1])[:400]


def _lossy_node(tree, src, patchedast, S, k):
    """Lowest node whose written form differs from the text of its region; feature = token kind at the difference."""
    best = tree
    changed = True
    while changed:
        changed = False
        for c in ast.iter_child_nodes(best):
            if getattr(c, "region", None) is None or not hasattr(c, "sorted_children"):
                continue
            try:
                w = patchedast.write_ast(c)
            except Exception:
                continue
            if w != src[c.region[0]:c.region[1]]:
                best, changed = c, True
                break
    idx = S.toks_in(k, k + 1)
    feat = S.tok_feature(idx[0]) if idx else "whitespace"
    return cls_name(best), feat


# --------------------------------------------------------------------------- workload
def _corpus_list():
    """All corpus files (paths), deterministic order."""
    if _corpus is not None and hasattr(_corpus, "all_files"):
        return list(_corpus.all_files())
    std, rp, rt = _roots()
    return _list_py(std) + _list_py(rp) + _list_py(rt)


def cases(tier, seed):
    import random
    rnd = random.Random(f"{seed}/C08/cases")
    std, rp, rt = _roots()
    rope_files = _list_py(rp)
    other = _list_py(std) + _list_py(rt)
    rnd.shuffle(other)
    if tier == "quick":
        files = rope_files + other[:200]
        nvar, ngen, per_gen = 1, 64, 12
    else:
        files = rope_files + other
        nvar, ngen, per_gen = 6, 1500, 15
    # interleave: generated programs first (cheap, guarantee node-class coverage), then files big-first
    for i in range(min(ngen, 32)):
        yield {"kind": "gen", "seed": f"{seed}/C08/gen/{i}", "n": per_gen}
    sized = sorted(files, key=lambda p: -os.path.getsize(p))
    for i, p in enumerate(sized):
        yield {"kind": "file", "path": p, "variants": nvar, "seed": f"{seed}/C08/file/{i}"}
    for i in range(32, ngen):
        yield {"kind": "gen", "seed": f"{seed}/C08/gen/{i}", "n": per_gen}
    # more variants of random corpus files until the budget ends (thorough only)
    if tier == "thorough":
        i = 0
        while True:
            yield {"kind": "file", "path": rnd.choice(files), "variants": 4, "only_variants": True,
                   "seed": f"{seed}/C08/more/{i}"}
            i += 1


def setup_worker():
    sys.setrecursionlimit(3000)


def _variants(src, rnd, n):
    if _layoutfuzz is not None and hasattr(_layoutfuzz, "mutate"):
        out = []
        for _ in range(n):
            try:
                v = _layoutfuzz.mutate(src, rnd)
            except Exception:
                v = None
            if v and v != src:
                out.append(v)
        return out
    from vlib import astgen
    return [v for v in (astgen.simple_layout_variant(src, rnd) for _ in range(n)) if v and v != src]


def _valid(src):
    try:
        compile(src, "<c08>", "exec", dont_inherit=True)
        return True
    except (SyntaxError, ValueError, RecursionError, MemoryError, OverflowError):
        return False


def run_case(spec):
    from vlib import astgen
    res = core.Result()
    rnd = core.rng(spec)
    with warnings.catch_warnings():
        warnings.simplefilter("ignore")
        if spec["kind"] == "file":
            src = read_source(spec["path"])
            if src is None or not _valid(src):
                res.ev("corpus_skipped_uncompilable")
                res.outcome("skipped")
                res.evals(0)
                return res
            total = 0
            if not spec.get("only_variants"):
                res.ev("corpus_sources")
                total += check_source(src, res, {"file": _rel(spec["path"])})
            for j, v in enumerate(_variants(src, rnd, spec["variants"])):
                if not _valid(v):
                    res.ev("variants_discarded_invalid")
                    continue
                res.ev("variant_sources")
                total += check_source(v, res, {"file": _rel(spec["path"]), "variant": j})
            res.outcome("violating-source" if total else "exact")
            res.sample({"kind": "file", "path": _rel(spec["path"]), "chars": len(src), "violations": total})
        else:
            total = 0
            first = None
            for j in range(spec["n"]):
                src = astgen.random_module_source(rnd)
                if not _valid(src):
                    res.ev("generated_discarded_invalid")
                    continue
                first = first or src
                res.ev("generated_sources")
                total += check_source(src, res, {"generated": spec["seed"], "index": j, "source": src[:1500]})
                for v in _variants(src, rnd, 1):
                    if _valid(v):
                        res.ev("variant_sources")
                        total += check_source(v, res, {"generated": spec["seed"], "index": j, "variant": 0,
                                                       "source": v[:1500]})
            res.outcome("violating-source" if total else "exact")
            res.sample({"kind": "generated", "seed": spec["seed"], "first_program": (first or "")[:600],
                        "violations": total})
    return res


def _rel(path):
    std, rp, rt = _roots()
    for name, root in (("stdlib", std), ("rope", os.path.dirname(rp))):
        if path.startswith(root + os.sep):
            return name + ":" + path[len(root) + 1:]
    return path


def finalize(agg):
    ev = agg["events"]
    seen = {k[3:]: ev.pop(k) for k in list(ev) if k.startswith("nt.")}
    from vlib import astgen
    want = astgen.reachable_node_classes()
    missing = sorted(set(want) - set(seen))
    out = {"node_types_seen": dict(sorted(seen.items())), "node_types_missing": missing,
           "node_types_total": len(want)}
    if missing:
        out["inconclusive"] = "node classes never produced by the workload: " + ", ".join(missing)
    return out


if __name__ == "__main__":
    core.main(sys.modules[__name__])
