"""C01 - rename preserves the program: same bindings, same behaviour.

For generated, self-validated multi-module projects (profile binding: global/nonlocal, class
bodies, comprehensions, default arguments, keyword arguments, aliased / relative / star imports,
packages, methods and fields with statically determined receivers) identifier occurrences are
renamed to a fresh name through Rename(...).get_changes + project.do.  Oracles, in order:
  1. every file still compiles;
  2. token alignment: old and new token streams are equal except NAME tokens whose text went
     old -> fresh (and the announced file move for modules / packages);
  3. alpha-equivalence on the lexical part: a reference binder (vlib/bindlex.py, built on Python's
     symtable rules) assigns every aligned NAME token of the changed modules the same binding class
     before and after;
  4. behaviour: main.py and import_all.py print exactly the same.
Refusal = RopeError subclass + untouched tree.
"""
import io
import keyword
import os
import sys
import tokenize

from vlib import behave, bindlex, core, pyrun

ID = "C01"
READY = True
LEVEL = "exploration"
RULE = ("pygen profile 'binding'; query points = NAME tokens of all project modules, stratified by syntactic role "
        "(definition, load, store, parameter, keyword-argument name, attribute tail, import name / alias, "
        "global/nonlocal item, comprehension target, default-argument expression) + module and package renames; "
        "non-trivial = performed rename that rewrote >= 2 tokens; distinct = (role of the query token, kind of "
        "binding, #files changed bucket, outcome)")
ASSUMPTIONS = ["programs are in fragment F (DESIGN.md 3.1): receivers statically determined, no member overriding "
               "across a hierarchy except __init__", "fresh names are absent from the project, builtins and keywords"]
BUDGET = {"quick": (250, 240), "thorough": (380, 900)}
EXHAUSTIVE = {}
CASE_TIMEOUT = 600
REQUIRE = {"performed_and_run": 400, "performed_core": 200, "alignment_checked": 400, "lexical_alpha_checked": 200}
TECHNIQUE = ("differential execution of the renamed program + token-stream alignment + reference-binder "
             "alpha-equivalence (symtable-based) on every performed rename")
LEVEL_TEXT = ("Thousands of renames over generated multi-module programs are performed by the real code; each "
              "result is compiled, token-aligned with the original, checked for unchanged lexical bindings with an "
              "independent binder, and executed.")
LEVEL_NOTE = ("sampled programs and query points inside fragment F; alpha-equivalence is decided by the reference "
              "binder for lexical (scope-resolved) names and by execution for attributes and cross-module names")
DESIGN_REF = "DESIGN.md section 5, C01"

POINTS_PER_FILE = {"quick": 10, "thorough": 40}


def cases(tier, seed):
    i = 0
    while True:
        # every second project is generated with a distinct spelling per binding: none of the
        # spelling-clash classes applies there, so those requests are judged with fine keys
        yield {"seed": f"{seed}/C01/{i}", "pseed": seed * 1000003 + i, "unique": i % 3}
        i += 1


def name_tokens(text):
    """[(offset, string, prev_string, next_string)] for NAME tokens that are identifiers."""
    out = []
    starts = [0]
    for line in text.split("\n")[:-1]:
        starts.append(starts[-1] + len(line) + 1)
    toks = [t for t in tokenize.generate_tokens(io.StringIO(text).readline)
            if t.type not in (tokenize.NL, tokenize.NEWLINE, tokenize.COMMENT, tokenize.INDENT, tokenize.DEDENT)]
    for i, t in enumerate(toks):
        if t.type == tokenize.NAME and not keyword.iskeyword(t.string) and t.string not in ("match", "case", "type", "_"):
            off = starts[t.start[0] - 1] + t.start[1]
            out.append((off, t.string, toks[i - 1].string if i else "", toks[i + 1].string if i + 1 < len(toks) else ""))
    return out


def role_of(tok, text):
    off, s, prev, nxt = tok
    if prev == "def":
        return "def-name"
    if prev == "class":
        return "class-name"
    if prev == ".":
        return "attribute-tail"
    if prev in ("import", "from") or prev == "as":
        return "import-name" if prev != "as" else "alias"
    if prev in ("global", "nonlocal"):
        return "scope-declaration"
    if nxt == "=" and prev in ("(", ","):
        return "kwarg-or-default"
    if nxt in ("=", "+=", "-=", "*=", ":="):
        return "store"
    if prev == "for":
        return "loop-target"
    if nxt == "(":
        return "call"
    return "load"


def project_facts(files):
    """Syntactic facts about spellings, used only to label hostile request classes."""
    import ast
    defined, default_clash, module_alias, modlevel_comp = set(), set(), {}, set()
    special_params, fstring_names, comp_targets, nonproject_imports = set(), set(), set(), set()
    class_body_loads, init_params, leafs = set(), set(), {}
    class_members, base_names = {}, set()
    ambiguous_members = set()
    bare_genexp_targets = set()
    class_nested_scope_loads = set()
    all_module_globals, all_class_attrs = set(), set()
    super_call_keywords, from_imported_names = set(), set()
    for path in files:
        if path.endswith(".py") and not path.endswith("__init__.py"):
            leafs.setdefault(path.split("/")[-1], []).append(path)
    same_leaf = any(len(v) > 1 for v in leafs.values())
    has_prefixed_string = any(__import__("re").search(r"\b[fFrRbBuU]{1,2}[\"']", t) for t in files.values())
    star = False
    project_tops = {p.split("/")[0].replace(".py", "") for p in files}
    for path, text in files.items():
        if not path.endswith(".py"):
            continue
        try:
            tree = ast.parse(text)
        except SyntaxError:
            continue
        mod_globals = {t.id for st in tree.body for t in ast.walk(st) if isinstance(t, ast.Name) and isinstance(t.ctx, ast.Store)}
        all_module_globals.update(t.id for st in tree.body if not isinstance(st, (ast.FunctionDef, ast.AsyncFunctionDef, ast.ClassDef))
                                  for t in ast.walk(st) if isinstance(t, ast.Name) and isinstance(t.ctx, ast.Store))
        for c_ in ast.walk(tree):
            if isinstance(c_, ast.ClassDef):
                all_class_attrs.update(t.id for st in c_.body if not isinstance(st, (ast.FunctionDef, ast.AsyncFunctionDef, ast.ClassDef))
                                       for t in ast.walk(st) if isinstance(t, ast.Name) and isinstance(t.ctx, ast.Store))
        for n in ast.walk(tree):
            if isinstance(n, (ast.FunctionDef, ast.AsyncFunctionDef, ast.ClassDef)):
                defined.add(n.name)
            if isinstance(n, ast.Name) and isinstance(n.ctx, ast.Store):
                defined.add(n.id)
            if isinstance(n, ast.arg):
                defined.add(n.arg)
            if isinstance(n, ast.Attribute) and isinstance(n.ctx, ast.Store):
                defined.add(n.attr)
            if isinstance(n, ast.alias):
                defined.add((n.asname or n.name).split(".")[0])
                if n.name == "*":
                    star = True
            if isinstance(n, ast.Import):
                for a in n.names:
                    if a.name.split(".")[0] not in project_tops:
                        nonproject_imports.add((a.asname or a.name).split(".")[0])
            if isinstance(n, ast.Lambda):
                special_params |= {a.arg for a in n.args.args}
            if isinstance(n, ast.arguments):
                special_params |= {a.arg for a in n.kwonlyargs + n.posonlyargs}
                if n.vararg:
                    special_params.add(n.vararg.arg)
                if n.kwarg:
                    special_params.add(n.kwarg.arg)
            if isinstance(n, ast.ClassDef):
                # class whose body loads a name that the class itself also binds (dynamic class-body lookup)
                own = {st.name for st in n.body if isinstance(st, (ast.FunctionDef, ast.AsyncFunctionDef, ast.ClassDef))}
                own |= {t.id for st in n.body if not isinstance(st, (ast.FunctionDef, ast.AsyncFunctionDef, ast.ClassDef))
                        for t in ast.walk(st) if isinstance(t, ast.Name) and isinstance(t.ctx, ast.Store)}
                loads = {t.id for st in n.body if not isinstance(st, (ast.FunctionDef, ast.AsyncFunctionDef, ast.ClassDef))
                         for t in ast.walk(st) if isinstance(t, ast.Name) and isinstance(t.ctx, ast.Load)}
                if own & loads:
                    ambiguous_members.update(own)
                    ambiguous_members.update(t.attr for t in ast.walk(n) if isinstance(t, ast.Attribute) and isinstance(t.ctx, ast.Store))
                mem = class_members.setdefault(n.name, set())
                for b in n.bases:
                    base_names.add(b.id if isinstance(b, ast.Name) else getattr(b, "attr", None))
                for t in ast.walk(n):
                    if isinstance(t, (ast.FunctionDef, ast.AsyncFunctionDef)):
                        mem.add(t.name)
                    elif isinstance(t, ast.Attribute) and isinstance(t.ctx, ast.Store) and isinstance(t.value, ast.Name) and t.value.id in ("self", "cls"):
                        mem.add(t.attr)
                for st in n.body:
                    for t in ast.walk(st) if not isinstance(st, (ast.FunctionDef, ast.AsyncFunctionDef, ast.ClassDef)) else []:
                        if isinstance(t, ast.Name) and isinstance(t.ctx, ast.Store):
                            mem.add(t.id)
                for st in n.body:
                    if not isinstance(st, (ast.FunctionDef, ast.AsyncFunctionDef, ast.ClassDef)):
                        # names read in a lambda / comprehension nested directly in the class body (their scope
                        # skips the class namespace)
                        for sub in ast.walk(st):
                            if isinstance(sub, (ast.Lambda, ast.ListComp, ast.SetComp, ast.DictComp, ast.GeneratorExp)):
                                # (the first iterable of a comprehension is evaluated in the class namespace itself)
                                first_iter = set() if isinstance(sub, ast.Lambda) else {id(t) for t in ast.walk(sub.generators[0].iter)}
                                class_nested_scope_loads.update(t.id for t in ast.walk(sub) if id(t) not in first_iter
                                                                and isinstance(t, ast.Name) and isinstance(t.ctx, ast.Load))
                for st in n.body:
                    if not isinstance(st, (ast.FunctionDef, ast.AsyncFunctionDef, ast.ClassDef)):
                        class_body_loads |= {t.id for t in ast.walk(st) if isinstance(t, ast.Name) and isinstance(t.ctx, ast.Load)}
                        class_body_loads |= {kw.arg for t in ast.walk(st) if isinstance(t, ast.Call) for kw in t.keywords if kw.arg}
                    else:
                        for dflt in getattr(getattr(st, "args", None), "defaults", []) + [d for d in getattr(getattr(st, "args", None), "kw_defaults", []) if d]:
                            class_body_loads |= {t.id for t in ast.walk(dflt) if isinstance(t, ast.Name)}
                        class_body_loads |= {t.id for dec in st.decorator_list for t in ast.walk(dec) if isinstance(t, ast.Name)}
            if isinstance(n, ast.FunctionDef) and n.name == "__init__":
                init_params |= {a.arg for a in n.args.args + n.args.kwonlyargs}
            if isinstance(n, ast.FormattedValue):
                fstring_names |= {t.id for t in ast.walk(n) if isinstance(t, ast.Name)}
                fstring_names |= {t.attr for t in ast.walk(n) if isinstance(t, ast.Attribute)}
            if (isinstance(n, ast.Call) and isinstance(n.func, ast.Attribute) and isinstance(n.func.value, ast.Call)
                    and isinstance(n.func.value.func, ast.Name) and n.func.value.func.id == "super"):
                super_call_keywords.update(kw.arg for kw in n.keywords if kw.arg)
            if isinstance(n, ast.ImportFrom):
                from_imported_names.update(a.name for a in n.names)
            if isinstance(n, ast.comprehension):
                comp_targets |= {t.id for t in ast.walk(n.target) if isinstance(t, ast.Name)}
            if (isinstance(n, ast.Call) and len(n.args) == 1 and not n.keywords and isinstance(n.args[0], ast.GeneratorExp)
                    and (n.args[0].end_lineno, n.args[0].end_col_offset) == (n.end_lineno, n.end_col_offset)):
                # f(x for x in xs): the call's parentheses are the generator's own
                bare_genexp_targets |= {t.id for g in n.args[0].generators for t in ast.walk(g.target) if isinstance(t, ast.Name)}
            if isinstance(n, ast.Import):
                for a in n.names:
                    if a.asname:
                        module_alias.setdefault(path, set()).add(a.asname)
            if isinstance(n, ast.ImportFrom):
                for a in n.names:
                    if a.asname:
                        module_alias.setdefault(path, set()).add(a.asname)   # may alias a module or a name
            if isinstance(n, (ast.FunctionDef, ast.AsyncFunctionDef, ast.Lambda)):
                inner = {a.arg for a in n.args.args + n.args.kwonlyargs + n.args.posonlyargs}
                if not isinstance(n, ast.Lambda):
                    inner |= {t.id for t in ast.walk(n) if isinstance(t, ast.Name) and isinstance(t.ctx, ast.Store)}
                for dflt in n.args.defaults + [d for d in n.args.kw_defaults if d is not None]:
                    for t in ast.walk(dflt):
                        if isinstance(t, ast.Name) and t.id in inner:
                            default_clash.add(t.id)
        # comprehension at module / class level whose variable is spelled like a module global
        def scan(body):
            for st in body:
                if isinstance(st, (ast.FunctionDef, ast.AsyncFunctionDef)):
                    continue
                if isinstance(st, ast.ClassDef):
                    scan(st.body)
                    continue
                for n in ast.walk(st):
                    if isinstance(n, ast.comprehension):
                        for t in ast.walk(n.target):
                            if isinstance(t, ast.Name) and t.id in mod_globals:
                                modlevel_comp.add(t.id)
        scan(tree.body)
    return {"defined": defined, "default_clash": default_clash, "module_alias": module_alias, "modlevel_comp": modlevel_comp,
            "special_params": special_params, "fstring_names": fstring_names, "comp_targets": comp_targets,
            "nonproject_imports": nonproject_imports, "star": star, "class_body_loads": class_body_loads,
            "init_params": init_params, "same_leaf": same_leaf, "has_prefixed_string": has_prefixed_string,
            "inherited_members": {m for c, ms in class_members.items() if c in base_names for m in ms},
            "ambiguous_members": ambiguous_members, "bare_genexp_targets": bare_genexp_targets,
            "class_nested_scope_loads": class_nested_scope_loads,
            "global_and_class_attr": all_module_globals & all_class_attrs,
            "super_call_keywords": super_call_keywords,
            # project modules that some module imports with `from package import module`
            "from_imported_modules": from_imported_names & {p.split("/")[-1][:-3] for p in files if p.endswith(".py")}}


def stream(text):
    return [(t.type, t.string) for t in tokenize.generate_tokens(io.StringIO(text).readline)
            if t.type not in (tokenize.NL, tokenize.COMMENT) and not (t.type == tokenize.NEWLINE and t.string == "")]


def alignment_problem(before, after, old, new):
    """None if the token streams agree except NAME old->new; else a finite description."""
    moved = {}
    gone, came = sorted(set(before) - set(after)), sorted(set(after) - set(before))
    for p in gone:
        # file / folder move: the new path has the same number of components and differs in one of them
        cands = [q for q in came if q.count("/") == p.count("/") and
                 sum(a != b for a, b in zip(p.split("/"), q.split("/"))) == 1]
        cands = [q for q in cands if q not in moved.values()]
        if cands:
            moved[p] = sorted(cands, key=lambda q: abs(len(after[q]) - len(before[p])))[0]
        else:
            return "file-disappeared"
    for p, t0 in before.items():
        q = moved.get(p, p)
        if q not in after:
            return "file-disappeared"
        if not p.endswith(".py"):
            continue
        t1 = after[q]
        if t0 == t1:
            continue
        try:
            s0, s1 = stream(t0), stream(t1)
        except (tokenize.TokenError, SyntaxError, IndentationError):
            return "untokenizable"
        if len(s0) != len(s1):
            return "token-count-changed"
        for (ty0, st0), (ty1, st1) in zip(s0, s1):
            if (ty0, st0) == (ty1, st1):
                continue
            if ty0 == ty1 == tokenize.NAME and st0 == old and st1 == new:
                continue
            if ty0 == ty1 == tokenize.NAME:
                return "other-name-changed"
            if ty0 == ty1 and ty0 in (tokenize.STRING, tokenize.FSTRING_MIDDLE):
                return "string-or-fstring-literal-changed"
            return "non-name-token-changed"
    return None


def run_case(spec):
    from rope.refactor.rename import Rename
    res = core.Result()
    rnd = core.rng(spec)
    tier = os.environ.get("VERIF_TIER", "quick")
    with core.Scratch() as tmp:
        case = behave.Case(spec["pseed"], "binding", tmp + "/p", p_fstring=0.05, p_star_import=0.03, p_kwonly=0.1,
                           p_varargs=0.1, p_kwargs=0.05, p_dunder_call=0.3, unique_names=spec.get("unique", 0),
                           # the newer layouts only where spellings are unique (the clash stratum is noisy enough)
                           **({"p_class_comp": 0.4, "p_multi_global": 0.5, "p_member_named_like_module": 0.5}
                              if spec.get("unique") else {}))
        if not case.valid:
            res.ev("discarded_invalid_projects")
            res.outcome("discarded")
            return res
        res.ev("projects")
        paths = [p for p in case.files if p.endswith(".py") and case.files[p].strip()]
        rnd.shuffle(paths)
        taken = set()
        for p in case.files.values():
            try:
                taken |= {t[1] for t in name_tokens(p)}
            except Exception:
                pass
        fresh = next(n for n in ("fresh_q", "fresh_q2", "zz_fresh") if n not in taken)
        facts = project_facts(case.files)
        points = []
        for path in paths[:4]:
            text = case.files[path]
            try:
                toks = name_tokens(text)
            except Exception:
                continue
            byrole = {}
            import builtins as _b
            toks = [t for t in toks if not hasattr(_b, t[1]) or rnd.random() < 0.05]
            for t in toks:
                byrole.setdefault(role_of(t, text), []).append(t)
            picked = []
            roles = sorted(byrole)
            while len(picked) < POINTS_PER_FILE[tier] and any(byrole.values()):
                for r in roles:
                    if byrole[r] and len(picked) < POINTS_PER_FILE[tier]:
                        picked.append((r, byrole[r].pop(rnd.randrange(len(byrole[r])))))
            points += [(path, r, t) for r, t in picked]
        # module / package renames
        mods = [p for p in paths if p not in ("main.py", "import_all.py") and not p.endswith("__init__.py")]
        for path in mods[:1]:
            points.append((path, "module", None))
        for path, role, tok in points:
            old = tok[1] if tok else os.path.basename(path)[:-3]
            offset = tok[0] + (1 if tok and len(tok[1]) > 1 and rnd.random() < 0.5 else 0) if tok else None
            new_name = fresh if tok else "renamed_mod"

            def request(project, path=path, offset=offset, new_name=new_name):
                return Rename(project, project.get_file(path), offset).get_changes(new_name)

            before_files = dict(case.files)
            lex_before = {}

            def post(files_after, old=old, new_name=new_name, before_files=before_files):
                res.ev("alignment_checked")
                prob = alignment_problem(before_files, files_after, old, new_name)
                if prob:
                    return "alignment:" + prob
                # lexical alpha-equivalence on changed modules
                for p, t1 in files_after.items():
                    t0 = before_files.get(p)
                    if t0 is None or t0 == t1 or not p.endswith(".py"):
                        continue
                    try:
                        b0, b1 = bindlex.bindings(t0), bindlex.bindings(t1)
                    except bindlex.Unsupported:
                        res.ev("lexical_alpha_skipped")
                        continue
                    res.ev("lexical_alpha_checked")
                    d = bindlex.alpha_difference(b0, b1, old, new_name)
                    if d:
                        return "lexical-binding-changed:" + d
                return None

            import builtins
            label = None
            unique = bool(spec.get("unique"))
            ukey = "unique-names" if spec.get("unique") == 1 else "unique-names+class-attribute-spelled-like-global"
            if tok and unique and any(q.startswith(old + "/") for q in case.files):
                # witness: a from-import of a submodule is rewritten, a later dotted use is not
                label = "package-renamed-through-one-of-its-name-tokens"
            elif old in facts["from_imported_modules"] and (not tok or unique):
                # a module (renamed as a resource, or through any of its name tokens)
                label = "module-imported-with-from-package-import-module"
            elif unique and tok and old in facts["super_call_keywords"]:
                label = "parameter-passed-by-keyword-through-super()"
            elif unique:
                # spellings are unique, so these classes are about the renamed binding itself
                if tok and hasattr(builtins, old):
                    label = "builtin-name"
                elif tok and old.startswith("__") and old.endswith("__"):
                    label = "dunder-name"
                elif tok and (old not in facts["defined"] or old in facts["nonproject_imports"]):
                    label = "name-not-defined-in-project"
                elif facts["star"]:
                    label = "project-has-star-import"
                elif facts["same_leaf"]:
                    label = "two-project-modules-share-their-file-name"
                elif role == "alias" or (tok and old in facts["module_alias"].get(path, ())):
                    label = "import-alias"
                elif tok and old in facts["bare_genexp_targets"]:
                    label = "variable-of-a-generator-expression-that-is-the-sole-unparenthesised-argument-of-a-call"
                elif tok and old in facts["fstring_names"]:
                    label = "name-used-in-an-fstring-field"
                elif tok and old in facts["class_nested_scope_loads"]:
                    label = "name-read-in-a-lambda-or-comprehension-directly-in-a-class-body"
                elif tok and old in facts["global_and_class_attr"]:
                    label = "module-global-and-class-attribute-share-the-spelling"
            elif tok and hasattr(builtins, old):
                label = "builtin-name"
            elif tok and old.startswith("__") and old.endswith("__"):
                label = "dunder-name"
            elif tok and (old not in facts["defined"] or old in facts["nonproject_imports"]):
                label = "name-not-defined-in-project"
            elif facts["star"]:
                label = "project-has-star-import"
            elif facts["same_leaf"]:
                label = "two-project-modules-share-their-file-name"
            elif tok and old.lower() in ("f", "r", "b", "u", "rb", "br", "fr", "rf") and facts["has_prefixed_string"]:
                label = "name-equals-a-string-prefix"
            elif tok and old in facts["class_body_loads"]:
                label = "spelled-like-a-name-loaded-in-a-class-body"
            elif tok and old in facts["init_params"]:
                label = "spelled-like-a-constructor-parameter"
            elif tok and old in facts["inherited_members"]:
                label = "spelled-like-a-member-of-a-class-that-has-subclasses"
            elif tok and old in facts["ambiguous_members"]:
                label = "member-of-a-class-whose-body-reads-a-name-it-also-binds"
            elif tok and old in facts["special_params"]:
                label = "spelled-like-a-keyword-only-star-or-lambda-parameter"
            elif tok and old in facts["fstring_names"]:
                label = "spelled-like-a-name-in-an-fstring-field"
            elif tok and old in facts["comp_targets"]:
                label = "spelled-like-a-comprehension-variable"
            elif role == "alias" or (tok and old in facts["module_alias"].get(path, ())):
                label = "import-alias"
            elif tok and old in facts["default_clash"]:
                label = "default-argument-spelled-like-inner-binding"
            elif tok and old in facts["modlevel_comp"]:
                label = "module-level-comprehension-variable-spelled-like-global"
            feats = f"hostile:{label}" if label else (f"{ukey}|role={role}" if unique else f"core|role={role}")
            out = behave.judge(case, request, res, "rename", feats, coarse=bool(label), post_check=post,
                               detail={"file": path, "offset": offset, "old": old, "role": role, "pseed": spec["pseed"],
                                       "source": case.files[path][:3000]})
            if out in ("preserved", "violation"):
                res.ev("performed_and_run")
                res.ev("performed_hostile" if label else ("performed_unique_names" if unique else "performed_core"))
                res.shape([role, out])
            elif out == "refused":
                res.ev("refused")
        res.sample({"pseed": spec["pseed"], "files": sorted(case.files), "example_point": [points[0][0], points[0][1]] if points else None})
    return res


if __name__ == "__main__":
    core.main(sys.modules[__name__])
