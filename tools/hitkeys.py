#!/usr/bin/env python3
"""Maintainer tool: which registered keys of a property were (not) hit by the runs whose evidence
directories are given.  usage: tools/hitkeys.py <ID> DIR [DIR ...]   (DIR contains <ID>.json)"""
import json
import sys
from pathlib import Path

ROOT = Path(__file__).resolve().parents[1]
pid, dirs = sys.argv[1], sys.argv[2:]
kf = json.loads((ROOT / "known_findings.json").read_text())
known = [f["key"] for f in kf["findings"] if f["property"] == pid]
hit, unknown = {}, set()
for d in dirs:
    cov = json.loads((Path(d) / f"{pid}.json").read_text())["coverage"]
    for k, n in cov["known_findings_hit"].items():
        hit[k] = hit.get(k, 0) + (n if isinstance(n, int) else 1)
    unknown |= set(cov["unknown_violation_keys"])
for k in known:
    print(("HIT   %6d " % hit[k]) if k in hit else "NEVER        ", k)
for k in sorted(unknown):
    print("UNKNOWN      ", k)
