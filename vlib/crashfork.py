"""Crash injection for project.close(): fork, interpose `open` in rope.base.project with an
unbuffered counting file, die with os._exit(137) at a chosen tick (no finally / __exit__ runs,
exactly as in a kill).

Tick sequence of one save:  for every open(): 1 tick before the open (file untouched), 1 tick after
(file truncated), then 1 tick per byte written, 1 tick before close, 1 tick after close.
`crash_at=k` lets ticks 0..k-1 happen and dies when tick k would start; crash_at=None counts only.
"""
import builtins
import json
import os
import traceback


class _Ctl:
    def __init__(self, crash_at, log_fd=None):
        self.crash_at = crash_at
        self.t = 0
        self.log = []
        self.log_fd = log_fd

    def tick(self, what):
        if self.crash_at is not None and self.t >= self.crash_at:
            os._exit(137)
        self.t += 1
        if self.crash_at is None:
            if self.log and self.log[-1][0] == what:
                self.log[-1][1] += 1
            else:
                self.log.append([what, 1])


class CrashFile:
    """Unbuffered file whose every written byte is a crash tick.  Any write mode is supported
    (w, a, x, r+, ...); reads, seeks and truncate() are passed through (truncate is a tick too)."""

    def __init__(self, ctl, path, mode, **kw):
        self.ctl = ctl
        self.text = "b" not in mode
        self.name = os.path.basename(path)
        bmode = mode.replace("t", "")
        if "b" not in bmode:
            bmode += "b"
        ctl.tick(f"before-open:{self.name}")
        self.f = builtins.open(path, bmode, buffering=0)
        ctl.tick(f"after-open:{self.name}")

    def write(self, data):
        if self.text:
            data = data.encode("utf-8")
        data = bytes(data)
        ctl = self.ctl
        if ctl.crash_at is not None:
            room = ctl.crash_at - ctl.t
            if room < len(data):
                if room > 0:
                    self.f.write(data[:room])
                os._exit(137)
        self.f.write(data)
        ctl.t += len(data)
        if ctl.crash_at is None and data:
            what = f"byte:{self.name}"
            if ctl.log and ctl.log[-1][0] == what:
                ctl.log[-1][1] += len(data)
            else:
                ctl.log.append([what, len(data)])
        return len(data)

    def truncate(self, size=None):
        self.ctl.tick(f"before-truncate:{self.name}")
        r = self.f.truncate(size) if size is not None else self.f.truncate()
        self.ctl.tick(f"after-truncate:{self.name}")
        return r

    def flush(self):
        pass

    def close(self):
        if self.f.closed:
            return
        self.ctl.tick(f"before-close:{self.name}")
        self.f.close()
        self.ctl.tick(f"after-close:{self.name}")

    def __getattr__(self, name):          # read / seek / tell / fileno ...
        return getattr(self.f, name)

    def __enter__(self):
        return self

    def __exit__(self, *a):
        self.close()


def install(ctl):
    """Replace `open` as seen by rope.base.project (write modes only)."""
    import rope.base.project as rp

    def fake_open(path, mode="r", *a, **kw):
        if any(c in mode for c in "wax+"):
            return CrashFile(ctl, os.fspath(path), mode)
        return builtins.open(path, mode, *a, **kw)

    rp.open = fake_open


def run_in_child(fn, timeout=30):
    """Run fn() in a forked child; returns (exit_status, json_result_or_None)."""
    r, w = os.pipe()
    pid = os.fork()
    if pid == 0:
        try:
            os.close(r)
            try:
                out = fn()
            except BaseException as e:  # report, the parent decides
                out = {"child_exception": "".join(traceback.format_exception(type(e), e, e.__traceback__))[-3000:],
                       "exc_type": type(e).__name__}
            try:
                os.write(w, json.dumps(out, default=repr).encode("utf-8"))
            except BaseException:
                pass
        finally:
            os._exit(0)
    os.close(w)
    chunks = []
    while True:
        b = os.read(r, 1 << 16)
        if not b:
            break
        chunks.append(b)
    os.close(r)
    _, status = os.waitpid(pid, 0)
    code = os.waitstatus_to_exitcode(status)
    data = b"".join(chunks)
    return code, (json.loads(data.decode("utf-8")) if data else None)
