#!/usr/bin/env python3
"""Maintainer tool (never run by a check): after reviewing the violations of a run on the unchanged
tree, record the reviewed keys in known_findings.json.
usage: tools/add_findings.py <ID> [--what-prefix TEXT] [--only REGEX]"""
import glob
import json
import re
import sys
from pathlib import Path

ROOT = Path(__file__).resolve().parents[1]
pid = sys.argv[1]
only = None
prefix = ""
src_root = ROOT
args = sys.argv[2:]
while args:
    a = args.pop(0)
    if a == "--only":
        only = re.compile(args.pop(0))
    elif a == "--what-prefix":
        prefix = args.pop(0)
    elif a == "--from":          # evidence directory of a background run (vp run snapshot)
        src_root = Path(args.pop(0))
kf = json.loads((ROOT / "known_findings.json").read_text())
have = {(f["property"], f["key"]) for f in kf["findings"]}
ev = json.loads((src_root / "evidence" / f"{pid}.json").read_text())
keys = ev["coverage"]["unknown_violation_keys"]
replays = {}
for f in glob.glob(str(src_root / "evidence" / "replays" / pid / "*.json")):
    r = json.loads(Path(f).read_text())
    replays.setdefault(r["key"], r)
n = 0
for k in keys:
    if (pid, k) in have or (only and not only.search(k)):
        continue
    r = replays.get(k, {})
    d = r.get("detail", {})
    wit = {kk: (str(v)[:300]) for kk, v in d.items() if kk in ("region_text", "witness", "source", "value", "pattern", "file",
                                                                "construct", "text", "snippet", "request", "what", "label")}
    if "source" in wit:
        wit["source"] = wit["source"][:200]
    kf["findings"].append({"property": pid, "key": k, "what": (prefix + r.get("what", k))[:300],
                           "witness": json.dumps(wit, ensure_ascii=False)[:700] if wit else "see ./check %s replay of a case with this key" % pid})
    n += 1
(ROOT / "known_findings.json").write_text(json.dumps(kf, indent=1, ensure_ascii=False) + "\n")
print(f"added {n} findings for {pid}; total {len(kf['findings'])}")
