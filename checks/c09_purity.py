"""C09 - computing changes is pure; performing them touches only what was announced.

Two independent monitors around every window: a sys.addaudithook write tracer scoped to the
scratch parent (project root, the sibling out-of-project folder on python_path, everything else
under the scratch dir) and a byte-level tree snapshot.
  window 1 = get_changes(): no write event, no snapshot difference
  window 2 = project.do():  written paths == real paths of changes.get_changed_resources() that
             actually changed, all inside the project root, none ignored, none in the sibling
             library; bytes on disk == previewed new_contents; the description names every
             changed resource
Requests rope cannot honour must be refused with a RopeError subclass and leave the disk alone.

Workload = EXHAUSTIVE enumeration over fixed specimen projects: every character offset (stride 1
in thorough, 2 in quick) x every refactoring kind x hostile arguments (keyword / empty / dotted /
spaced new names, missing or wrong-kind destinations, resources= restriction), so the set of
outcomes on a given tree does not depend on the seed.
"""
import os
import sys

from vlib import audit, core, pyrun, treesnap

ID = "C09"
READY = True
LEVEL = "exploration"
RULE = ("3 hand-written specimen projects (package, relative imports, class hierarchy, out-of-project sibling "
        "library on python_path that defines names the project uses, an ignored folder with the same names, a "
        "syntax-error file) x every offset (stride by tier) x 17 refactoring kinds x hostile arguments; "
        "non-trivial = request that returned changes and was performed; distinct = (kind, argument class, "
        "file, outcome class, number of files changed)")
ASSUMPTIONS = ["only FileSystemCommands is driven (no VCS back ends)", "audit events are complete for pure-Python "
               "writes (open/os/shutil); rope has no native code"]
BUDGET = {"quick": (100000, 240), "thorough": (1000000, 900)}
EXHAUSTIVE = {"quick": True, "thorough": True}
CASE_TIMEOUT = 600
REQUIRE = {"computed": 2000, "performed": 200, "refused": 500, "audit_events_in_do": 200}
TECHNIQUE = ("audit-hook write tracing + tree snapshots around get_changes() and project.do(), exhaustive over "
             "offsets x refactoring kinds x hostile arguments on fixed specimen projects")
LEVEL_TEXT = ("Every (offset, refactoring kind, argument class) of the specimen projects is executed on the real "
              "code under two independent write monitors; purity of computing, exactness of the announced resource "
              "set and of the previewed contents, containment in the project and the error type of refusals are "
              "checked on each.")
LEVEL_NOTE = ("exhaustive over the request space of two specimen projects, not over projects; version-control "
              "back ends are not exercised; internal exceptions are keyed by (exception type, innermost rope frame)")
DESIGN_REF = "DESIGN.md section 5, C09"

SPEC1 = {
    "app/__init__.py": "",
    "app/models.py": (
        "import extlib\nfrom extlib import shared as sh, Base\nfrom . import util\nfrom .util import helper, LIMIT\n\n\n"
        "class Account(Base):\n    rate = 3\n\n    def __init__(self, owner, balance=0):\n        super().__init__(owner)\n"
        "        self.balance = balance\n        self.log = []\n\n    def deposit(self, amount, note='x'):\n"
        "        tmp = amount * self.rate\n        if tmp > LIMIT:\n            tmp = LIMIT\n        self.balance += tmp\n"
        "        self.log.append((note, tmp))\n        return helper(self.balance) + sh(1)\n\n"
        "    @staticmethod\n    def make(owner):\n        return Account(owner, 10)\n\n\n"
        "def total(accounts, start=0):\n    result = start\n    for acc in accounts:\n        result = result + acc.balance\n"
        "    return result * 2 + 1\n\n\ncache = total([Account.make('a')])\n"),
    "app/util.py": (
        "LIMIT = 100\n\n\ndef helper(x, y=2):\n    z = x * 2 + y\n    return z\n\n\ndef unused(a):\n    return a * 2 + 1\n"),
    "main.py": (
        "import app.models as m\nfrom app.util import helper as h\nimport extlib\n\nacc = m.Account('me')\n"
        "print(acc.deposit(5, note='n'), m.total([acc]), h(3, y=1), extlib.shared(2), m.cache)\n"),
    "ignored_dir/models.py": "class Account:\n    balance = 0\n\ndef helper(x):\n    return x\n",
    # ignored through a `//` pattern (zero or more folders): real users of the project's names, directly under
    # the folder and two levels below it
    "gen/top_pb2.py": ("from app.util import helper, LIMIT\nfrom app.models import Account, total\n\n"
                       "print(helper(LIMIT), total([Account('g')]))\n"),
    "gen/deep/er/low_pb2.py": ("from app.util import helper, LIMIT\nfrom app.models import Account, total\n\n"
                               "print(helper(LIMIT), total([Account('g')]))\n"),
}
EXT = {"extlib.py": "def shared(x):\n    return x + 1\n\n\nclass Base:\n    def __init__(self, owner):\n        self.owner = owner\n"}

SPEC2 = {
    "a.py": ("K = 2\n\n\ndef f(p, q=K):\n    v = p + q\n    w = v * 2\n    return w + v\n\n\nclass C:\n    def m(self, t):\n"
             "        u = f(t)\n        return u + self.n\n\n    n = 5\n\n\nr = f(1) + C().m(2)\n"),
    "b.py": "from a import f, C, K\nimport a\n\nprint(f(K), a.f(2, q=3), C().m(1), a.r)\n",
    "pkg/__init__.py": "from a import f as g\n",
    "pkg/c.py": "from . import g\nfrom a import *\n\nx = g(3) + f(4)\nlam = lambda z: z + K\n",
}
# a project in which one module does not parse: project-wide refactorings must refuse cleanly
SPEC3 = {"ok.py": "import extlib\n\ndef f(a):\n    return extlib.shared(a)\n\nv = f(1)\n", "broken.py": "def oops(:\n    pass\n"}
SPECIMENS = [("spec1", SPEC1, EXT, ["app/models.py", "app/util.py", "main.py"]),
             ("spec2", SPEC2, {}, ["a.py", "b.py", "pkg/c.py", "pkg/__init__.py"]),
             ("spec3", SPEC3, EXT, ["ok.py", "broken.py"])]

KINDS = ["rename", "rename-bad-name", "extract-method", "extract-variable", "inline", "move", "move-bad-dest",
         "change-signature", "introduce-parameter", "encapsulate-field", "introduce-factory", "method-object",
         "local-to-field", "use-function", "import-actions", "module-to-package", "restructure", "rename-restricted"]
CHUNK = 40   # offsets per case


def cases(tier, seed):
    stride = 2 if tier == "quick" else 1
    for si, (name, files, ext, targets) in enumerate(SPECIMENS):
        for path in targets:
            n = len(files[path]) + 1
            offs = list(range(0, n, stride))
            for i in range(0, len(offs), CHUNK):
                for kind in KINDS:
                    yield {"spec": si, "path": path, "offsets": offs[i:i + CHUNK], "kind": kind}


def _setup(tmp, files, ext):
    root = os.path.join(tmp, "proj")
    sib = os.path.join(tmp, "sibling")
    os.makedirs(root)
    os.makedirs(sib)
    pyrun.write_project(root, files)
    pyrun.write_project(sib, ext)
    return root, sib


def _project(root, sib):
    from rope.base.project import Project
    return Project(root, ropefolder=None, automatic_soa=False, save_history=False, save_objectdb=False,
                   python_path=[sib], ignored_resources=["ignored_dir", "*.pyc", "gen//*_pb2.py"])


def _requests(kind, project, path, offset, src):
    """[(argument class, callable -> changes)] for one (kind, offset)."""
    from rope.refactor import (change_signature, encapsulate_field, extract, inline, introduce_factory,
                               introduce_parameter, localtofield, method_object, move, rename, restructure,
                               topackage, usefunction)
    from rope.refactor.importutils import ImportOrganizer
    res = project.get_file(path)
    out = []
    if kind == "rename":
        out.append(("fresh", lambda: rename.Rename(project, res, offset).get_changes("fresh_nm")))
    elif kind == "rename-bad-name":
        for cls, nm in (("keyword", "for"), ("empty", ""), ("dotted", "a.b"), ("space", "has space")):
            out.append((cls, lambda nm=nm: rename.Rename(project, res, offset).get_changes(nm)))
    elif kind == "rename-restricted":
        out.append(("resources=[self]", lambda: rename.Rename(project, res, offset).get_changes("fresh_nm", resources=[res])))
    elif kind == "extract-method":
        for ln in (1, 7, 25):
            out.append((f"len{ln}", lambda ln=ln: extract.ExtractMethod(project, res, offset, min(len(src), offset + ln)).get_changes("extracted_q")))
    elif kind == "extract-variable":
        for ln in (1, 5):
            out.append((f"len{ln}", lambda ln=ln: extract.ExtractVariable(project, res, offset, min(len(src), offset + ln)).get_changes("extracted_q")))
    elif kind == "inline":
        out.append(("default", lambda: inline.create_inline(project, res, offset).get_changes()))
    elif kind == "move":
        dests = [p for p in ("app/util.py", "a.py", "b.py") if project.get_file(p).exists() and p != path]
        if dests:
            out.append(("to-module", lambda: move.create_move(project, res, offset).get_changes(project.get_file(dests[0]))))
    elif kind == "move-bad-dest":
        out.append(("missing-module", lambda: move.create_move(project, res, offset).get_changes(project.get_file("nope/none.py"))))
        out.append(("folder-for-global", lambda: move.create_move(project, res, offset).get_changes(project.root)))
        out.append(("none", lambda: move.create_move(project, res, offset).get_changes(None)))
    elif kind == "change-signature":
        out.append(("normalize", lambda: change_signature.ChangeSignature(project, res, offset).get_changes(
            [change_signature.ArgumentNormalizer()])))
        out.append(("remove-9", lambda: change_signature.ChangeSignature(project, res, offset).get_changes(
            [change_signature.ArgumentRemover(9)])))
    elif kind == "introduce-parameter":
        out.append(("default", lambda: introduce_parameter.IntroduceParameter(project, res, offset).get_changes("newp")))
    elif kind == "encapsulate-field":
        out.append(("default", lambda: encapsulate_field.EncapsulateField(project, res, offset).get_changes()))
    elif kind == "introduce-factory":
        out.append(("static", lambda: introduce_factory.IntroduceFactory(project, res, offset).get_changes("create")))
    elif kind == "method-object":
        out.append(("default", lambda: method_object.MethodObject(project, res, offset).get_changes("Obj")))
    elif kind == "local-to-field":
        out.append(("default", lambda: localtofield.LocalToField(project, res, offset).get_changes()))
    elif kind == "use-function":
        out.append(("default", lambda: usefunction.UseFunction(project, res, offset).get_changes()))
    elif kind == "import-actions":
        if offset < 10:   # per file, not per offset
            act = ["organize_imports", "expand_star_imports", "froms_to_imports", "relatives_to_absolutes", "handle_long_imports"][offset // 2]
            out.append((act, lambda: getattr(ImportOrganizer(project), act)(res)))
    elif kind == "module-to-package":
        if offset == 0:
            out.append(("default", lambda: topackage.ModuleToPackage(project, res).get_changes()))
    elif kind == "restructure":
        if offset < 6:
            pats = [("${a} * 2 + ${b}", "helper(${a}, ${b})"), ("${x}.balance", "${x}.get_balance()"), ("${a} + ${b}", "${b} + ${a}")]
            pat, goal = pats[offset // 2]
            out.append((f"pattern{offset // 2}", lambda: restructure.Restructure(project, pat, goal).get_changes(resources=[res])))
    return out


def run_case(spec):
    from rope.base import exceptions
    from rope.base.change import ChangeContents, ChangeSet, MoveResource
    res = core.Result()
    name, files, ext, _ = SPECIMENS[spec["spec"]]
    path, kind = spec["path"], spec["kind"]
    src = files[path]
    with core.Scratch() as tmp:
        root, sib = _setup(tmp, files, ext)
        base_snap = treesnap.snap(tmp)
        audit.install()
        for offset in spec["offsets"]:
            project = _project(root, sib)
            for argcls, fn in _requests(kind, project, path, offset, src):
                res.evals()
                feats = f"{kind}|{argcls}"
                # ---------------- window 1: computing
                with audit.watch([tmp]) as w1:
                    exc = changes = None
                    try:
                        changes = fn()
                    except BaseException as e:
                        exc = e
                ev1 = list(w1)
                snap1 = treesnap.snap(tmp)
                res.ev("computed")
                if ev1 or snap1 != base_snap:
                    res.violation(f"compute-wrote|{kind}", "computing the changes wrote to disk",
                                  events=[tuple(e) for e in ev1][:5], diff=treesnap.diff(base_snap, snap1), offset=offset, file=path)
                    pyrun.write_project(root, files)
                    continue
                if exc is not None:
                    if isinstance(exc, exceptions.RopeError):
                        res.ev("refused")
                        res.outcome("refused")
                    elif isinstance(exc, (KeyboardInterrupt, SystemExit)):
                        raise exc
                    else:
                        res.violation(f"internal:{core.exc_sig(exc)}|{kind}",
                                      f"{kind}({argcls}) raised {type(exc).__name__} instead of a rope error: {exc}"[:300],
                                      offset=offset, file=path, specimen=name, near=src[max(0, offset - 15):offset + 15])
                    continue
                if changes is None:
                    res.outcome("no-change")
                    continue
                # ---------------- window 2: performing
                announced = {r.real_path: r for r in changes.get_changed_resources()}
                try:
                    descr = changes.get_description()
                except Exception as e:
                    res.violation(f"description-raised:{core.exc_sig(e)}|{kind}", "get_description() raised", offset=offset)
                    continue
                previews = {}

                def collect(c):
                    if isinstance(c, ChangeSet):
                        for x in c.changes:
                            collect(x)
                    elif isinstance(c, ChangeContents):
                        previews[c.resource.real_path] = c.new_contents
                collect(changes)
                with audit.watch([tmp]) as w2:
                    exc = None
                    try:
                        project.do(changes)
                    except BaseException as e:
                        exc = e
                res.ev("performed")
                res.ev("audit_events_in_do", len(w2))
                snap2 = treesnap.snap(tmp)
                diff = treesnap.diff(base_snap, snap2)
                changed_paths = {os.path.join(tmp, p) for p, _ in diff}
                if exc is not None:
                    res.violation(f"do-raised:{core.exc_sig(exc)}|{kind}", f"performing raised {exc!r}"[:200], offset=offset, file=path)
                written = set()
                for e in w2:
                    for p in (e.path, e.path2):
                        if p and os.path.realpath(p).startswith(os.path.realpath(tmp)):
                            written.add(os.path.realpath(p))
                real_announced = {os.path.realpath(p) for p in announced}
                bad = None
                for p in sorted(changed_paths | written):
                    rp = os.path.realpath(p)
                    if not rp.startswith(os.path.realpath(root) + os.sep):
                        bad = ("outside-project" if not rp.startswith(os.path.realpath(sib)) else "out-of-project-library-modified", rp)
                    elif "/ignored_dir" in rp or rp.endswith("_pb2.py"):
                        bad = ("ignored-resource-modified", rp)
                    elif rp not in real_announced and not any(rp.startswith(a + os.sep) or a.startswith(rp + os.sep) for a in real_announced):
                        bad = ("unannounced-resource-touched", rp)
                    if bad:
                        break
                if bad:
                    res.violation(f"{bad[0]}|{kind}", f"performing {kind} touched {os.path.relpath(bad[1], tmp)}, which is "
                                  f"not allowed / not announced", offset=offset, file=path, announced=sorted(os.path.relpath(a, tmp) for a in real_announced))
                else:
                    # previewed contents == bytes written
                    for rp, text in previews.items():
                        if os.path.exists(rp) and isinstance(text, str):
                            with open(rp, "r", encoding="utf-8", newline="") as f:
                                if f.read() != text:
                                    res.violation(f"written-differs-from-preview|{kind}", "bytes on disk differ from the "
                                                  "previewed new_contents", file=os.path.relpath(rp, tmp))
                                    break
                    else:
                        def mentioned(rel):
                            # the file itself, or a folder that contains it (a folder move lists the folder)
                            parts = rel.split("/")
                            return any("/".join(parts[:i]) in descr for i in range(len(parts), 0, -1))
                        missing = [os.path.relpath(p, root) for p in changed_paths
                                   if os.path.isfile(p) and not mentioned(os.path.relpath(p, root).replace(os.sep, "/"))]
                        if missing and exc is None:
                            res.violation(f"description-omits-changed-resource|{kind}", "the previewed description does not "
                                          "mention a resource that was changed", missing=missing)
                        else:
                            res.outcome("performed-as-announced")
                            res.shape([kind, argcls, path, len(diff)])
                # restore
                for p in list(changed_paths):
                    pass
                import shutil
                shutil.rmtree(root)
                shutil.rmtree(sib)
                root, sib = _setup(tmp, files, ext)
                project = _project(root, sib)
        res.sample({"specimen": name, "file": path, "kind": kind, "offsets": spec["offsets"][:3]})
    return res


if __name__ == "__main__":
    core.main(sys.modules[__name__])
