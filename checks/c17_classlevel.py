"""C17 - the remaining class-level refactorings preserve behaviour or are refused.

Dedicated generator: a library class with fields that are read, written, augmented-written, used
in attribute chains, (rarely) in tuple targets, constructor calls in every import style, methods
with locals, a function whose body occurs elsewhere.  Two clients use the class.  Every
field / class / function / local is a target of EncapsulateField, IntroduceFactory (static and
global), MethodObject, LocalToField, UseFunction.  Oracle: compiles + same output, or RopeError +
untouched tree.
"""
import os
import sys

from vlib import behave, core, pyrun

ID = "C17"
READY = True
LEVEL = "exploration"
RULE = ("generated library class + 2 clients x import style x field usage shapes {read, write, augmented write, "
        "chain on call result, tuple target, use inside own class, use in subclass}; refactorings: encapsulate "
        "field (default and custom accessor names), introduce factory (static/global), method object, local to "
        "field, use function; non-trivial = performed request that changed >= 1 file; distinct = (refactoring, "
        "options, import styles, usage shapes present, outcome)")
ASSUMPTIONS = ["receivers are statically determined (instance assigned once from the class in the same scope)",
               "field values are ints; generated expressions are pure"]
BUDGET = {"quick": (2500, 240), "thorough": (35000, 900)}
EXHAUSTIVE = {}
CASE_TIMEOUT = 300
REQUIRE = {"performed_and_run": 300}
TECHNIQUE = ("differential execution of generated multi-module programs before/after each class-level "
             "refactoring performed by the real code")
LEVEL_TEXT = ("Each refactoring is performed by the real code on generated programs that use the class from "
              "several modules in all usage shapes, and the result is executed.")
LEVEL_NOTE = "sampled programs in fragment F; known rope defects are listed by mechanism in known_findings.json"
DESIGN_REF = "DESIGN.md section 5, C17"

REFS = ["encapsulate", "encapsulate-custom", "factory-static", "factory-global", "method-object", "local-to-field",
        "use-function"]


def cases(tier, seed):
    i = 0
    while True:
        yield {"seed": f"{seed}/C17/{i}"}
        i += 1


def gen_project(rnd):
    shapes = set()
    sub = rnd.random() < 0.3
    comment_ok = rnd.random() < 0.15
    lib = ["class Acc:", "    rate = 2", "", "    def __init__(self, start, step=1):", "        self.total = start",
           "        self.count = 0", "        self.step = step", "",
           "    def add(self, n):", "        self.total = self.total + n * self.step", "        self.count += 1",
           "        return self.total", "",
           "    def scale(self, k):", "        tmp = self.total * k", "        res = tmp + self.rate",
           "        if res > 100:", "            res = tmp", "        return res + tmp", ""]
    if sub:
        lib += ["class Sub(Acc):", "    def bump(self):", "        self.total += 10", "        return self.total", ""]
        shapes.add("subclass-augmented-write")
    # module-level code that uses the definitions while the module is being imported, placed right after them
    at_import = rnd.random() < 0.5
    if at_import:
        lib += ["_SCALED_AT_IMPORT = Acc(2).scale(3)", "_ADDED_AT_IMPORT = Acc(1, step=2).add(4)", ""]
        shapes.add("used-at-import-time")
    lib += ["def compute(a, b):", "    s = a * 2", "    t = s + b", "    if t > 50:", "        t = t - s", "    return t + s", ""]
    if at_import:
        lib += ["_COMPUTED_AT_IMPORT = compute(3, 4)", ""]
    lib += ["def double_plus(a, b):", "    return a * 2 + b", "",
            "def helper(v):", "    w = v * 2 + 1", "    return w", ""]
    if at_import:
        lib += ["print('lib at import', _SCALED_AT_IMPORT, _ADDED_AT_IMPORT, _COMPUTED_AT_IMPORT, helper(2))", ""]
    text = "\n".join(lib) + "\n"
    if not at_import and rnd.random() < 0.4:
        # the last definition ends the file, without a final newline
        a_ = "def double_plus(a, b):\n    return a * 2 + b\n\n"
        b_ = "def helper(v):\n    w = v * 2 + 1\n    return w\n"
        text = text.rstrip("\n") + "\n"
        if text.endswith(a_ + b_):
            text = text[:-len(a_ + b_)] + b_ + "\n" + a_     # the single-expression function comes last
        text = text.rstrip("\n")
        shapes.add("no-final-newline")
    files = {"lib.py": text}
    styles = []
    for ci, cname in enumerate(["client_a.py", "client_b.py"]):
        style = rnd.choice(["import", "alias", "from", "from-as"])
        styles.append(style)
        if style == "import":
            L, acc, pre = ["import lib"], "lib.Acc", "lib."
        elif style == "alias":
            L, acc, pre = ["import lib as M"], "M.Acc", "M."
        elif style == "from":
            L, acc, pre = ["from lib import Acc, compute, double_plus" + (", Sub" if sub else "")], "Acc", ""
        else:
            L, acc, pre = ["from lib import Acc as A2, compute, double_plus" + (", Sub" if sub else "")], "A2", ""
        L += ["", f"o = {acc}(5)", "print('t0', o.total, o.count)"]
        uses = rnd.sample(["read", "write", "aug", "chain", "tuple", "kwctor", "expr-read", "del-read", "two-objs",
                           "multiline-write", "backslash-write", "multiline-aug"] +
                          (["write-with-comment"] if comment_ok else []), rnd.randint(3, 7))
        for u in uses:
            if u == "tuple" and rnd.random() < 0.7:
                continue
            shapes.add(u)
            if u == "read":
                L.append("print('read', o.total + 1)")
            elif u == "write":
                L += ["o.total = 7", "print('w', o.total)"]
            elif u == "aug":
                L += ["o.total += 3", "o.total *= 2", "print('aug', o.total)"]
            elif u == "chain":
                L.append(f"print('chain', {acc}(1).total, {acc}(2, step=3).add(1))")
            elif u == "tuple":
                L += ["z, o.total = 1, 2", "print('tuple', z, o.total)"]
            elif u == "kwctor":
                L += [f"p = {acc}(start=4, step=2)", "print('kw', p.add(1), p.total)"]
            elif u == "expr-read":
                L.append("print('expr', [o.total, o.total * 2][1] - o.count)")
            elif u == "del-read":
                L.append("print('cmp', o.total > 3 and o.total < 1000)")
            elif u == "multiline-write":
                L += [f"o.total = {pre}compute(o.total, 3) + (", "    o.count + 1", ")", "print('mlw', o.total)"]
            elif u == "backslash-write":
                L += ["o.total = o.total + \\", "    2", "print('bsw', o.total)"]
            elif u == "multiline-aug":
                L += ["o.total += (1 +", "            2)", "print('mla', o.total)"]
            elif u == "write-with-comment":
                L += ["o.total = 11  # reset (total)", "print('wc', o.total)"]
            elif u == "two-objs":
                L += [f"q = {acc}(9)", "q.total = o.total + 1", "print('two', q.total, o.total)"]
        L += ["print('add', o.add(2), o.scale(3))", f"print('fn', {pre}compute(3, 4), {pre}double_plus(2, 5))",
              "n = 6", "print('uf', n * 2 + 1, (n + 1) * 2 + n)"]
        if sub:
            L += [f"s = {pre}Sub(1)", "print('sub', s.bump(), s.total)"]
        files[cname] = "\n".join(L) + "\n"
    files["main.py"] = "import client_a\nimport client_b\n"
    files["import_all.py"] = "import lib, client_a, client_b\n"
    return files, {"styles": styles, "shapes": sorted(shapes), "sub": sub}


def run_case(spec):
    from rope.refactor import encapsulate_field, introduce_factory, localtofield, method_object, usefunction
    res = core.Result()
    rnd = core.rng(spec)
    files, meta = gen_project(rnd)
    with core.Scratch() as tmp:
        case = behave.Case.__new__(behave.Case)
        case.root, case.files = tmp + "/p", files
        os.makedirs(case.root)
        pyrun.write_project(case.root, files)
        case.baseline = pyrun.behaviour(case.root)
        if not all(b[0] == 0 for b in case.baseline):
            res.ev("discarded_invalid_projects")
            res.outcome("discarded")
            res.sample({"discarded": files, "err": [b[2] for b in case.baseline]})
            return res
        res.ev("projects")
        lib = files["lib.py"]
        for ref in rnd.sample(REFS, 4):
            where = "lib.py"
            if ref.startswith("encapsulate"):
                # query the field at its definition or at a use in a client
                if rnd.random() < 0.5:
                    offset = lib.index("self.total = start") + 6
                else:
                    where = rnd.choice(["client_a.py", "client_b.py"])
                    offset = files[where].index("o.total") + 3
                kw = {} if ref == "encapsulate" else {"getter": "read_total", "setter": "write_total"}

                def request(project, where=where, offset=offset, kw=kw):
                    return encapsulate_field.EncapsulateField(project, project.get_file(where), offset).get_changes(**kw)
            elif ref.startswith("factory"):
                if rnd.random() < 0.5:
                    offset = lib.index("class Acc") + 7
                else:
                    where = rnd.choice(["client_a.py", "client_b.py"])
                    src = files[where]
                    offset = (src.index("Acc(") if "Acc(" in src else src.index("A2(")) + 1
                glob = ref == "factory-global"

                def request(project, where=where, offset=offset, glob=glob):
                    return introduce_factory.IntroduceFactory(project, project.get_file(where), offset).get_changes(
                        "make_acc", global_factory=glob)
            elif ref == "method-object":
                offset = lib.index("def compute") + 5

                def request(project, offset=offset):
                    return method_object.MethodObject(project, project.get_file("lib.py"), offset).get_changes("ComputeObj")
            elif ref == "local-to-field":
                offset = lib.index("tmp = self.total") + 1

                def request(project, offset=offset):
                    return localtofield.LocalToField(project, project.get_file("lib.py"), offset).get_changes()
            else:
                target = rnd.choice(["double_plus", "helper"])
                offset = lib.index("def " + target) + 5

                def request(project, offset=offset):
                    return usefunction.UseFunction(project, project.get_file("lib.py"), offset).get_changes()
                ref = "use-function:" + target

            label = None
            if ref.startswith("encapsulate") and "write-with-comment" in meta["shapes"]:
                label = "field-write-followed-by-a-trailing-comment"
            if label:
                feats = f"hostile:{ref.split('-')[0]}:{label}"
            else:
                feats = f"core|{ref}|at={'def' if where == 'lib.py' else 'client'}"
            out = behave.judge(case, request, res, "classlevel", feats, coarse=bool(label),
                               detail={"files": files, "ref": ref, "query": [where, offset], "meta": meta})
            if out in ("preserved", "violation"):
                res.ev("performed_and_run")
                res.shape([ref, meta["styles"], meta["shapes"], out])
            elif out == "refused":
                res.ev("refused")
        res.sample({"meta": meta, "client_a": files["client_a.py"]})
    return res


if __name__ == "__main__":
    core.main(sys.modules[__name__])
