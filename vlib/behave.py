"""Shared machinery of the behaviour-preservation checks (C01, C03-C07, C17):
generate + self-validate a project, apply one refactoring request through rope, judge.

Verdict of one request (`judge`):
  refused     rope raised a RopeError subclass and the tree is untouched
  preserved   all files compile and the entry points print exactly the same
  violation   anything else: internal exception, refusal that changed the tree, file that no longer
              compiles, different output / exception / exit status, timeout
"""
import os
import shutil

from vlib import core, pygen, pyrun, treesnap


class Case:
    """A generated, self-validated project on disk."""

    def __init__(self, seed, profile, root, **overrides):
        self.seed, self.profile, self.root = seed, profile, root
        self.files, self.gen = pygen.generate(seed, profile, **overrides)
        os.makedirs(root, exist_ok=True)
        pyrun.write_project(root, self.files)
        self.baseline = pyrun.behaviour(root)
        self.valid = all(b[0] == 0 for b in self.baseline) and " at 0x" not in self.baseline[0][1]
        if self.valid:  # deterministic? (address reprs, hash order, ...)
            self.valid = pyrun.behaviour(root) == self.baseline

    def restore(self):
        """Put the original files back (after a performed refactoring)."""
        for dp, dns, fns in os.walk(self.root, topdown=False):
            for fn in fns:
                os.remove(os.path.join(dp, fn))
            for dn in dns:
                shutil.rmtree(os.path.join(dp, dn), ignore_errors=True)
        pyrun.write_project(self.root, self.files)

    def project(self, **prefs):
        from rope.base.project import Project
        kw = dict(ropefolder=None, automatic_soa=False, save_history=False, save_objectdb=False)
        kw.update(prefs)
        return Project(self.root, **kw)


def compile_errors(root):
    errs = []
    for path, text in pyrun.read_project(root).items():
        if path.endswith(".py"):
            try:
                compile(text, path, "exec")
            except SyntaxError as e:
                errs.append((path, f"{type(e).__name__}: {e.msg}"))
    return errs


def failure_mode(before, after):
    """Finite classification of a behaviour difference (before/after = pyrun.behaviour lists)."""
    for (rc0, out0, err0), (rc1, out1, err1) in zip(before, after):
        if (rc0, out0) == (rc1, out1):
            continue
        if rc1 == "timeout":
            return "timeout"
        if rc1 != 0:
            exc = err1.split(":")[0].strip() if err1 else "exit"
            exc = exc if exc.isidentifier() else "exit"
            return "raises:" + exc
        # same exit status, different output: did a call start raising inside _show?
        l0, l1 = out0.splitlines(), out1.splitlines()
        for a, b in zip(l0, l1):
            if a != b:
                if " raised " in b and " raised " not in a:
                    return "call-raises:" + b.split(" raised ", 1)[1].split(" ")[0]
                return "output-differs"
        return "output-length-differs"
    return None


def _template(msg):
    """Message of a Python exception with every program-specific part removed (quoted names,
    callable names, numbers): a finite vocabulary such as `got-an-unexpected-keyword-argument`."""
    import re
    msg = re.sub(r"'[^']*'|\"[^\"]*\"", "", msg)
    msg = re.sub(r"[\w.]+\(\)", "", msg)
    msg = msg.split(". Did you mean")[0].split(" Did you")[0]
    words = [w for w in re.findall(r"[A-Za-z]+", msg)]
    return "-".join(words[:7]).lower() or "no-message"


def failure_template(before, after):
    """Exception type + message template of the first behavioural difference ('' if not an exception)."""
    for (rc0, out0, err0), (rc1, out1, err1) in zip(before, after):
        if (rc0, out0) == (rc1, out1):
            continue
        if rc1 == "timeout":
            return ""
        if rc1 != 0:
            if err1 and ":" in err1:
                return _template(err1.split(":", 1)[1])
            return ""
        for a, b in zip(out0.splitlines(), out1.splitlines()):
            if a != b:
                if " raised " in b and " raised " not in a:
                    rest = b.split(" raised ", 1)[1].split(" ", 1)
                    return _template(rest[1] if len(rest) > 1 else "")
                return ""
        return ""
    return ""


class _Proxy:
    def __init__(self, res, violation):
        self._res, self.violation = res, violation

    def __getattr__(self, n):
        return getattr(self._res, n)


def _tree_diff(before_tree, root, limit=5000):
    """Unified diff (context 1) of every changed text file, for witnesses."""
    import difflib
    out = []
    now = treesnap.snap(root)
    for p in sorted(set(before_tree) | set(now)):
        a, b = before_tree.get(p), now.get(p)
        if a == b:
            continue
        ta = a[1].decode("utf-8", "replace") if a and a[0] == "f" else ""
        tb = b[1].decode("utf-8", "replace") if b and b[0] == "f" else ""
        out.append("".join(difflib.unified_diff(ta.splitlines(1), tb.splitlines(1), "a/" + p, "b/" + p, n=1)))
    return "".join(out)[:limit]


def _first_diff(before, after):
    for (rc0, out0, err0), (rc1, out1, err1) in zip(before, after):
        l0, l1 = out0.splitlines(), out1.splitlines()
        for i, (a, b) in enumerate(zip(l0, l1)):
            if a != b:
                return {"line": i, "before": a, "after": b}
        if len(l0) != len(l1) or rc0 != rc1:
            return {"len_before": len(l0), "len_after": len(l1), "rc": [rc0, rc1], "err": err1}
    return None


def judge(case, request, res, key_prefix, features="", detail=None, coarse=False, classify=None, post_check=None):
    """Run `request(project)` -> rope changes (or raises), perform, compare behaviour.
    Returns outcome string.  `features` = extra mechanism text appended to violation keys."""
    from rope.base import exceptions
    detail = detail or {}
    _v = res.violation

    def violation(key, what, **kw):
        kw.update(detail)
        if coarse:
            # labelled hostile class: the finding is the class itself, whatever the symptom
            kw["symptom_key"] = key
            key = f"{key_prefix}|{features}"
            if os.environ.get("VERIF_HOSTILE_SYMPTOM"):
                sc = kw.get("symptom_class")
                if not sc and kw["symptom_key"].startswith(key_prefix + "|") and kw["symptom_key"].endswith("|" + features):
                    sc = kw["symptom_key"][len(key_prefix) + 1:-len(features) - 1]
                key += "|" + (sc or "other")
        _v(key, what, **kw)
    res = _Proxy(res, violation)
    before_tree = treesnap.snap(case.root)
    project = case.project()
    res.evals()
    try:
        changes = request(project)
    except exceptions.RopeError as e:
        if treesnap.snap(case.root) != before_tree:
            res.violation(f"{key_prefix}|refusal-changed-tree|{features}", "a refused request modified files",
                          error=repr(e))
            case.restore()
            return "violation"
        res.outcome("refused")
        return "refused"
    except RecursionError as e:
        res.violation(f"{key_prefix}|internal:RecursionError|{features}", "internal RecursionError", error=repr(e)[:200])
        return "violation"
    except Exception as e:
        import traceback
        res.violation(f"{key_prefix}|internal:{core.exc_sig(e)}|{features}",
                      f"internal exception instead of a refactoring error: {e!r}"[:300],
                      traceback="".join(traceback.format_exception(type(e), e, e.__traceback__))[-1800:])
        if treesnap.snap(case.root) != before_tree:
            case.restore()
        return "violation"
    if changes is None:
        res.outcome("no-change")
        return "no-change"
    if treesnap.snap(case.root) != before_tree:
        res.violation(f"{key_prefix}|compute-changed-tree|{features}", "computing the changes modified files")
        case.restore()
        return "violation"
    try:
        project.do(changes)
    except Exception as e:
        res.violation(f"{key_prefix}|do-raised:{core.exc_sig(e)}|{features}", f"performing the changes raised {e!r}"[:300])
        case.restore()
        return "violation"
    after_tree = treesnap.snap(case.root)
    if after_tree == before_tree:
        res.outcome("no-change")
        return "no-change"
    out = "preserved"
    errs = compile_errors(case.root)
    if errs:
        res.violation(f"{key_prefix}|syntax-error|{features}", f"result does not compile: {errs[0][1]}",
                      file=errs[0][0], new_text=pyrun.read_project(case.root).get(errs[0][0], "")[:3000],
                      diff=_tree_diff(before_tree, case.root))
        out = "violation"
    else:
        after = pyrun.behaviour(case.root)
        fm = failure_mode(case.baseline, after)
        if fm:
            changed = [p for p, _ in treesnap.diff(before_tree, after_tree)]
            fm = fm.replace("call-raises:", "raises:")
            sc = fm
            if fm.startswith("raises:"):
                sc = fm + ":" + failure_template(case.baseline, after)
            if coarse:
                fm = "behaviour"
            if classify and not coarse:
                cause = classify(pyrun.read_project(case.root), fm)
                features = features + "|" + cause
                if "unexplained" not in cause and "n/a" not in cause:
                    fm = "behaviour"   # the cause names the mechanism; the symptom is secondary
            res.violation(f"{key_prefix}|{fm}|{features}", f"behaviour changed ({fm})", changed_files=changed, symptom_class=sc,
                          new_text={p: pyrun.read_project(case.root).get(p, "<gone>")[:3000] for p in changed[:2]},
                          after=[a[2] or a[1][-300:] for a in after], first_diff=_first_diff(case.baseline, after),
                          diff=_tree_diff(before_tree, case.root))
            out = "violation"
        else:
            extra = post_check(pyrun.read_project(case.root)) if post_check else None
            if extra:
                res.violation(f"{key_prefix}|{extra}|{features}", f"behaviour preserved but: {extra}",
                              diff=_tree_diff(before_tree, case.root))
                out = "violation"
            else:
                res.outcome("preserved")
    case.restore()
    return out
