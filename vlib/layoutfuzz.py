"""Validity-preserving layout mutations of Python source (shared by C08, C14, C15).

Every mutation is an edit of the *spelling* of a program that leaves its syntax tree alone; each single
step is accepted only if the interpreter still compile()s the text and `ast.dump` of the new text equals
`ast.dump` of the original (identifier renamings: equal after mapping the new names back).

API
    mutate(text, rnd, n_mutations=8, kinds=None, crlf=False) -> str | None
        text after (up to) n_mutations accepted mutations; None if `text` does not compile or not a single
        mutation could be applied.  Guarantee: compiles, ast.dump-equal to `text`.  `kinds` = iterable of
        names from KINDS (default DEFAULT_KINDS = all kinds that keep ast.dump *exactly* equal).
    mutate_ex(text, rnd, n_mutations=8, kinds=None, crlf=False) -> Mutated | None
        same, with .text, .applied (list of tags like 'string', 'fstring-nest'), .renames {new: old}.
        With 'ident' in kinds, identifiers are renamed consistently to non-ASCII ones and the guarantee
        is `equivalent(orig, new, renames)`.
    equivalent(orig, new, renames=None) -> bool
    tokens(text) -> list[Tok]          tokenize with absolute character offsets, bracket and f-string depth
    line_starts(text) -> list[int]     offsets of the physical lines (split at '\\n' only)
    spell_string(value, rnd, quote=None, was_u=False) -> str     a random literal spelling of a str/bytes value
    SEED_SNIPPETS                      small construct-rich valid sources (f-strings incl. PEP 701, match,
                                       walrus, lambda, async, decorators, star-expressions, ...) to mutate
                                       in addition to real code
    KINDS / DEFAULT_KINDS / ALL_KINDS

Mutation kinds: comment (end of line), comment-line (own line, any indentation, also inside brackets),
backslash (continuation between two tokens), parens (redundant parentheses, optionally multi-line),
bracket-newline (line break, optionally with a comment, between two tokens inside brackets),
semicolon (join two simple statements / trailing ';'), oneliner (`if x:\\n    y` -> `if x: y`), tabs (tabs
between tokens), tab-indent (re-indent a block with tabs), formfeed, blank (blank / whitespace lines,
trailing whitespace), string (re-spell a literal: prefixes, 4 quote styles, escapes), concat (split into an
implicit concatenation), fstring (prefix / quote re-spelling, PEP 701 same-quote nesting, newline or comment
inside a replacement field), number (radix, underscores, exponent, case), ident-nfkc (one occurrence of an
identifier re-spelt with NFKC-equivalent characters: same tree), ident (consistent non-ASCII renaming).
"""
from __future__ import annotations

import ast
import io
import keyword
import tokenize
import unicodedata
import warnings
from bisect import bisect_right
from collections import namedtuple

Tok = namedtuple("Tok", "type string start end srow scol erow ecol pdepth fdepth")
# start/end: absolute character offsets; pdepth: bracket depth *before* the token; fdepth: number of
# enclosing f-strings (FSTRING_START itself has the depth of its surroundings, its parts depth+1)

T = tokenize
_INSIGNIFICANT = {T.NL, T.NEWLINE, T.COMMENT, T.INDENT, T.DEDENT, T.ENDMARKER}
_FS = {T.FSTRING_START, T.FSTRING_MIDDLE, T.FSTRING_END}
_EXACT = {T.STRING, T.COMMENT, T.NAME, T.NUMBER, T.OP, T.FSTRING_START, T.FSTRING_END}


def line_starts(text):
    out = [0]
    i = text.find("\n")
    while i >= 0:
        out.append(i + 1)
        i = text.find("\n", i + 1)
    return out


def tokens(text):
    """Tokens of `text` with character offsets.  Raises tokenize.TokenError / SyntaxError on invalid text."""
    ls = line_starts(text)
    ls.append(len(text) + 1)
    out = []
    pd = fd = 0
    n = len(text)
    for t in T.generate_tokens(io.StringIO(text).readline):
        (sr, sc), (er, ec) = t.start, t.end
        s = min(ls[sr - 1] + sc, n) if sr - 1 < len(ls) else n
        e = min(ls[er - 1] + ec, n) if er - 1 < len(ls) else n
        ty = t.type
        # 3.12 reports the END column of a token spanning several lines in bytes (wrong after non-ASCII
        # characters); the START is reliable, and for these token types .string is the exact source text
        if ty in _EXACT and er != sr:
            k = len(t.string)
            if text[s:s + k] == t.string:
                e = s + k
        if ty == T.FSTRING_START:
            out.append(Tok(ty, t.string, s, e, sr, sc, er, ec, pd, fd))
            fd += 1
            continue
        if ty == T.FSTRING_END:
            out.append(Tok(ty, t.string, s, e, sr, sc, er, ec, pd, fd))
            fd -= 1
            continue
        if ty == T.OP and t.string in ")]}":
            pd -= 1
        out.append(Tok(ty, t.string, s, e, sr, sc, er, ec, pd, fd))
        if ty == T.OP and t.string in "([{":
            pd += 1
    return out


# --------------------------------------------------------------------------- equivalence
def _parse(text, full=True):
    """ast of text; full=True additionally runs the byte-code compiler (late SyntaxErrors)."""
    with warnings.catch_warnings():
        warnings.simplefilter("ignore")
        tree = ast.parse(text)
        if full:
            compile(text, "<layoutfuzz>", "exec", dont_inherit=True)
    return tree


def _dump(tree, renames=None):
    d = ast.dump(tree)
    if renames:
        for new, old in renames.items():
            d = d.replace(repr(unicodedata.normalize("NFKC", new)), repr(old))
    return d


def equivalent(orig, new, renames=None):
    """Both compile and their trees are ast.dump-equal (after mapping renamed identifiers back)."""
    try:
        return _dump(_parse(orig)) == _dump(_parse(new), renames)
    except (SyntaxError, ValueError, RecursionError, MemoryError, OverflowError):
        return False


# --------------------------------------------------------------------------- context
class _Ctx:
    def __init__(self, text, tree):
        self.text = text
        self.tree = tree
        self._toks = None
        self.ls = line_starts(text)
        self._lines = None
        self._inside = None

    @property
    def toks(self):
        if self._toks is None:
            self._toks = tokens(self.text)
        return self._toks

    @property
    def lines(self):
        if self._lines is None:
            self._lines = self.text.split("\n")
        return self._lines

    def off(self, lineno, bytecol):
        """ast (lineno, utf-8 byte column) -> character offset"""
        line = self.lines[lineno - 1]
        if line.isascii():
            return self.ls[lineno - 1] + bytecol
        return self.ls[lineno - 1] + len(line.encode("utf-8")[:bytecol].decode("utf-8", "ignore"))

    def span(self, node):
        return self.off(node.lineno, node.col_offset), self.off(node.end_lineno, node.end_col_offset)

    def string_interior_lines(self):
        """set of 1-based line numbers whose first character lies inside a string / f-string token"""
        if self._inside is None:
            inside = set()
            fstart = None
            for t in self.toks:
                if t.type == T.STRING and t.erow > t.srow and t.fdepth == 0:
                    inside.update(range(t.srow + 1, t.erow + 1))
                elif t.type == T.FSTRING_START and t.fdepth == 0:
                    fstart = t
                elif t.type == T.FSTRING_END and t.fdepth == 1 and fstart is not None:
                    inside.update(range(fstart.srow + 1, t.erow + 1))
                    fstart = None
            self._inside = inside
        return self._inside

    def line_insertable(self, lineno):
        """a new physical line may be inserted before line `lineno` (1-based; len+1 = append)"""
        if lineno in self.string_interior_lines():
            return False
        if lineno >= 2 and lineno - 2 < len(self.lines):
            prev = self.lines[lineno - 2]
            if prev.rstrip(" \t\f").endswith("\\"):
                return False
        return lineno <= len(self.lines)


# --------------------------------------------------------------------------- string spelling
_SIMPLE_ESC = {"\n": "\\n", "\t": "\\t", "\r": "\\r", "\\": "\\\\", "\a": "\\a", "\b": "\\b",
               "\f": "\\f", "\v": "\\v", "'": "\\'", '"': '\\"'}
QUOTES = ("'", '"', "'''", '"""')
STR_PREFIXES = ("", "r", "R")
BYTES_PREFIXES = ("b", "B", "br", "bR", "Br", "BR", "rb", "rB", "Rb", "RB")
FSTR_PREFIXES = ("f", "F", "rf", "rF", "Rf", "RF", "fr", "fR", "Fr", "FR")


def _esc_char(c, rnd, is_bytes, force):
    """a spelling of character c (str of length 1, for bytes: chr(byte)) inside a non-raw literal"""
    o = ord(c)
    opts = []
    if c in _SIMPLE_ESC:
        opts.append(_SIMPLE_ESC[c])
    if o < 256:
        opts.append("\\x%02x" % o)
        opts.append("\\x%02X" % o)
        opts.append("\\%03o" % o)
        if o < 8 and force:
            pass
    if not is_bytes:
        if o < 0x10000:
            opts.append("\\u%04x" % o)
        opts.append("\\U%08x" % o)
        try:
            opts.append("\\N{%s}" % unicodedata.name(c))
        except ValueError:
            pass
    return rnd.choice(opts)


def _body(value, rnd, q, is_bytes, rate):
    chars = [chr(b) for b in value] if is_bytes else list(value)
    out = []
    triple = len(q) == 3
    qc = q[0]
    n = len(chars)
    for i, c in enumerate(chars):
        o = ord(c)
        must = False
        if c == "\\" or c == "\r":
            must = True
        elif c == "\n":
            must = not triple
        elif c == qc:
            if not triple:
                must = True
            else:
                # escape when it could complete a closing delimiter or touches the end
                must = i == n - 1 or (i + 1 < n and chars[i + 1] == qc) or (i > 0 and chars[i - 1] == qc)
        elif is_bytes:
            must = not (32 <= o < 127)
        else:
            must = not c.isprintable() or 0xD800 <= o <= 0xDFFF
        if must or rnd.random() < rate:
            if c in "'\"" and not must and rnd.random() < 0.5:
                out.append("\\" + c)
            else:
                out.append(_esc_char(c, rnd, is_bytes, must))
        else:
            out.append(c)
        if rate and rnd.random() < rate * 0.2:
            out.append("\\\n")  # line continuation inside the literal: contributes nothing
    return "".join(out)


def spell_string(value, rnd, quote=None, was_u=False, allow_raw=True):
    """A random valid literal for the str/bytes `value` (never an f-string).  quote: force a delimiter."""
    is_bytes = isinstance(value, bytes)
    for attempt in range(6):
        q = quote or rnd.choice(QUOTES)
        raw = allow_raw and not was_u and rnd.random() < 0.3 and attempt < 3
        if raw:
            prefix = rnd.choice([p for p in BYTES_PREFIXES if len(p) == 2]) if is_bytes else rnd.choice("rR")
            try:
                body = value.decode("latin-1") if is_bytes else value
            except Exception:
                continue
            if is_bytes and not body.isascii():
                continue
        else:
            if is_bytes:
                prefix = rnd.choice("bB")
            elif was_u:
                prefix = rnd.choice("uU")
            else:
                prefix = ""
            rate = rnd.choice([0.0, 0.0, 0.1, 0.5]) if attempt < 4 else 0.0
            body = _body(value, rnd, q, is_bytes, rate)
        cand = prefix + q + body + q
        try:
            with warnings.catch_warnings():
                warnings.simplefilter("ignore")
                back = ast.literal_eval(cand)
        except (SyntaxError, ValueError, MemoryError):
            continue
        if type(back) is type(value) and back == value:
            return cand
    return None


def _split_prefix(s):
    i = 0
    while i < len(s) and s[i] not in "'\"":
        i += 1
    prefix = s[:i]
    q = s[i:i + 3] if s[i:i + 3] in ("'''", '"""') else s[i:i + 1]
    return prefix, q


# --------------------------------------------------------------------------- mutators
# each returns (edits, tag) with edits = list of (start, end, replacement) or None; `renames` additions
# are returned through ctx.new_renames

COMMENTS = [
    "#", "# plain comment", "#no space", "# ( [ {", "# ) ] }", "# ' single", '# " double', "# ''' triple",
    '# """ triple', "# it's", '# f"{', "# x = f'{a[\"k\"]}'", "# trailing backslash \\", "## # nested # hashes",
    "# def f(): if for while class:", "# a.b.c = (1,", "#\tcomment\twith\ttabs", "# caf\u00e9 \u65e5\u672c\u8a9e \u03bb",
    "# ; x = 1; y = 2", "# \\\" \\'", "#: doc comment", "# }}}{{{ ]][[ ))((", "# r'\\'", "# \"\"\"'''",
]


def _m_comment(ctx, rnd):
    cands = [t for i, t in enumerate(ctx.toks)
             if t.type in (T.NEWLINE, T.NL) and t.fdepth == 0 and t.string != ""
             and (i == 0 or ctx.toks[i - 1].type != T.COMMENT)]
    if not cands:
        return None
    t = rnd.choice(cands)
    pad = rnd.choice(["", " ", "  ", "\t", "   "])
    return [(t.start, t.start, pad + rnd.choice(COMMENTS))], "comment"


def _indent_of(line):
    return line[:len(line) - len(line.lstrip(" \t\f"))]


def _m_comment_line(ctx, rnd):
    nl = len(ctx.lines)
    for _ in range(6):
        ln = rnd.randint(1, nl)
        if not ctx.line_insertable(ln):
            continue
        nxt = ctx.lines[ln - 1]
        ind = rnd.choice([_indent_of(nxt), _indent_of(nxt), "", " " * rnd.randint(0, 12), "\t"])
        if "\f" in ind:
            ind = ""
        return [(ctx.ls[ln - 1], ctx.ls[ln - 1], ind + rnd.choice(COMMENTS) + "\n")], "comment-line"
    return None


def _gaps(ctx, need_space=False):
    """indices i such that toks[i], toks[i+1] are significant, on one physical line, outside f-strings,
    with a whitespace-only gap"""
    toks = ctx.toks
    out = []
    for i in range(len(toks) - 1):
        a, b = toks[i], toks[i + 1]
        if a.type in _INSIGNIFICANT or b.type in _INSIGNIFICANT:
            continue
        if a.type in _FS and a.type != T.FSTRING_END or b.type in _FS and b.type != T.FSTRING_START:
            continue
        if a.fdepth != 0 and a.type != T.FSTRING_END or b.fdepth != 0:
            continue
        if a.erow != b.srow:
            continue
        gap = ctx.text[a.end:b.start]
        if gap.strip(" \t\f") != "":
            continue
        if need_space and not gap:
            continue
        out.append(i)
    return out


def _m_backslash(ctx, rnd):
    g = _gaps(ctx)
    if not g:
        return None
    i = rnd.choice(g)
    a, b = ctx.toks[i], ctx.toks[i + 1]
    pre = rnd.choice(["", " ", " ", "  "])
    post = rnd.choice(["", " ", "    ", "\t", "        "])
    if ctx.text[a.end:b.start] == "" and a.type in (T.NAME, T.NUMBER) and b.type in (T.NAME, T.NUMBER):
        return None
    if a.type in (T.NAME, T.NUMBER) and b.type in (T.NAME, T.NUMBER, T.STRING, T.FSTRING_START) and not post:
        post = " "  # a backslash-newline does not separate tokens: keep one blank
    return [(a.end, b.start, pre + "\\\n" + post)], "backslash"


def _wrappable_exprs(ctx):
    out = []

    def visit(node, parent):
        for child in ast.iter_child_nodes(node):
            if isinstance(node, ast.JoinedStr) and isinstance(child, (ast.Constant, ast.FormattedValue)):
                if isinstance(child, ast.FormattedValue):
                    visit(child, node)
                continue
            if isinstance(child, ast.expr) and not isinstance(child, (ast.Slice, ast.Starred)) \
                    and hasattr(child, "end_lineno"):
                out.append(child)
            visit(child, node)

    visit(ctx.tree, None)
    return out


def _m_parens(ctx, rnd):
    ex = _wrappable_exprs(ctx)
    if not ex:
        return None
    node = rnd.choice(ex)
    s, e = ctx.span(node)
    if not (0 <= s < e <= len(ctx.text)):
        return None
    style = rnd.random()
    ind = _indent_of(ctx.lines[node.lineno - 1]) + "    "
    if style < 0.55:
        o, c, tag = "(", ")", "parens"
    elif style < 0.7:
        o, c, tag = "( ", " )", "parens"
    elif style < 0.9:
        o, c, tag = "(\n" + ind, "\n" + ind + ")", "parens-multiline"
    else:
        o, c, tag = "(  " + rnd.choice(COMMENTS) + "\n" + ind, "\n" + ind + ")", "parens-multiline"
    return [(s, s, o), (e, e, c)], tag


def _m_bracket_newline(ctx, rnd):
    """inside brackets a gap between two tokens becomes a line break (optionally with a comment)"""
    g = [i for i in _gaps(ctx) if ctx.toks[i + 1].pdepth > 0 and ctx.toks[i + 1].fdepth == 0
         and ctx.toks[i].fdepth == 0]
    if not g:
        return None
    i = rnd.choice(g)
    a, b = ctx.toks[i], ctx.toks[i + 1]
    ind = rnd.choice(["", " ", "    ", "\t", " " * rnd.randint(0, 16), _indent_of(ctx.lines[a.srow - 1]) + "    "])
    if "\f" in ind:
        ind = ""
    r = rnd.random()
    if r < 0.7:
        mid = "\n"
    elif r < 0.85:
        mid = "  " + rnd.choice(COMMENTS) + "\n"
    else:
        mid = "\n\n"
    return [(a.end, b.start, mid + ind)], "bracket-newline"


_SIMPLE = (ast.Expr, ast.Assign, ast.AugAssign, ast.AnnAssign, ast.Return, ast.Delete, ast.Pass, ast.Import,
           ast.ImportFrom, ast.Global, ast.Nonlocal, ast.Assert, ast.Raise, ast.Break, ast.Continue)
if hasattr(ast, "TypeAlias"):
    _SIMPLE = _SIMPLE + (ast.TypeAlias,)


def _bodies(tree):
    for node in ast.walk(tree):
        for field in ("body", "orelse", "finalbody"):
            b = getattr(node, field, None)
            if isinstance(b, list) and b and isinstance(b[0], ast.stmt):
                yield node, field, b


def _m_semicolon(ctx, rnd):
    cands = []
    for node, field, b in _bodies(ctx.tree):
        for s1, s2 in zip(b, b[1:]):
            if isinstance(s1, _SIMPLE) and isinstance(s2, _SIMPLE):
                cands.append((s1, s2))
        for s1 in b:
            if isinstance(s1, _SIMPLE):
                cands.append((s1, None))
    if not cands:
        return None
    for _ in range(6):
        s1, s2 = rnd.choice(cands)
        e1 = ctx.span(s1)[1]
        if s2 is None:
            rest_end = ctx.text.find("\n", e1)
            rest_end = len(ctx.text) if rest_end < 0 else rest_end
            if ctx.text[e1:rest_end].strip(" \t") == "":
                return [(e1, e1, rnd.choice([";", " ;", "; "]))], "semicolon-trailing"
            continue
        b2 = ctx.span(s2)[0]
        gap = ctx.text[e1:b2]
        if gap.strip(" \t\n\f") == "" and gap.count("\n") >= 1:
            return [(e1, b2, rnd.choice(["; ", ";", " ; ", ";\t", ";  "]))], "semicolon"
    return None


def _m_oneliner(ctx, rnd):
    cands = []
    for node, field, b in _bodies(ctx.tree):
        if len(b) == 1 and isinstance(b[0], _SIMPLE) and not isinstance(node, ast.Module):
            cands.append(b[0])
    if not cands:
        return None
    st = rnd.choice(cands)
    s = ctx.span(st)[0]
    # token just before the statement must be ':' separated by newline + indentation only
    j = s - 1
    while j >= 0 and ctx.text[j] in " \t\n\f":
        j -= 1
    if j < 0 or ctx.text[j] != ":" or "\n" not in ctx.text[j + 1:s]:
        return None
    return [(j + 1, s, rnd.choice([" ", "  ", "\t", ""]))], "oneliner"


def _m_tabs(ctx, rnd):
    g = _gaps(ctx)
    if not g:
        return None
    i = rnd.choice(g)
    a, b = ctx.toks[i], ctx.toks[i + 1]
    gap = ctx.text[a.end:b.start]
    if not gap and not (a.type == T.OP or b.type == T.OP):
        return None
    if not gap and a.type == T.OP and b.type == T.OP and a.string + b.string in ("**", "//", ">>", "<<", "->", ":="):
        pass  # separate tokens already; whitespace keeps them separate
    return [(a.end, b.start, rnd.choice(["\t", "\t\t", " \t", "\t ", " \t ", "   "]))], "tabs"


def _m_tab_indent(ctx, rnd):
    cands = [(node, b) for node, field, b in _bodies(ctx.tree) if not isinstance(node, ast.Module)]
    if not cands:
        return None
    for _ in range(4):
        node, b = rnd.choice(cands)
        first, last = b[0].lineno, b[-1].end_lineno
        decs = getattr(b[0], "decorator_list", None)
        if decs:
            first = min(first, min(d.lineno for d in decs))
        fl = ctx.lines[first - 1]
        body_ind = _indent_of(fl)
        if not body_ind or "\f" in body_ind or ctx.ls[first - 1] + len(body_ind) != ctx.span(b[0] if not decs else b[0])[0] \
                and not decs:
            continue
        # header = nearest previous line with smaller indentation that is not blank
        k = first - 1
        parent_ind = None
        inside = ctx.string_interior_lines()
        while k >= 1:
            ln = ctx.lines[k - 1]
            if ln.strip() and k not in inside and not ln.lstrip().startswith("#"):
                pi = _indent_of(ln).replace("\f", "")
                if len(pi.expandtabs(8)) < len(body_ind.expandtabs(8)):
                    parent_ind = pi
                    break
            k -= 1
        if parent_ind is None:
            continue
        new_ind = parent_ind + rnd.choice(["\t", "\t", "\t\t", "        \t" if not parent_ind else "\t"])
        if new_ind == body_ind:
            continue
        edits = []
        for ln in range(first, last + 1):
            if ln in inside:
                continue
            line = ctx.lines[ln - 1]
            if line.startswith(body_ind):
                o = ctx.ls[ln - 1]
                edits.append((o, o + len(body_ind), new_ind))
        if edits:
            return edits, "tab-indent"
    return None


def _m_formfeed(ctx, rnd):
    body = ctx.tree.body
    if not body:
        return None
    st = rnd.choice(body)
    ln = st.lineno
    decs = getattr(st, "decorator_list", None)
    if decs:
        ln = min(ln, min(d.lineno for d in decs))
    if not ctx.line_insertable(ln) or _indent_of(ctx.lines[ln - 1]):
        return None
    o = ctx.ls[ln - 1]
    return [(o, o, rnd.choice(["\f", "\f\n", "\f\n\f"]))], "formfeed"


def _m_blank(ctx, rnd):
    if rnd.random() < 0.5:
        cands = [t for t in ctx.toks if t.type in (T.NEWLINE, T.NL) and t.fdepth == 0 and t.string]
        if not cands:
            return None
        t = rnd.choice(cands)
        if t.start > 0 and ctx.text[t.start - 1] == "\\":
            return None
        return [(t.start, t.start, rnd.choice([" ", "   ", "\t", " \t "]))], "trailing-space"
    for _ in range(6):
        ln = rnd.randint(1, len(ctx.lines))
        if ctx.line_insertable(ln):
            o = ctx.ls[ln - 1]
            return [(o, o, rnd.choice(["\n", "\n\n", "    \n", "\t\n", "  \t  \n"]))], "blank"
    return None


def _enclosing_fquote(ctx, idx):
    """delimiter of the innermost f-string enclosing token index idx (or None)"""
    depth = 0
    for j in range(idx - 1, -1, -1):
        t = ctx.toks[j]
        if t.type == T.FSTRING_END:
            depth += 1
        elif t.type == T.FSTRING_START:
            if depth == 0:
                return _split_prefix(t.string)[1]
            depth -= 1
    return None


def _string_value(tokstr):
    try:
        with warnings.catch_warnings():
            warnings.simplefilter("ignore")
            v = ast.literal_eval(tokstr)
    except (SyntaxError, ValueError, MemoryError, RecursionError):
        return None
    return v if isinstance(v, (str, bytes)) else None


def _m_string(ctx, rnd):
    idxs = [i for i, t in enumerate(ctx.toks) if t.type == T.STRING]
    if not idxs:
        return None
    inner = [i for i in idxs if ctx.toks[i].fdepth > 0]
    i = rnd.choice(inner) if inner and rnd.random() < 0.4 else rnd.choice(idxs)
    t = ctx.toks[i]
    v = _string_value(t.string)
    if v is None or len(v) > 4000:
        return None
    prefix, q = _split_prefix(t.string)
    quote = None
    tag = "string"
    if t.fdepth > 0 and rnd.random() < 0.7:
        fq = _enclosing_fquote(ctx, i)
        if fq:
            quote = rnd.choice([fq, fq[0]])
            tag = "string-in-fstring-same-quote"
    new = spell_string(v, rnd, quote=quote, was_u=prefix.lower() == "u")
    if new is None or new == t.string:
        return None
    return [(t.start, t.end, new)], tag


def _m_concat(ctx, rnd):
    idxs = [i for i, t in enumerate(ctx.toks) if t.type == T.STRING]
    if not idxs:
        return None
    i = rnd.choice(idxs)
    t = ctx.toks[i]
    v = _string_value(t.string)
    if v is None or len(v) > 4000:
        return None
    prefix, q = _split_prefix(t.string)
    was_u = prefix.lower() == "u"
    k = rnd.randint(0, len(v))
    p1 = spell_string(v[:k], rnd, was_u=was_u)
    p2 = spell_string(v[k:], rnd)
    if p1 is None or p2 is None:
        return None
    seps = ["", " ", " ", "  ", "\t", " \\\n", "\\\n    "]
    if t.pdepth > 0 and t.fdepth == 0:
        seps += ["\n", "\n" + " " * rnd.randint(0, 12), "  " + rnd.choice(COMMENTS) + "\n "]
    return [(t.start, t.end, p1 + rnd.choice(seps) + p2)], "concat"


def _fstring_extent(ctx, i):
    depth = 0
    for j in range(i, len(ctx.toks)):
        ty = ctx.toks[j].type
        if ty == T.FSTRING_START:
            depth += 1
        elif ty == T.FSTRING_END:
            depth -= 1
            if depth == 0:
                return j
    return None


def _m_fstring(ctx, rnd):
    starts = [i for i, t in enumerate(ctx.toks) if t.type == T.FSTRING_START]
    if not starts:
        return None
    i = rnd.choice(starts)
    j = _fstring_extent(ctx, i)
    if j is None:
        return None
    st, en = ctx.toks[i], ctx.toks[j]
    prefix, q = _split_prefix(st.string)
    op = rnd.random()
    if op < 0.2:
        raw = "r" in prefix.lower()
        new = rnd.choice([p for p in FSTR_PREFIXES if (len(p) == 2) == raw])
        if new == prefix:
            return None
        return [(st.start, st.start + len(prefix), new)], "fstring-prefix"
    if op < 0.45:
        nq = rnd.choice([x for x in QUOTES if x != q])
        return [(st.start + len(prefix), st.end, nq), (en.start, en.end, nq)], "fstring-quote"
    if op < 0.75:
        edits = []
        for k in range(i + 1, j):
            t = ctx.toks[k]
            if t.type == T.STRING:
                v = _string_value(t.string)
                if v is None:
                    continue
                p, _ = _split_prefix(t.string)
                new = spell_string(v, rnd, quote=rnd.choice([q, q[0]]), was_u=p.lower() == "u")
                if new and new != t.string:
                    edits.append((t.start, t.end, new))
            elif t.type == T.FSTRING_START and rnd.random() < 0.7:
                k2 = _fstring_extent(ctx, k)
                p, iq = _split_prefix(t.string)
                if k2 is not None and iq != q:
                    edits.append((t.start + len(p), t.end, q))
                    edits.append((ctx.toks[k2].start, ctx.toks[k2].end, q))
        if not edits:
            return None
        edits.sort()
        for a, b in zip(edits, edits[1:]):
            if a[1] > b[0]:
                return None
        return edits, "fstring-nest"
    # newline / comment inside a replacement field
    braces = [k for k in range(i + 1, j) if ctx.toks[k].type == T.OP and ctx.toks[k].string == "{"
              and ctx.toks[k - 1].type in (T.FSTRING_START, T.FSTRING_MIDDLE)]
    if not braces:
        return None
    k = rnd.choice(braces)
    b = ctx.toks[k]
    if op < 0.9:
        return [(b.end, b.end, rnd.choice(["\n", "\n    ", " ", "\n\t"]))], "fstring-newline"
    return [(b.end, b.end, " " + rnd.choice(COMMENTS) + "\n")], "fstring-comment"


def _num_value(s):
    try:
        v = ast.literal_eval(s)
    except (SyntaxError, ValueError):
        return None
    return v if type(v) in (int, float, complex) else None


def _m_number(ctx, rnd):
    idxs = [i for i, t in enumerate(ctx.toks) if t.type == T.NUMBER]
    if not idxs:
        return None
    t = ctx.toks[rnd.choice(idxs)]
    s = t.string
    v = _num_value(s)
    if v is None:
        return None
    cands = []
    if type(v) is int:
        cands += [hex(v), oct(v), bin(v) if v < 1 << 64 else hex(v), hex(v).upper().replace("0X", "0x"),
                  "0X%X" % v, "0O%o" % v, "0B" + bin(v)[2:] if v < 1 << 64 else "0X%x" % v, f"{v:_}",
                  f"0x_{v:x}", f"0b_{v:b}" if v < 1 << 32 else f"0o_{v:o}", f"{v:_x}".join(["0x", ""])]
        if v == 0:
            cands += ["00", "0_0", "000", "0x0", "0b0", "0o0"]
    elif type(v) is float:
        cands += [repr(v), "%r" % v, f"{v:e}", f"{v:E}", repr(v).replace("e", "E"), f"{v:.17g}"]
        if s.startswith("0.") and len(s) > 2:
            cands.append(s[1:])
        if s.startswith("."):
            cands.append("0" + s)
        if s.endswith(".0"):
            cands += [s[:-1], s[:-2] + "e0", s[:-2] + "E+0", s[:-2] + "e-0"]
    else:
        im = v.imag
        cands += [s[:-1] + ("J" if s[-1] == "j" else "j"), repr(im) + "j", repr(im) + "J", f"{im:e}j"]
        if im == int(im) and abs(im) < 1e15:
            cands += [f"{int(im)}j", f"{int(im)}.J", f"{int(im)}e0j", f"0{int(im)}j" if im >= 0 else f"{int(im)}j"]
    # underscores between two digits of the original spelling; case swap of letters
    pos = [k for k in range(1, len(s)) if s[k - 1].isalnum() and s[k].isalnum() and s[k - 1] not in "xXoObBeEjJ"
           and s[k] not in "xXoObBeEjJ" and not (k == 1 and s[0] == "0" and len(s) > 1 and s[1].isdigit())]
    if pos:
        k = rnd.choice(pos)
        cands.append(s[:k] + "_" + s[k:])
    cands.append(s.swapcase())
    rnd.shuffle(cands)
    for c in cands:
        if c == s or c.startswith("-"):
            continue
        with warnings.catch_warnings():
            warnings.simplefilter("ignore")
            nv = _num_value(c)
        if nv is not None and type(nv) is type(v) and repr(nv) == repr(v):
            return [(t.start, t.end, c)], "number"
    return None


_NFKC_ALTS = {}
for _c in "abcdefghijklmnopqrstuvwxyzABCDEFGHIJKLMNOPQRSTUVWXYZ":
    _NFKC_ALTS[_c] = [chr(0xFF21 + ord(_c) - 65) if _c.isupper() else chr(0xFF41 + ord(_c) - 97)]
for _c in "0123456789":
    _NFKC_ALTS[_c] = [chr(0xFF10 + int(_c))]
_NFKC_ALTS["_"] = ["\uff3f"]
# mathematical alphanumerics (astral plane) normalise to ASCII as well
for _k, _c in enumerate("abcdefghijklmnopqrstuvwxyz"):
    _NFKC_ALTS[_c].append(chr(0x1D41A + _k))
_NFKC_ALTS["a"].append("\u00aa")   # feminine ordinal -> a
_NFKC_ALTS["o"].append("\u00ba")
_NFKC_ALTS["s"].append("\u017f")   # long s -> s


def _name_tokens(ctx):
    return [t for t in ctx.toks if t.type == T.NAME and not keyword.iskeyword(t.string)]


def _m_ident_nfkc(ctx, rnd):
    names = [t for t in _name_tokens(ctx) if t.string.isascii()]
    if not names:
        return None
    t = rnd.choice(names)
    s = t.string
    ks = [k for k, c in enumerate(s) if c in _NFKC_ALTS and not (k == 0 and c in "0123456789_")]
    if not ks:
        return None
    chosen = set(rnd.sample(ks, rnd.randint(1, min(3, len(ks)))))
    new = "".join(rnd.choice(_NFKC_ALTS[c]) if k in chosen else c for k, c in enumerate(s))
    if "fi" in s and rnd.random() < 0.3:
        new = s.replace("fi", "\ufb01", 1)
    if unicodedata.normalize("NFKC", new) != s or not new.isidentifier():
        return None
    return [(t.start, t.end, new)], "ident-nfkc"


# character pools for renamed identifiers, by class (tag = Unicode general category of the decisive char)
IDENT_POOLS = {
    "Ll": ["\u00e9", "\u00f1", "\u00fc", "\u03bb", "\u03c0", "\u0434", "\u0436", "\u00df"],
    "Lu": ["\u00c9", "\u00dc", "\u03a9", "\u0416", "\U00010400"],
    "Lo": ["\u5909", "\u6570", "\u3042", "\u05d0", "\u0627", "\uac00", "\U00020000"],
    "Lm": ["\u02b0", "\u3005"],
    "Nl": ["\u2160", "\u3007"],
    "Mn": ["\u0301", "\u0308", "\u0327"],          # combining marks: continue only
    "Mc": ["\u0903"],
    "Nd": ["\u0663", "\u0969"],                    # non-ASCII decimal digits: continue only
    "Pc": ["\u203f", "\u2040"],                    # connector punctuation: continue only
    "Other_ID": ["\u2118", "\u212e", "\u00b7", "\u0387"],
}
_CONT_ONLY = {"Mn", "Mc", "Nd", "Pc"}


def _m_ident(ctx, rnd):
    names = [t for t in _name_tokens(ctx) if t.string not in ctx.renames]
    if not names:
        return None
    old = rnd.choice(names).string
    if old.startswith("__") and old.endswith("__") and rnd.random() < 0.8:
        return None
    cls = rnd.choice(list(IDENT_POOLS))
    ch = rnd.choice(IDENT_POOLS[cls])
    if ch in ("\u00b7", "\u0387") or cls in _CONT_ONLY:
        k = rnd.randint(1, len(old))
        new = old[:k] + ch + old[k:]
    else:
        mode = rnd.random()
        if mode < 0.35:
            new = ch + old
        elif mode < 0.7:
            new = old + ch
        elif mode < 0.85:
            k = rnd.randint(0, len(old))
            new = old[:k] + ch + old[k:]
        else:
            new = ch * rnd.randint(1, 3)
    nfkc = unicodedata.normalize("NFKC", new)
    if not new.isidentifier() or keyword.iskeyword(nfkc) or new in ctx.text or nfkc in ctx.text:
        return None
    if repr(nfkc) in ctx.base_dump:
        return None
    edits = [(t.start, t.end, new) for t in ctx.toks if t.type == T.NAME and t.string == old]
    ctx.new_renames = {new: old}
    return edits, "ident-" + cls


KINDS = {
    "comment": (_m_comment, 3.0), "comment-line": (_m_comment_line, 2.0), "backslash": (_m_backslash, 2.0),
    "parens": (_m_parens, 2.0), "bracket-newline": (_m_bracket_newline, 1.5), "semicolon": (_m_semicolon, 1.5), "oneliner": (_m_oneliner, 0.5),
    "tabs": (_m_tabs, 1.0), "tab-indent": (_m_tab_indent, 0.8), "formfeed": (_m_formfeed, 0.3),
    "blank": (_m_blank, 0.7), "string": (_m_string, 3.0), "concat": (_m_concat, 1.5),
    "fstring": (_m_fstring, 2.5), "number": (_m_number, 1.0), "ident-nfkc": (_m_ident_nfkc, 0.5),
    "ident": (_m_ident, 1.0),
}
ALL_KINDS = tuple(KINDS)
DEFAULT_KINDS = tuple(k for k in KINDS if k != "ident")   # these keep ast.dump exactly equal

Mutated = namedtuple("Mutated", "text applied renames")


def _apply(text, edits):
    edits = sorted(edits)
    out = []
    last = 0
    for s, e, r in edits:
        if s < last:
            return None
        out.append(text[last:s])
        out.append(r)
        last = e
    out.append(text[last:])
    return "".join(out)


def mutate_ex(text, rnd, n_mutations=8, kinds=None, crlf=False, max_tries=None):
    kinds = list(kinds) if kinds is not None else list(DEFAULT_KINDS)
    weights = [KINDS[k][1] for k in kinds]
    try:
        tree = _parse(text)
    except (SyntaxError, ValueError, RecursionError, MemoryError, OverflowError):
        return None
    base = _dump(tree)
    cur = text
    applied = []
    renames = {}
    tries = 0
    max_tries = max_tries if max_tries is not None else 4 * n_mutations + 10
    ctx = None
    while len(applied) < n_mutations and tries < max_tries:
        tries += 1
        if ctx is None:
            ctx = _Ctx(cur, tree)
        ctx.renames = renames
        ctx.base_dump = base
        ctx.new_renames = None
        kind = rnd.choices(kinds, weights)[0]
        try:
            r = KINDS[kind][0](ctx, rnd)
        except (tokenize.TokenError, SyntaxError, IndexError, UnicodeError):
            r = None
        if not r:
            continue
        edits, tag = r
        new = _apply(cur, edits)
        if new is None or new == cur:
            continue
        trial = dict(renames)
        if ctx.new_renames:
            trial.update(ctx.new_renames)
        try:
            # only renamings can trip the byte-code compiler (e.g. a renamed __future__ feature)
            ntree = _parse(new, full=bool(ctx.new_renames))
            if _dump(ntree, trial) != base:
                continue
            ntoks = tokens(new)  # the tokenize module must accept it as well
        except (SyntaxError, ValueError, RecursionError, MemoryError, OverflowError, tokenize.TokenError):
            continue
        cur, tree, renames = new, ntree, trial
        ctx = _Ctx(cur, tree)
        ctx._toks = ntoks
        applied.append(tag)
    if crlf and "\r" not in cur:
        new = cur.replace("\n", "\r\n")
        if equivalent(text, new, renames):
            cur = new
            applied.append("crlf")
    if not applied:
        return None
    try:
        _parse(cur, full=True)
    except (SyntaxError, ValueError, RecursionError, MemoryError, OverflowError):
        return None
    return Mutated(cur, applied, renames)


def mutate(text, rnd, n_mutations=8, kinds=None, crlf=False):
    m = mutate_ex(text, rnd, n_mutations, kinds, crlf)
    return None if m is None else m.text


# --------------------------------------------------------------------------- construct-rich seeds
SEED_SNIPPETS = [
    # string prefixes and quote styles
    "a = 'x'; b = \"y\"; c = '''z'''; d = \"\"\"w\"\"\"\n"
    "e = r'\\d+'; f = R\"\\s\"; g = b'bytes'; h = B\"b\"; i = rb'\\x'; j = Rb\"\\y\"; k = bR'''\\z'''; l = BR\"\"\"q\"\"\"\n"
    "m = u'uni'; n = U\"uni\"; o = br'x'; p = Br'y'\n"
    "q = 'it''s' \"con\" 'cat'\n"
    "r = 'esc \\' quote'; s = \"esc \\\" quote\"; t = 'back\\\\'; u = '\\n\\t\\x41\\u00e9\\N{BULLET}\\101'\n"
    "v = '''multi\nline ' \" string'''\n"
    "w = \"\"\"doc \"quoted\" and ''' inside\n# not a comment\n\"\"\"\n"
    "x = 'hash # inside'; y = \"brackets ( [ { inside\"  # real comment ' \"\n",
    # f-strings, including PEP 701
    "name = 'n'; d = {'k': 1}; w = 10; xs = [1, 2]\n"
    "a = f'{name}'; b = F\"{name!r}\"; c = rf'{name}\\d'; e = fR\"{name:>{w}}\"; g = Rf'''{name}'''; h = FR\"\"\"{name}\"\"\"\n"
    "i = f'{d[\"k\"]}'\n"
    "j = f\"{d['k']}\"\n"
    "k = f\"{d[\"k\"]}\"\n"
    "l = f'{d['k']}'\n"
    "m = f\"{f\"{f\"{name}\"}\"}\"\n"
    "n = f'{{literal}} {name} {{'\n"
    "o = f'{name=}'; p = f'{name = !r:^{w}}'\n"
    "q = f\"{', '.join(str(x) for x in xs)}\"\n"
    "r = f\"{'\\n'.join(name)}\"\n"
    "s = f\"{name  # comment with \" and {\n}\"\n"
    "t = f'''{\n    name\n}'''\n"
    "u = f\"{(lambda v: v)(name)}\" f'{name}' 'plain' \"{notfield}\"\n"
    "v = f\"{d[\"(\"] if \"(\" in d else \"[\"}\"\n"
    "x = f'{name:{'>'}{w}}'\n",
    # continuation lines, brackets spanning lines, semicolons, tabs
    "def f(a, b=1, *args, c, d=2, **kw):\n"
    "\tx = (a +\n\t\tb)\n"
    "\ty = [\n\t\ta,  # first\n\t\tb,\n\t]\n"
    "\tz = {'k': a,\n\n\t     'l': b}\n"
    "\tt = a + \\\n\t    b + \\\n\t    3\n"
    "\tu = 1; v = 2; w = 3;\n"
    "\tif a: return x\n"
    "\tfor i in y: pass\n"
    "\twhile False: break\n"
    "\treturn a.b.c.d, x . y . z, kw['k'].attr.other, f(a).g(b).h\n",
    # unicode identifiers
    "caf\u00e9 = 1\n\u03bb = lambda \u03c0: \u03c0 + caf\u00e9\n\u5909\u6570 = \u03bb(2)\nclass \u00c9l\u00e8ve:\n    \u00e2ge = 3\n"
    "    def m\u00e9thode(self, \u00fc=1): return self.\u00e2ge + \u00fc\n\u00e9 = \u00c9l\u00e8ve().m\u00e9thode(\u00fc=2).real.imag\n",
    # numbers
    "a = 0; b = 0x1F; c = 0o17; d = 0b101; e = 1_000_000; f = 1.5; g = .5; h = 5.; i = 1e10; j = 1E-3; k = 1_0.0_1e+1_0\n"
    "l = 1j; m = 2.5J; n = 0xDEAD_BEEF; o = 1 .real; p = 1.0.real; q = 1..real; r = 0_0\n",
    # compound statements of all kinds
    "import os.path as osp, sys\nfrom a.b import (c as d,\n    e)\nfrom . import x\nfrom .. y import z\n"
    "@dec.orator(1)\n@other\nasync def g(x: int = 3, /, y: 'str' = 's', *, z) -> None:\n"
    "    async with x as y, z as w:\n        await y\n    async for i in x:\n        print(i)\n"
    "    try:\n        pass\n    except (A, B) as e:\n        raise X from e\n    except C:\n        pass\n"
    "    else:\n        pass\n    finally:\n        del x, y\n"
    "    try:\n        pass\n    except* C:\n        pass\n"
    "    global G; nonlocal_ = 1\n"
    "    with (open(a) as b,\n          open(c) as d):\n        pass\n"
    "    match x:\n        case [1, 2, *rest] if rest:\n            pass\n        case {'k': v, **kw}:\n            pass\n"
    "        case Point(x=0, y=0) | None:\n            pass\n        case str() as s:\n            pass\n        case _:\n            pass\n"
    "    lambda a, *b, c=1, **d: (a, b, c, d)\n"
    "    if (n := len(x)) > 3 and not x or x is not None: print(n)\n"
    "    elif x: ...\n    else: pass\n"
    "    assert x, 'msg'\n    return [i for i in x if i for j in i], {k: v for k, v in x}, {*x}, (i async for i in x)\n"
    "class C(B, metaclass=M):\n    'doc'\n    x: int = 1\n    y: 'C'\n    def m(self): return super().m()[1:2, ::3].a\n"
    "def gen2():\n    x = yield\n    yield from x\n    return x\n"
    "type Alias[T] = list[T]\ndef gen[T: int, *Ts, **P](a: T) -> T: return a\n"
    "print(*a, **b, sep='')\nx = a if b else c\nx[1:2] = y[::2]\nx @= y\nx = y = z = -1 ** ~2 // 3 % 4 << 5 >> 6 & 7 | 8 ^ 9\n",
    # docstring-heavy / block keywords inside strings and brackets
    "def h():\n    '''Doc.\n\n    for x in y: not code\n    if this: neither\n    def nested(): no\n    '''\n"
    "    value = [\n        1\n        if cond\n        else 2\n        for cond in (True,\n                     False)\n        if cond is not None\n    ]\n"
    "    text = \"\"\"\nclass Fake:\n    def method(self):\n        pass\n\"\"\"\n    return value, text\n",
]


def break_in_brackets(text, rnd, n=5, indents=("", "  ", "    ", "        ", "            ")):
    """Plain variant of the bracket-newline mutation: up to n line breaks between two tokens inside brackets,
    the continuation line indented by one of `indents` -- no comments, no blank lines, no tabs.  Returns the
    new text (ast.dump-equal to `text`) or None."""
    try:
        want = ast.dump(ast.parse(text))
    except SyntaxError:
        return None
    cur = text
    done = 0
    for _ in range(n * 3):
        if done >= n:
            break
        try:
            toks = list(tokenize.generate_tokens(io.StringIO(cur).readline))
        except (tokenize.TokenError, SyntaxError, IndentationError):
            break
        starts = line_starts(cur)
        depth = 0
        gaps = []
        fdepth = 0
        for a, b in zip(toks, toks[1:]):
            if a.type == getattr(tokenize, "FSTRING_START", -1):
                fdepth += 1
            elif a.type == getattr(tokenize, "FSTRING_END", -1):
                fdepth -= 1
            if a.type == tokenize.OP and a.string in "([{":
                depth += 1
            elif a.type == tokenize.OP and a.string in ")]}":
                depth -= 1
            if depth > 0 and fdepth == 0 and a.end[0] == b.start[0] and b.type not in (tokenize.NL, tokenize.NEWLINE, tokenize.COMMENT):
                gaps.append((starts[a.end[0] - 1] + a.end[1], starts[b.start[0] - 1] + b.start[1]))
        if not gaps:
            break
        s, e = rnd.choice(gaps)
        new = cur[:s] + "\n" + rnd.choice(indents) + cur[e:]
        try:
            if ast.dump(ast.parse(new)) == want:
                cur = new
                done += 1
        except SyntaxError:
            pass
    return cur if done else None
