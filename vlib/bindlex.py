"""Lexical reference binder: which binding does every identifier occurrence of a module denote
under Python's scoping rules?  Built on vlib/symref.py (an ast binder that is cross-checked, table
by table, against `symtable.symtable` by `Model.selfcheck()`); nothing of rope is used.

    occs = bindings(src)   ->  [Occ(line, col, name, binding, role)] sorted by position
        binding = (owner scope key, name)            for names bound in the module
                  ("<unresolved>", name)             builtins / names from star imports / unbound
    alpha_difference(before, after, old, new) -> None | short description

Covered occurrences: ast.Name (load/store/del), parameters, def / class names.  Attribute tails,
import names / aliases, global/nonlocal items, except-as names and match captures are not part of
the partition (they are judged by execution in the checks that use this module).
"""
import ast
import re
from collections import namedtuple

from vlib import symref

Occ = namedtuple("Occ", "line col name binding role")


class Unsupported(Exception):
    pass


_SCOPE_NODES = (ast.Module, ast.FunctionDef, ast.AsyncFunctionDef, ast.ClassDef, ast.Lambda,
                ast.ListComp, ast.SetComp, ast.DictComp, ast.GeneratorExp)


def _span(node):
    if isinstance(node, ast.Module):
        return (0, 0, 10**9, 0)
    return (node.lineno, node.col_offset, node.end_lineno, node.end_col_offset)


def _contains(outer, inner):
    return (outer[0], outer[1]) <= (inner[0], inner[1]) and (inner[2], inner[3]) <= (outer[2], outer[3])


def bindings(src):
    try:
        model = symref.build(src)
    except (SyntaxError, ValueError) as e:
        raise Unsupported(f"not parsable: {e}")
    if model.selfcheck():
        raise Unsupported("reference binder disagrees with symtable on this module")
    scopes = [s for s in model.scopes()]
    by_node = {id(s.node): s for s in scopes}
    # structural scope keys (stable across a rename): path of child indices from the module scope
    skey = {}

    def number(s, path):
        skey[id(s)] = path
        for i, c in enumerate(s.children):
            number(c, path + (f"{c.kind}{i}",))
    number(model.module, ("module",))
    occs = []
    seen = set()

    def owner_key(scope, name, role="load"):
        owner = model._owner(scope, name)
        if role == "load" and scope.kind == "class":
            # class bodies look names up dynamically (class namespace, then globals): not a static fact
            return ("<class-dynamic>", name)
        if owner is None:
            return ("<unresolved>", name)
        if owner.kind == "module" and name not in owner.bind and not any(
                name in s.bind and name in s.decl_global for s in scopes):
            return ("<unresolved>", name)
        return (skey.get(id(owner), ("?",)), name)

    def add(line, col, name, scope, role):
        k = (line, col)
        if k in seen:
            return
        seen.add(k)
        occs.append(Occ(line, col, name, owner_key(scope, name, role), role))

    # loads: the binder recorded the evaluating scope of every load
    for s in scopes:
        for name, node, _ in s.loads:
            add(node.lineno, node.col_offset, name, s, "load")

    # everything else: innermost scope by position, with Python's placement rules
    scope_spans = [(s, _span(s.node)) for s in scopes if isinstance(s.node, _SCOPE_NODES)]

    def innermost(node, exclude=None):
        sp = _span(node)
        best = None
        for s, ssp in scope_spans:
            if s is exclude:
                continue
            if _contains(ssp, sp):
                if best is None or _contains(best[1], ssp):
                    best = (s, ssp)
        return best[0] if best else model.module

    lines = src.split("\n")
    for node in ast.walk(model.tree):
        if isinstance(node, ast.Name) and not isinstance(node.ctx, ast.Load):
            sc = innermost(node)
            add(node.lineno, node.col_offset, node.id, sc, "store")
        elif isinstance(node, ast.NamedExpr):
            sc = innermost(node)
            while sc.kind == "comprehension" and sc.parent is not None:
                sc = sc.parent
            seen.discard((node.target.lineno, node.target.col_offset))
            occs[:] = [o for o in occs if (o.line, o.col) != (node.target.lineno, node.target.col_offset)]
            add(node.target.lineno, node.target.col_offset, node.target.id, sc, "walrus")
        elif isinstance(node, ast.arg):
            # parameters belong to the function / lambda that declares them
            fn = None
            for s, ssp in scope_spans:
                if isinstance(s.node, (ast.FunctionDef, ast.AsyncFunctionDef, ast.Lambda)):
                    a = s.node.args
                    allargs = a.posonlyargs + a.args + a.kwonlyargs + ([a.vararg] if a.vararg else []) + ([a.kwarg] if a.kwarg else [])
                    if any(x is node for x in allargs):
                        fn = s
                        break
            if fn is not None:
                add(node.lineno, node.col_offset, node.arg, fn, "parameter")
        elif isinstance(node, (ast.FunctionDef, ast.AsyncFunctionDef, ast.ClassDef)):
            own = by_node.get(id(node))
            sc = innermost(node, exclude=own)
            text = lines[node.lineno - 1]
            # col_offset is in utf-8 bytes
            prefix = text.encode("utf-8")[:node.col_offset].decode("utf-8", "ignore")
            m = re.compile(r"(async\s+)?(def|class)\s+").match(text, len(prefix))
            if m:
                col_chars = m.end()
                col_bytes = len(text[:col_chars].encode("utf-8"))
                add(node.lineno, col_bytes, node.name, sc, "definition")
    occs.sort(key=lambda o: (o.line, o.col))
    return occs


def alpha_difference(before, after, old, new):
    """Same partition of occurrences into bindings before and after (names may differ old->new)?"""
    if len(before) != len(after):
        return "occurrence-count-changed"
    cls0, cls1 = {}, {}
    for a, b in zip(before, after):
        if a.name != b.name and not (a.name == old and b.name == new):
            return "occurrence-order-changed"
        k0 = cls0.setdefault(a.binding, len(cls0))
        k1 = cls1.setdefault(b.binding, len(cls1))
        if k0 != k1:
            kind0 = "unresolved" if a.binding[0] == "<unresolved>" else "bound"
            kind1 = "unresolved" if b.binding[0] == "<unresolved>" else "bound"
            return f"{a.role}:{kind0}->{kind1}"
    return None
