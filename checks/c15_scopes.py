"""C15 - scopes and name tables agree with Python's own symbol table.

Differential check against a reference scope/name model (vlib/symref.py: `ast` binder cross-checked table by
table with `symtable.symtable`, comprehension scopes built from the ast because 3.12 inlines them).  For every
module of the workload rope's `get_scope()` tree is compared with the model:

  tree      the scopes are exactly the function / class / comprehension definitions, same nesting
  extent    get_start() / get_end() == lineno / end_lineno of the definition node
  names     every name the interpreter binds in a scope is in rope's table of that scope, extras only the allowed ones
  lookup    scope.lookup(name) for every (scope, name) loaded there lands on a line where that variable is bound
  position  get_inner_scope_for_line / _for_offset return the innermost definition holding the position

Workload: construct enumerator (binding construct x scope context x block context, expression construct x
expression context x scope context, parameter kinds x function contexts) and the real-code corpus.
"""
import bisect
import io
import sys
import textwrap
import tokenize
import warnings

from vlib import core, symref

ID = "C15"
READY = True
LEVEL = "exploration"
RULE = ("(a) construct enumerator, a finite product of 21 913 small modules of which the interpreter accepts "
        "18 835: 57 binding statement forms (every Assign shape, AugAssign, AnnAssign, For/AsyncFor, With/AsyncWith, "
        "Except/Except*, walrus, Import/ImportFrom forms, MatchAs/MatchStar/MatchMapping patterns, Global, "
        "Nonlocal, Delete, def/async def/class) x 18 block contexts (top, if/elif/else, while(-else), for(-else), "
        "try/except/else/finally/except*, with, match-case, async for/with, if-in-for) x 10 scope contexts (module, "
        "function, async function, method, nested function with and without an outer binding, class body with and "
        "without a shadowed global, class in function, method of a class in a function); 16 scope-creating or "
        "binding expressions (walrus, the 4 comprehension kinds, nested / multi-generator / walrus-carrying / "
        "multi-line comprehensions, lambdas holding them) x 72 expression positions (every statement field, "
        "defaults, decorators, bases, annotations, comprehension parts, lambda parts, operators) x the 10 scope "
        "contexts; 19 parameter-list forms x 7 function contexts; each module also loads the bound name in the "
        "block, after it, from a comprehension, from a closure and at module level.  (b) corpus: stdlib, rope, "
        "ropetest files the interpreter compiles (quick: 150 files <= 120 kB chosen by seed; thorough: all 1 882).  "
        "non-trivial = module with a non-module scope that binds a name; distinct = (scope kind, binding construct, "
        "enclosing block field), (comprehension kind, expression position, parent kind) and (use-scope kind, owner "
        "relation, construct) tuples on which at least one oracle comparison was made")
ASSUMPTIONS = [
    "the reference model is trusted where it agrees table by table with symtable.symtable (bound / declared "
    "global / declared nonlocal names of every table, local-free-global classification of every load); modules "
    "where it disagrees (2-5 PEP 695 / __class__ test files of the stdlib) are skipped and counted",
    "a variable's identity on rope's side is the PyName object held by the table of the owning scope: lookup must "
    "return that very object; only when the owning scope has no entry (names bound solely through a global "
    "declaration elsewhere) the definition line (a binding or declaration line of the variable) or the Imported* "
    "kind decides",
    "lambda, annotation and type-parameter scopes are outside the statement: loads inside lambdas are not "
    "looked up and variables owned by such scopes are skipped",
    "name mangling of __private names in classes is not demanded (source spelling compared); `x: int` without a "
    "value may or may not be listed; __class__ is not looked up",
    "offsets on the first two or the last token boundary of a definition and positions inside scopes rope does not "
    "build or ends wrongly (already reported by the tree / extent clauses) are not queried; lookups of a name the "
    "names clause already reported as missing from / extra in the deciding scope are not reported again",
    "the module is analysed as pkg0/mod0.py of an otherwise empty project (imports resolve against sys.path only)",
]
BUDGET = {"quick": (100000, 240), "thorough": (400000, 900)}
EXHAUSTIVE = {"thorough": True}
REQUIRE = {"enum_modules": 18835, "corpus_modules": 100, "scopes_matched": 50000, "scopes_matched_comprehension": 10000,
           "names_required_checked": 150000, "lookups_checked": 60000, "line_queries": 200000,
           "offset_queries": 200000, "extents_checked": 50000}
TECHNIQUE = ("differential testing of rope's scope objects against a reference binder derived from ast and "
             "validated against symtable on every input; bounded-exhaustive construct enumeration plus real-code corpus")
LEVEL_TEXT = ("Every enumerated construct/context module and every corpus file is analysed by the real rope code "
              "and by the reference model; scope tree, extents, per-scope name tables, lookups for every "
              "(scope, loaded name) pair and scope-at-line / scope-at-offset answers are compared. Held = no "
              "difference beyond the recorded findings.")
LEVEL_NOTE = ("the oracle is the interpreter's own symbol table and ast extents; comprehension scoping follows a "
              "30-line rule of the harness because symtable 3.12 no longer reports them (the rule is cross-checked "
              "against symtable's merged tables); blank/comment-line queries are judged by line extents and keyed "
              "separately; the thorough tier enumerates the whole finite product and the whole corpus")
DESIGN_REF = "DESIGN.md section 5, C15"
CASE_TIMEOUT = 300

ENUM_CHUNK = 40
QUICK_CORPUS = 150
QUICK_MAX_BYTES = 120_000


# =========================================================================== construct enumerator
def _ind(text, n=1):
    return textwrap.indent(text, "    " * n)


SCOPE_CTX = {
    "module": "{B}",
    "function": "def f0(p0, s=(), c=0):\n{B1}\n    return p0\n",
    "asyncfunction": "async def f0(p0, s=(), c=0):\n{B1}\n    return p0\n",
    "method": "class C0:\n    def m0(self, s=(), c=0):\n{B2}\n        return self\n",
    "nested": "def f0(p0, s=(), c=0):\n    v = 0\n    def f1():\n{B2}\n        return p0\n    return f1, v\n",
    "nested-plain": "def f0(p0, s=(), c=0):\n    def f1():\n{B2}\n        return p0\n    return f1\n",
    "classbody": "class C0:\n{B1}\n    z0 = 0\n",
    "classbody-shadowing-global": "v = -1\nclass C0:\n{B1}\n    z0 = 0\n",
    "class-in-function": "def f0(p0, s=(), c=0):\n    class C0:\n{B2}\n        z0 = 0\n    return C0\n",
    "function-in-class-in-function": ("def f0(p0, s=(), c=0):\n    v = 0\n    class C0:\n        v = 1\n"
                                      "        def m0(self):\n{B3}\n            return p0\n    return C0\n"),
}
PRELUDE = "s = ()\nc = 0\nt0 = [0]\nt1 = [0]\n"

BLOCK_CTX = {
    "top": "{S}",
    "if": "if c:\n{S1}",
    "else": "if c:\n    pass\nelse:\n{S1}",
    "elif": "if c:\n    pass\nelif s:\n{S1}",
    "while": "while c:\n{S1}",
    "while-else": "while c:\n    pass\nelse:\n{S1}",
    "for": "for i0 in s:\n{S1}",
    "for-else": "for i0 in s:\n    pass\nelse:\n{S1}",
    "try": "try:\n{S1}\nfinally:\n    pass",
    "except": "try:\n    pass\nexcept Exception:\n{S1}",
    "try-else": "try:\n    pass\nexcept Exception:\n    pass\nelse:\n{S1}",
    "finally": "try:\n    pass\nfinally:\n{S1}",
    "except-star": "try:\n    pass\nexcept* Exception:\n{S1}",
    "with": "with c:\n{S1}",
    "match": "match c:\n    case 0:\n{S2}",
    "async-for": "async for i0 in s:\n{S1}",
    "async-with": "async with c:\n{S1}",
    "if-in-for": "for i0 in s:\n    if c:\n{S2}",
}

STMTS = {
    "Assign": "v = 1",
    "Assign-tuple": "v, w = 1, 2",
    "Assign-paren-tuple": "(v, w) = 1, 2",
    "Assign-list": "[v, w] = 1, 2",
    "Assign-star": "v, *w = 1, 2",
    "Assign-star-first": "*v, w = 1, 2",
    "Assign-nested": "w, (v, u) = 1, (2, 3)",
    "Assign-chained": "v = w = 1",
    "Assign-multiline": "v = (\n    1)",
    "AugAssign": "v += 1",
    "AnnAssign": "v: int = 1",
    "AnnAssign-novalue": "v: int",
    "For": "for v in s:\n    pass",
    "For-tuple": "for v, w in s:\n    pass",
    "For-star": "for w, *v in s:\n    pass",
    "For-else-bind": "for i1 in s:\n    pass\nelse:\n    v = 1",
    "AsyncFor": "async for v in s:\n    pass",
    "With": "with c as v:\n    pass",
    "With-tuple": "with c as (v, w):\n    pass",
    "With-multi": "with c as w, s as v:\n    pass",
    "With-paren": "with (c as w, s as v):\n    pass",
    "AsyncWith": "async with c as v:\n    pass",
    "Except": "try:\n    pass\nexcept Exception as v:\n    pass",
    "Except-tuple": "try:\n    pass\nexcept (ValueError, TypeError) as v:\n    pass",
    "ExceptStar": "try:\n    pass\nexcept* Exception as v:\n    pass",
    "NamedExpr": "(v := 1)",
    "NamedExpr-if": "if (v := c):\n    pass",
    "NamedExpr-while": "while (v := c):\n    break",
    "NamedExpr-call": "print((v := 1))",
    "Import": "import v",
    "Import-dotted": "import v.sub",
    "Import-as": "import m0.sub as v",
    "Import-multi": "import m0, v",
    "ImportFrom": "from m0 import v",
    "ImportFrom-as": "from m0 import x0 as v",
    "ImportFrom-relative": "from . import v",
    "ImportFrom-paren": "from m0 import (x0,\n    v)",
    "MatchAs": "match s:\n    case v:\n        pass",
    "MatchAs-as": "match s:\n    case [_] as v:\n        pass",
    "MatchAs-seq": "match s:\n    case [v, w]:\n        pass",
    "MatchAs-class": "match s:\n    case Exception(args=v):\n        pass",
    "MatchAs-mapping": "match s:\n    case {'k': v}:\n        pass",
    "MatchAs-or": "match s:\n    case [v] | (v, _):\n        pass",
    "MatchStar": "match s:\n    case [_, *v]:\n        pass",
    "MatchMapping": "match s:\n    case {'k': _, **v}:\n        pass",
    "Global": "global v\nv = 1",
    "Global-only": "global v",
    "Global-aug": "global v\nv += 1",
    "Nonlocal": "nonlocal v\nv = 2",
    "Nonlocal-only": "nonlocal v",
    "Delete": "del v",
    "Delete-after": "v = 1\ndel v",
    "FunctionDef": "def v():\n    pass",
    "FunctionDef-decorated": "@c\ndef v():\n    pass",
    # decorators rope's scope visitor knows by name, in every scope (not only directly in a class body)
    "FunctionDef-property": "@property\ndef v(self=None):\n    pass",
    "FunctionDef-staticmethod": "@staticmethod\ndef v():\n    pass",
    "FunctionDef-classmethod": "@classmethod\ndef v(cls=None):\n    pass",
    "FunctionDef-decorated-twice": "@c\n@property\ndef v(self=None):\n    pass",
    "AsyncFunctionDef": "async def v():\n    pass",
    "ClassDef": "class v:\n    pass",
    "ClassDef-decorated": "@c\nclass v(object):\n    pass",
}
USES = "print(v)"
TAIL_USES = "print(v)\nq0 = [v for i9 in s]\ndef g9():\n    return v"

EXPRS = {
    "NamedExpr": "(v := s)",
    "ListComp": "[i1 for i1 in s]",
    "SetComp": "{i1 for i1 in s}",
    "DictComp": "{i1: i1 for i1 in s}",
    "GeneratorExp": "list(i1 for i1 in s)",
    "GeneratorExp-bare": "(i1 for i1 in s)",
    "ListComp-walrus": "[(v := i1) for i1 in s]",
    "ListComp-walrus-if": "[i1 for i1 in s if (v := i1)]",
    "ListComp-nested": "[[i2 for i2 in i1] for i1 in s]",
    "ListComp-multi": "[i2 for i1 in s if i1 for i2 in i1 if i2]",
    "ListComp-tuple-target": "[a1 for a1, (b1, *c1) in s]",
    "ListComp-uses-outer": "[c for i1 in s if c]",
    "ListComp-multiline": "[i1\n  for i1 in s\n]",
    "Lambda-comp": "(lambda q: [i1 for i1 in q])",
    "Lambda-walrus": "(lambda: (v := 1))",
    "Lambda-default-comp": "(lambda q=[i1 for i1 in s]: q)",
}
EXPR_CTX = {
    "Expr": "{E}",
    "Assign.value": "t0 = {E}",
    "Assign.value-chained": "t0 = t1 = {E}",
    "Assign.subscript": "t0[{E}] = 1",
    "Assign.attr-value": "t0.a = {E}",
    "AugAssign.value": "t0 += {E}",
    "AnnAssign.value": "t0: int = {E}",
    "AnnAssign.annotation": "t2: {E} = 1",
    "Return.value": "return {E}",
    "Yield.value": "yield {E}",
    "Yield.assign": "t0 = yield {E}",
    "YieldFrom": "yield from {E}",
    "Await": "await {E}",
    "For.iter": "for i0 in {E}:\n    pass",
    "For.body": "for i0 in s:\n    {E}",
    "AsyncFor.iter": "async for i0 in {E}:\n    pass",
    "While.test": "while {E}:\n    break",
    "If.test": "if {E}:\n    pass",
    "If.elif-test": "if c:\n    pass\nelif {E}:\n    pass",
    "With.context": "with {E}:\n    pass",
    "With.context-as": "with {E} as t0:\n    pass",
    "With.second": "with c as t0, {E} as t1:\n    pass",
    "AsyncWith.context": "async with {E} as t0:\n    pass",
    "Raise.exc": "raise {E}",
    "Raise.cause": "raise c from {E}",
    "Assert.test": "assert {E}",
    "Assert.msg": "assert c, {E}",
    "Delete.subscript": "del t0[{E}]",
    "Call.arg": "print({E})",
    "Call.kwarg": "print(k={E})",
    "Call.star": "print(*{E})",
    "Call.func": "({E})()",
    "Decorator": "@{E}\ndef d0():\n    pass",
    "Decorator-class": "@{E}\nclass K0:\n    pass",
    "Default": "def d0(a={E}):\n    pass",
    "KwDefault": "def d0(*, a={E}):\n    pass",
    "ArgAnnotation": "def d0(a: {E}):\n    pass",
    "Returns": "def d0() -> {E}:\n    pass",
    "ClassBase": "class K0({E}):\n    pass",
    "ClassKeyword": "class K0(metaclass={E}):\n    pass",
    "Lambda.default": "t0 = lambda a={E}: a",
    "Lambda.body": "t0 = lambda: {E}",
    "Comp.elt": "t0 = [{E} for i0 in s]",
    "Comp.first-iter": "t0 = [i0 for i0 in {E}]",
    "Comp.if": "t0 = [i0 for i0 in s if {E}]",
    "Comp.second-iter": "t0 = [i0 for i9 in s for i0 in {E}]",
    "DictComp.key": "t0 = {{{E}: 1 for i0 in s}}",
    "DictComp.value": "t0 = {{1: {E} for i0 in s}}",
    "GenExp.elt": "t0 = list({E} for i0 in s)",
    "Match.subject": "match {E}:\n    case _:\n        pass",
    "Match.guard": "match s:\n    case _ if {E}:\n        pass",
    "Except.type": "try:\n    pass\nexcept {E}:\n    pass",
    "List.elt": "t0 = [{E}, 1]",
    "Tuple.elt": "t0 = {E}, 1",
    "Dict.value": "t0 = {{1: {E}}}",
    "Set.elt": "t0 = {{{E}, 1}}",
    "IfExp.body": "t0 = {E} if c else 1",
    "IfExp.test": "t0 = 1 if {E} else 2",
    "FString": "t0 = f\"{{{E}}}\"",
    "Subscript.value": "t0 = ({E})[0]",
    "Subscript.slice": "t0 = s[{E}]",
    "Slice": "t0 = s[{E}:2]",
    "Attribute.value": "t0 = ({E}).real",
    "UnaryOp": "t0 = not {E}",
    "BinOp": "t0 = {E} + 1",
    "BoolOp": "t0 = c and {E}",
    "Compare": "t0 = 1 < {E}",
    "Starred": "t0 = *{E}, 1",
    "NamedExpr.value": "(t0 := {E})",
    "Global-then": "global t0\nt0 = {E}",
    "Try.body": "try:\n    {E}\nfinally:\n    pass",
    "Nested-def-return": "def d0():\n    return {E}",
}
PARAMS = {
    "pos": "v", "pos-default": "v=1", "pos-annotated": "v: int", "posonly": "v, /", "posonly-default": "v=1, /",
    "posonly-then-pos": "a0, /, v", "posonly-second": "a0, v, /", "kwonly": "*, v", "kwonly-default": "*, v=1",
    "kwonly-after-vararg": "*a0, v", "vararg": "*v", "kwarg": "**v", "vararg-kwarg": "*v, **w",
    "all-kinds": "a0, /, b0, *c0, v, **e0", "all-kinds-posonly": "v, /, b0, *c0, d0, **e0",
    "all-kinds-vararg": "a0, /, b0, *v, d0, **e0", "all-kinds-kwarg": "a0, /, b0, *c0, d0, **v",
    "multiline": "a0,\n        v", "kwonly-multiline": "a0, *,\n        v",
}
PARAM_CTX = {
    "function": "def f0({P}):\n    def g9():\n        return v\n    return v\n",
    "asyncfunction": "async def f0({P}):\n    q0 = [v for i9 in v]\n    return v\n",
    "method": "class C0:\n    def m0(self, {P}):\n        self.a = v\n        return v\n",
    "staticmethod": "class C0:\n    @staticmethod\n    def m0({P}):\n        return v\n",
    "nested": "def f0(a0):\n    def f1({P}):\n        return v, a0\n    return f1\n",
    "generator": "def f0({P}):\n    yield v\n",
    "lambda-skip": "f0 = lambda {P}: v\n",
}

_ENUM = None


def _fill(template, key, text):
    out = template
    for n in (3, 2, 1):
        out = out.replace("{%s%d}" % (key, n), _ind(text, n))
    return out.replace("{%s}" % key, text)


def _compiles(src):
    try:
        with warnings.catch_warnings():
            warnings.simplefilter("ignore")
            compile(src, "<enum>", "exec", dont_inherit=True)
        return True
    except (SyntaxError, ValueError):
        return False


def enum_modules():
    """The finite product, in a fixed order: list of (label, source); sources the interpreter refuses dropped."""
    global _ENUM
    if _ENUM is not None:
        return _ENUM
    out = []
    seen = set()

    def add(label, src):
        if src in seen:
            return
        seen.add(src)
        if _compiles(src):
            out.append((label, src))

    for sname, stpl in SCOPE_CTX.items():
        for bname, btpl in BLOCK_CTX.items():
            for cname, stmt in STMTS.items():
                block = _fill(btpl, "S", stmt + "\n" + USES)
                body = block + "\n" + TAIL_USES
                if sname in ("classbody", "class-in-function", "classbody-shadowing-global"):
                    body = block + "\n" + "print(v)\nq0 = [v for i9 in s]"
                src = _fill(stpl, "B", body)
                add(f"stmt/{sname}/{bname}/{cname}", PRELUDE + src + "\nprint(v)\n")
    for sname, stpl in SCOPE_CTX.items():
        for xname, xtpl in EXPR_CTX.items():
            for ename, e in EXPRS.items():
                stmt = xtpl.replace("{{", "\0").replace("}}", "\1").replace("{E}", e).replace("\0", "{").replace("\1", "}")
                src = _fill(stpl, "B", stmt + "\nprint(c)")
                add(f"expr/{sname}/{xname}/{ename}", PRELUDE + src + "\n")
    for pname, ptpl in PARAM_CTX.items():
        for kname, p in PARAMS.items():
            add(f"param/{pname}/{kname}", PRELUDE + ptpl.replace("{P}", p))
    # lookup chains: every nesting chain of functions / classes up to depth 4, `v` bound at every subset of
    # the levels (the module always binds it), loaded in the innermost scope and in a closure below it
    import itertools
    for depth in (1, 2, 3, 4):
        for chain in itertools.product("FC", repeat=depth):
            for bound in itertools.product((0, 1), repeat=depth):
                lines = ["v = -1"]
                for lvl, (kind, b) in enumerate(zip(chain, bound)):
                    pad = "    " * lvl
                    if kind == "F":
                        lines.append(f"{pad}def f{lvl}(p{lvl}=0):")
                    else:
                        lines.append(f"{pad}class C{lvl}:")
                    if b and lvl < depth - 1:
                        lines.append(f"{pad}    v = {lvl}")
                pad = "    " * depth
                if bound[-1]:
                    lines.append(f"{pad}v = {depth}")
                lines.append(f"{pad}w{depth} = v")
                lines.append(f"{pad}def g9():")
                lines.append(f"{pad}    return v")
                lines.append(f"{pad}q9 = [v for i9 in ()]")
                add("chain/" + "".join(chain) + "/" + "".join(map(str, bound)), "\n".join(lines) + "\nprint(v)\n")
    _ENUM = out
    return out


# =========================================================================== cases
def cases(tier, seed):
    from vlib import corpus
    n = len(enum_modules())
    for lo in range(0, n, ENUM_CHUNK):
        yield {"mode": "enum", "lo": lo, "hi": min(n, lo + ENUM_CHUNK), "seed": f"{seed}/C15/enum/{lo}"}
    if tier == "quick":
        paths = corpus.select(f"{seed}/C15", QUICK_CORPUS, max_bytes=QUICK_MAX_BYTES)
    else:
        paths = corpus.select(f"{seed}/C15", None)
    for i, p in enumerate(paths):
        yield {"mode": "corpus", "path": p, "seed": f"{seed}/C15/corpus/{i}"}


# =========================================================================== rope side
_STATE = {"project": None, "uses": 0, "root": None, "resource": None}
KINDS = {"FunctionScope": "function", "ClassScope": "class", "ComprehensionScope": "comprehension",
         "GlobalScope": "module"}


def _project():
    from rope.base.project import Project
    if _STATE["project"] is None or _STATE["uses"] >= 25:
        if _STATE["project"] is not None:
            _STATE["project"].close()
        if _STATE["root"] is None:
            _STATE["root"] = core.mkscratch("c15-")
        import os
        os.makedirs(_STATE["root"] + "/pkg0", exist_ok=True)
        for f in ("__init__.py", "mod0.py"):
            with open(_STATE["root"] + "/pkg0/" + f, "w") as fh:
                fh.write("")
        _STATE["project"] = Project(_STATE["root"], ropefolder=None, save_history=False, save_objectdb=False,
                                    automatic_soa=False)
        _STATE["resource"] = _STATE["project"].get_file("pkg0/mod0.py")
        _STATE["uses"] = 0
    _STATE["uses"] += 1
    return _STATE["project"]


class _Matched:
    def __init__(self, ref, rope):
        self.ref, self.rope = ref, rope


def _kind(rscope):
    return KINDS.get(type(rscope).__name__, type(rscope).__name__)


def _rope_key(rscope):
    n = rscope.pyobject.get_ast()
    return (_kind(rscope), n.lineno, n.col_offset)


def _rel(model, a, b):
    """Relation of reference scope b (what rope answered) to a (expected)."""
    if a is b:
        return "same"
    p = a.reported_parent()
    while p is not None:
        if p is b:
            return "ancestor"
        p = p.reported_parent() if p.kind != "module" else None
    p = b.reported_parent()
    while p is not None:
        if p is a:
            return "descendant"
        p = p.reported_parent() if p.kind != "module" else None
    return "other"


class ModuleCheck:
    def __init__(self, src, res, rnd, label=None):
        self.src, self.res, self.rnd, self.label = src, res, rnd, label
        self.model = None
        self.match = {}        # ref scope id -> rope scope
        self.byrope = {}       # id(rope scope) -> ref scope
        self.bad_extent = []   # (ref, rope_start, rope_end)
        self.keys_seen = set()
        self._loglines = None
        self.extras = set()    # (id(ref scope), name) reported as extra by the names clause
        self.missing = set()   # (id(ref scope), name) reported by the names clause

    # ------------------------------------------------------------------ helpers
    def viol(self, key, what, **detail):
        detail.setdefault("source", self.src if len(self.src) < 1500 else self.src[:300] + "...")
        if self.label:
            detail.setdefault("label", self.label)
        if key in self.keys_seen:          # one witness per key and module is enough
            self.res.ev("violations_same_key_same_module")
            return
        self.keys_seen.add(key)
        self.res.violation(key, what, **detail)

    def guarded(self, clause, fn, *a):
        try:
            return fn(*a)
        except (RecursionError, MemoryError):
            self.res.ev("rope_recursion_limit")
            return None
        except Exception as e:   # an exception escaping from rope on a valid module
            if not _from_rope(e):
                raise            # bug of this harness: the runner reports the case as inconclusive
            self.viol(f"{clause}|exception|{core.exc_sig(e)}", f"{clause}: {type(e).__name__}: {e}"[:200])
            return None

    # ------------------------------------------------------------------ run
    def run(self):
        res = self.res
        try:
            with warnings.catch_warnings():
                warnings.simplefilter("ignore")
                self.model = symref.build(self.src)
                problems = self.model.selfcheck()
        except (RecursionError, MemoryError):
            res.ev("reference_recursion_limit")
            res.outcome("skipped-deep-nesting")
            return
        if problems:
            res.ev("oracle_selfcheck_disagree")
            res.outcome("skipped-oracle-disagrees-with-symtable")
            return
        from rope.base import libutils
        gscope = self.guarded("tree", lambda: libutils.get_string_module(_project(), self.src, _STATE["resource"]).get_scope())
        if gscope is None:
            return
        self.gscope = gscope
        res.evals()
        res.ev("modules_checked")
        m = self.model
        self.match[id(m.module)] = gscope
        self.byrope[id(gscope)] = m.module
        if self.guarded("tree", self.clause_tree) is None:
            return
        if any(s.bind for s in m.reported()):
            res.outcome("nontrivial")
        self.guarded("extent", self.clause_extent)
        self.guarded("names", self.clause_names)
        self.guarded("lookup", self.clause_lookup)
        self.guarded("position", self.clause_position)

    # ------------------------------------------------------------------ clause 1: tree
    def clause_tree(self):
        res, m = self.res, self.model
        refs = {}
        for s in m.reported():
            refs.setdefault(s.key, []).append(s)
        dup = {k for k, v in refs.items() if len(v) > 1}   # cannot happen: distinct nodes have distinct positions
        seen = set()

        def walk(rscope, refparent):
            for child in rscope.get_scopes():
                k = _rope_key(child)
                res.evals()
                ref = refs.get(k, [None])[0] if k not in dup else None
                if ref is None:
                    self.viol(f"tree|extra|{k[0]}", f"rope builds a {k[0]} scope at line {k[1]} the interpreter does not have",
                              line=k[1])
                    continue
                if id(ref) in seen:
                    self.viol(f"tree|second-copy|{ref.kind}|under={refparent.kind}"
                              f"|in={(ref.expr_ctx if ref.kind == 'comprehension' else ref.block_ctx).split('>')[0]}",
                              f"rope lists the {ref.kind} scope of line {ref.start} a second time, under the "
                              f"{refparent.kind} scope of line {refparent.start}", line=ref.start)
                    continue
                seen.add(id(ref))
                exp_parent = ref.reported_parent()
                if exp_parent is not refparent:
                    ctx = ref.expr_ctx if ref.kind == "comprehension" else ref.block_ctx
                    if ref.first_iter and refparent.kind == "comprehension":
                        ctx = "comprehension.first-iter"
                    self.viol(f"tree|misplaced|{ref.kind}|rope-parent={refparent.kind}|in={ctx}",
                              f"{ref.kind} scope of line {ref.start} hangs under the scope of line {refparent.start}, "
                              f"the interpreter nests it in the scope of line {exp_parent.start}", line=ref.start)
                self.match[id(ref)] = child
                self.byrope[id(child)] = ref
                res.ev("scopes_matched")
                res.ev("scopes_matched_" + ref.kind)
                walk(child, ref)

        walk(self.gscope, m.module)
        for s in m.reported():
            if id(s) in self.match:
                if s.kind == "comprehension":
                    res.shape(["scope", s.sub, s.expr_ctx, s.reported_parent().kind])
                continue
            par = s.reported_parent()
            if id(par) not in self.match:
                res.ev("scopes_under_missing_scope")
                continue
            ctx = s.expr_ctx if s.kind == "comprehension" else s.block_ctx
            self.viol(f"tree|missing|{s.kind}|in={ctx}",
                      f"{s.kind} scope of line {s.start} ({s.sub or getattr(s.node, 'name', '')}) is not among rope's "
                      f"scopes of the enclosing {par.kind}", line=s.start, context=ctx, parent=par.kind, via=s.via)
        return True

    # ------------------------------------------------------------------ clause 1b: extents
    def clause_extent(self):
        res = self.res
        for s in self.model.reported():
            r = self.match.get(id(s))
            if r is None:
                continue
            res.evals()
            res.ev("extents_checked")
            start, end = r.get_start(), r.get_end()
            bad = False
            if start != s.start:
                bad = True
                self.viol(f"extent|start|{s.kind}|{'rope-later' if start > s.start else 'rope-earlier'}",
                          f"{s.kind} of line {s.start}: get_start() = {start}", line=s.start, rope=start)
            if end != s.end:
                bad = True
                feat = self._end_feature(s, end)
                self.viol(f"extent|end|{s.kind}|{'rope-later' if end > s.end else 'rope-earlier'}|{feat}",
                          f"{s.kind} of lines {s.start}-{s.end}: get_end() = {end}", line=s.start, expected=s.end, rope=end)
            if bad:
                self.bad_extent.append((s, start, end))
        return True

    def _end_feature(self, s, rope_end):
        """Mechanism feature of a wrong end line: does rope's logical-line table agree with the tokenizer there?"""
        if s.kind == "comprehension":
            return "multiline" if s.end > s.start else "oneline"
        feats = []
        if s.node.body[0].lineno == s.node.lineno:
            feats.append("one-liner")
        try:
            rope_ll = tuple(self.gscope.pyobject.logical_lines.logical_line_in(s.end))
        except Exception:
            rope_ll = None
        feats.append("logical-lines-agree" if rope_ll == self.logical_line(s.end) else "logical-lines-differ")
        return "+".join(feats)

    def logical_line(self, line):
        """(first, last) physical line of the logical line holding `line`, by tokenize."""
        if self._loglines is None:
            self._loglines = {}
            start = None
            try:
                for t in tokenize.generate_tokens(io.StringIO(self.src).readline):
                    if t.type in (tokenize.NL, tokenize.COMMENT, tokenize.INDENT, tokenize.DEDENT, tokenize.ENDMARKER):
                        continue
                    if t.type == tokenize.NEWLINE:
                        if start is not None:
                            for ln in range(start, t.start[0] + 1):
                                self._loglines[ln] = (start, t.start[0])
                        start = None
                    elif start is None:
                        start = t.start[0]
            except (tokenize.TokenError, IndentationError, SyntaxError):
                pass
        return self._loglines.get(line)

    # ------------------------------------------------------------------ clause 2: names
    def _rope_names(self, s, r):
        if s.kind in ("module", "class"):
            return set(r.get_defined_names())
        names = r.get_names()
        if s.kind == "comprehension":
            inherited = r.parent.get_names()
            return {n for n, p in names.items() if inherited.get(n) is not p}
        return set(names)

    def clause_names(self):
        import builtins
        res, m = self.res, self.model
        for s in [m.module] + m.reported():
            r = self.match.get(id(s))
            if r is None:
                continue
            have = self._rope_names(s, r)
            required = {}
            for name, sites in s.bind.items():
                hard = [x for x in sites if not x.optional]
                if hard:
                    required[name] = hard
            for table in (s.decl_global, s.decl_nonlocal):
                for name, sites in table.items():
                    required.setdefault(name, []).extend(sites)
            for name, sites in sorted(required.items()):
                res.evals()
                res.ev("names_required_checked")
                for x in sites:
                    res.shape([s.kind, x.construct, x.block])
                if name in have:
                    continue
                self.missing.add((id(s), name))
                for cons in sorted({x.construct for x in sites}):
                    site = [x for x in sites if x.construct == cons][0]
                    if cons == "NamedExpr":
                        # expression-level binding: the mechanism is the statement field it sits in, not the scope kind
                        key = f"names|missing|*|NamedExpr|in={site.expr}"
                    elif cons.startswith("NamedExpr"):
                        key = f"names|missing|*|{cons}"
                    else:
                        key = f"names|missing|{s.kind}|{cons}"
                    self.viol(key, f"'{name}' bound by {cons} (line {site.lo}) in the {s.kind} scope of line {s.start} is "
                              f"not in rope's names of that scope", name=name, line=site.lo, block=site.block,
                              expr_context=site.expr, via=site.via)
            known = set(s.bind) | set(s.decl_global) | set(s.decl_nonlocal)
            allowed = set()
            if s.kind == "module":
                allowed = set(dir(builtins)) | {n for n in have if n.startswith("__") and n.endswith("__")}
            elif s.kind == "class":
                allowed = symref.self_attrs(s.node)
            for name in sorted(have - known - allowed):
                res.evals()
                origin = self._origin_of_extra(s, name)
                self.extras.add((id(s), name))
                self.viol(f"names|extra|{s.kind}|{origin}",
                          f"rope lists '{name}' in the {s.kind} scope of line {s.start}; the interpreter binds no such "
                          f"name there", name=name, line=s.start)
            res.ev("name_tables_checked")
        return True

    def _origin_of_extra(self, s, name):
        """Which binding of the module made rope record `name` in scope s (the interpreter binds it elsewhere)."""
        if s.kind == "comprehension" and name in s.walrus_out:
            return "walrus-target-belongs-to-enclosing-scope"
        lo = min([s.start] + [d.lineno for d in getattr(s.node, "decorator_list", [])])
        found = set()
        for d in self.model.scopes():
            if d is s:
                continue
            for x in d.bind.get(name, []):
                if not (lo <= x.lo and x.hi <= s.end):
                    continue
                if d is s.reported_parent():
                    found.add(f"{x.construct}@enclosing-scope|in={x.expr.split('>')[0]}")
                elif d.kind not in symref.REPORTED:
                    if d.reported_parent() is s:
                        found.add(f"{x.construct}@{d.kind}")
                    else:      # a lambda in the header of s (decorator, default, base ...): the header is the mechanism
                        found.add(f"{x.construct}@enclosing-scope|in={x.expr.split('>')[0]}")
                elif d.reported_parent() is s:
                    found.add(f"{x.construct}@{d.kind}")
        walrus = sorted(f for f in found if f.startswith("NamedExpr"))
        if walrus:
            return walrus[0]
        if name in s.notes:
            return s.notes[name]
        return sorted(found)[0] if found else "unknown-origin"

    # ------------------------------------------------------------------ clause 3: lookup
    def clause_lookup(self):
        from rope.base import pynames
        res, m = self.res, self.model
        pymodule = self.gscope.pyobject
        for s in [m.module] + m.reported():
            r = self.match.get(id(s))
            if r is None:
                continue
            names = sorted({n for n, _node, in_lambda in s.loads if not in_lambda})
            for name in names:
                if name == "__class__":
                    continue
                var = m.resolve(s, name)
                if var is None:
                    res.ev("lookups_skipped_builtin_or_unbound")
                    continue
                if var.owner.kind not in symref.REPORTED and var.owner.kind != "module":
                    res.ev("lookups_skipped_owner_is_skipped_scope")
                    continue
                if var.only_optional():
                    res.ev("lookups_skipped_annotation_only")
                    continue
                if id(var.owner) not in self.match:
                    res.ev("lookups_skipped_owner_scope_missing")
                    continue
                if (id(var.owner), name) in self.missing:
                    res.ev("lookups_skipped_name_reported_missing")   # consequence of a names|missing finding
                    continue
                res.evals()
                res.ev("lookups_checked")
                owner_rel = "same" if var.owner is s else (
                    "module" if var.owner.kind == "module" else "enclosing-" + var.owner.kind)
                local_sites = [x for x in var.sites if x in var.owner.bind.get(name, [])]
                if local_sites:
                    cons = sorted({x.construct for x in local_sites if not x.optional})
                else:
                    cons = ["only-via-" + "+".join(sorted({x.construct for x in var.sites if x.construct in
                                                               ("Global", "Nonlocal")}))]
                res.shape(["lookup", s.kind, owner_rel, cons[0]])
                found = r.lookup(name)
                if found is None:
                    for c in cons:
                        self.viol(f"lookup|unresolved|use={'*' if c.startswith('only-via') else s.kind}|owner={owner_rel}|{c}",
                                  f"lookup('{name}') from the {s.kind} scope of line {s.start} finds nothing; the "
                                  f"interpreter uses the {var.owner.kind} variable bound at lines {sorted(var.lines())[:6]}",
                                  name=name, line=s.start)
                    continue
                owner_r = self.match[id(var.owner)]
                entry = (owner_r.get_defined_names() if var.owner.kind in ("module", "class")
                         else owner_r.get_names()).get(name)
                if entry is found:
                    res.ev("lookups_ok")          # the very entry of the owning scope's table
                    continue
                line = None
                if entry is None:
                    # the owning scope has no entry to be identical with (names bound only through a global
                    # declaration elsewhere): judge by kind / definition line
                    if isinstance(found, (pynames.ImportedModule, pynames.ImportedName)):
                        if any(x.construct.startswith("Import") for x in var.sites):
                            res.ev("lookups_ok_import")
                            continue
                    else:
                        mod, line = found.get_definition_location()
                        if (mod is pymodule or mod is None) and line is not None and line in var.lines():
                            res.ev("lookups_ok_by_line")
                            continue
                elif not isinstance(found, (pynames.ImportedModule, pynames.ImportedName)):
                    line = found.get_definition_location()[1]
                decl = ""
                q = s
                while q is not None and q is not var.owner:
                    if name in q.decl_nonlocal:
                        decl = "nonlocal"
                    elif name in q.decl_global and not decl:
                        decl = "global"
                    q = q.parent
                where, holder = self._where_found(s, found)
                if holder is not None and (id(holder), name) in self.extras:
                    res.ev("lookups_skipped_explained_by_reported_extra")
                    continue
                if s.kind == "class" and where.startswith("inherited-or-builtin-of-class") or (
                        s.kind == "class" and holder is not None and holder.kind == "class" and holder is not s):
                    key = "lookup|wrong|use=class|got=inherited-attribute"
                elif s.kind == "class" and holder is s and name not in s.bind:
                    key = "lookup|wrong|use=class|got=self-assigned-attribute"
                elif s.kind == "comprehension" and holder is not None and holder.kind == "class":
                    key = "lookup|wrong|use=comprehension|got=attribute-of-enclosing-class"
                elif decl == "nonlocal":
                    key = f"lookup|wrong|declared=nonlocal|got={type(found).__name__}"
                else:
                    key = (f"lookup|wrong|use={s.kind}|owner={owner_rel}|{'+'.join(cons[:2])}"
                           f"{'|declared=global' if decl else ''}|got={where}")
                self.viol(key,
                          f"lookup('{name}') from the {s.kind} scope of line {s.start} gives a {type(found).__name__} "
                          f"(definition line {line}) held by {where}; the interpreter uses the {var.owner.kind} variable "
                          f"bound at lines {sorted(var.lines())[:6]}", name=name, line=s.start, rope_line=line)
        return True

    def _where_found(self, s, found):
        """Which of rope's scopes holds the PyName that lookup returned (kind and relation to the using scope)."""
        for d in [self.model.module] + self.model.reported():
            r = self.match.get(id(d))
            if r is None:
                continue
            names = r.get_names()
            if d.kind == "comprehension":
                inherited = r.parent.get_names()
                names = {n: p for n, p in names.items() if inherited.get(n) is not p}
            if any(p is found for p in names.values()):
                own = d.kind in ("module", "class") and not any(p is found for p in r.get_defined_names().values())
                return ("inherited-or-builtin-of-" if own else "") + d.kind + ":" + _rel(self.model, s, d), d
        return "no-scope", None

    # ------------------------------------------------------------------ clause 4: positions
    def clause_position(self):
        res, m = self.res, self.model
        pos = symref.Positions(self.src)
        matched = [s for s in m.reported() if id(s) in self.match]
        spans = []
        for s in matched:
            a, b = pos.node_span(s.node)
            spans.append((a, b, s))
        # unmatched scopes: positions inside them are not queried
        holes = [pos.node_span(s.node) for s in m.reported() if id(s) not in self.match]
        bad_lines = set()
        for s, rs, re_ in self.bad_extent:
            lo, hi = sorted((s.end, re_))
            bad_lines.update(range(lo, hi + 1))
            lo, hi = sorted((s.start, rs))
            bad_lines.update(range(lo, hi + 1))

        def innermost_at(off):
            best = m.module
            bw = None
            for a, b, s in spans:
                if a <= off < b and (bw is None or b - a < bw):
                    best, bw = s, b - a
            return best

        def innermost_line(line):
            best, bw = m.module, None
            for s in matched:
                if s.start <= line <= s.end and (bw is None or (s.end - s.start, -s.col) < bw):
                    best, bw = s, (s.end - s.start, -s.col)
            return best

        def in_hole(off):
            return any(a <= off < b for a, b in holes)

        # --- token table
        toks = []
        try:
            for t in tokenize.generate_tokens(io.StringIO(self.src).readline):
                toks.append(t)
        except (tokenize.TokenError, IndentationError, SyntaxError):
            res.ev("position_tokenize_failed")
            return True
        nlines = len(pos.lines)
        kind = {}
        accept = {}
        logical_first = True
        skip = (tokenize.NL, tokenize.NEWLINE, tokenize.INDENT, tokenize.DEDENT, tokenize.COMMENT,
                tokenize.ENDMARKER)
        in_stmt_lines = set()
        stmt_start = None
        for t in toks:
            if t.type in (tokenize.INDENT, tokenize.DEDENT, tokenize.ENDMARKER):
                continue
            if t.type == tokenize.NEWLINE:
                if stmt_start is not None:
                    in_stmt_lines.update(range(stmt_start, t.start[0] + 1))
                stmt_start = None
                logical_first = True
                continue
            if t.type in (tokenize.NL, tokenize.COMMENT):
                continue
            (l1, c1), (l2, c2) = t.start, t.end
            if stmt_start is None:
                stmt_start = l1
            off = pos.char_offset(l1, c1)
            exp = None if in_hole(off) else innermost_at(off)
            for ln in range(l1, l2 + 1):
                k = "code" if (logical_first and ln == l1) else "cont"
                if ln != l1 and ln != l2 and not pos.lines[ln - 1].strip():
                    k = "cont-blank"       # blank line inside a multi-line string
                if kind.get(ln) != "code":
                    kind[ln] = k if ln not in kind else kind[ln]
                accept.setdefault(ln, [])
                accept[ln].append(exp)
            logical_first = False
        for ln in range(1, nlines + 1):
            if ln in kind:
                continue
            text = pos.lines[ln - 1].strip()
            base = "blank" if not text else ("comment" if text.startswith("#") else "cont")
            kind[ln] = ("cont-" + base) if ln in in_stmt_lines and base != "cont" else base

        # --- line queries
        for ln in range(1, nlines + 1):
            if ln in bad_lines or (ln == nlines and not pos.lines[ln - 1]):
                continue
            k = kind[ln]
            if k in ("code", "cont") and accept.get(ln):
                if any(a is None for a in accept[ln]):
                    continue
                acc = accept[ln]
            else:
                acc = [innermost_line(ln)]
            got = self.gscope.get_inner_scope_for_line(ln)
            res.evals()
            res.ev("line_queries")
            gref = self.byrope.get(id(got))
            if gref is not None and any(gref is a for a in acc):
                continue
            exp = acc[0]
            rel = _rel(m, exp, gref) if gref is not None else "unknown-scope"
            self.viol(f"position|line|{k}|rel={rel}",
                      f"get_inner_scope_for_line({ln}) = scope of line {got.get_start()}; innermost definition holding "
                      f"the line starts at line {exp.start}", line=ln, text=pos.lines[ln - 1][:80])

        # --- offset queries
        cand = []
        boundaries = set()
        tok_offsets = sorted(pos.char_offset(*t.start) for t in toks if t.type not in skip)
        for a, b, s in spans:
            boundaries.update((a, b, b - 1))
            if s.kind == "comprehension":      # a generator expression may borrow the call's parentheses:
                i = bisect.bisect_left(tok_offsets, a)     # its first two tokens are boundary
                boundaries.update(tok_offsets[i:i + 2])
        for a, b in holes:
            boundaries.update((a, b))
        for t in toks:
            if t.type in (tokenize.NL, tokenize.NEWLINE, tokenize.INDENT, tokenize.DEDENT, tokenize.ENDMARKER):
                continue
            off = pos.char_offset(*t.start)
            if off in boundaries or in_hole(off):
                continue
            cand.append((off, t))
        limit = 400 if self.label is None else 60
        if len(cand) > limit:
            cand = self.rnd.sample(cand, limit)
        regions = self._regions(pos)
        for off, t in sorted(cand, key=lambda x: x[0]):
            exp = innermost_at(off)
            got = self.gscope.get_inner_scope_for_offset(off)
            res.evals()
            res.ev("offset_queries")
            gref = self.byrope.get(id(got))
            if gref is exp:
                continue
            region = "body"
            for a, b, name in regions:
                if a <= off < b:
                    region = name
            rel = _rel(m, exp, gref) if gref is not None else "unknown-scope"
            self.viol(f"position|offset|region={region}|got={gref.kind if gref else '?'}|rel={rel}",
                      f"get_inner_scope_for_offset({off}) = scope of line {got.get_start()}; innermost definition holding "
                      f"the offset starts at line {exp.start}", offset=off, line=t.start[0], token=t.string[:30])
        return True

    def _regions(self, pos):
        """Offset ranges with a name: decorators, parameter lists, bases, comprehension first iterables."""
        import ast
        out = []
        for s in self.model.reported():
            n = s.node
            decs = getattr(n, "decorator_list", [])
            if decs:
                first = min(d.lineno for d in decs)
                out.append((pos.starts[first - 1], pos.offset(n.lineno, n.col_offset), "decorator"))
            if s.kind == "comprehension":
                out.append(pos.node_span(n.generators[0].iter) + ("first-iterable",))
            if s.kind == "function":
                a = n.args
                for x in a.defaults + [k for k in a.kw_defaults if k is not None]:
                    out.append(pos.node_span(x) + ("default",))
            if s.kind == "class":
                for x in n.bases + [k.value for k in n.keywords]:
                    out.append(pos.node_span(x) + ("class-base",))
        return out


def _from_rope(e):
    import traceback
    return any("/rope/" in fr.filename.replace("\\", "/") and "/verif/" not in fr.filename
               for fr in traceback.extract_tb(e.__traceback__))


# =========================================================================== run_case
def run_case(spec):
    res = core.Result()
    rnd = core.rng(spec)
    if spec["mode"] == "enum":
        mods = enum_modules()[spec["lo"]:spec["hi"]]
        for label, src in mods:
            res.ev("enum_modules")
            ModuleCheck(src, res, rnd, label).run()
        res.sample({"mode": "enum", "label": mods[0][0], "source": mods[0][1]})
        return res
    from vlib import corpus
    src = corpus.load(spec["path"])
    if src is None:
        res.ev("corpus_skipped_not_compilable")
        res.outcome("skipped-not-compilable")
        res.evals(0)
        return res
    res.ev("corpus_modules")
    mc = ModuleCheck(src, res, rnd)
    mc.run()
    if mc.model is not None:
        res.sample({"mode": "corpus", "path": spec["path"], "scopes": len(mc.model.reported()),
                    "scopes_matched": len(mc.match) - 1, "lines": src.count("\n")})
    return res


def finalize(agg):
    ev = agg["events"]
    out = {"enumerator_size": len(enum_modules()), "enumerator_modules_run": ev.get("enum_modules", 0),
           "oracle_selfcheck_disagreements": ev.get("oracle_selfcheck_disagree", 0)}
    if ev.get("oracle_selfcheck_disagree", 0) > 0.01 * max(1, ev.get("modules_checked", 0)) + 5:
        out["inconclusive"] = "reference model disagrees with symtable on more than 1% of the modules"
    return out


def setup_worker():
    sys.setrecursionlimit(3000)
    warnings.simplefilter("ignore")
    enum_modules()


if __name__ == "__main__":
    core.main(sys.modules[__name__])
