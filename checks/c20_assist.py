"""C20 - completion and definition lookup are sound at every cursor position.

For generated modules (pygen profile binding) every character offset is used as a cursor, on the
intact module and on the module made invalid by cutting the current line at the cursor, with
maxfixes in {1, 3} and later_locals in {True, False}:
  1. code_assist returns, or refuses with a RopeError (ModuleSyntaxError is one); any other
     exception is a violation;
  2. every proposal starts with the typed prefix;
  3. (intact modules, undotted prefix, cursor in a statement body) soundness: every proposal is a
     name bound in the scope chain of the position (own scope, enclosing function scopes, module;
     class scopes only from inside the class body itself), a builtin, a keyword, or `param=` of the
     called function; completeness: every name the reference model (vlib/symref.py, symtable rules)
     binds on an EARLIER line in that chain and that has the prefix is offered;
  4. go-to-definition on every resolved identifier load leads to a line where the reference model
     binds that variable (or into another module for imported names).
"""
import builtins
import keyword
import os
import sys

from vlib import bindlex, core, layoutfuzz, pygen, pyrun, symref

ID = "C20"
READY = True
LEVEL = "exploration"
RULE = ("modules of pygen projects (<= 140 lines); cursor = every offset inside identifiers + every 3rd other "
        "offset; x {intact, line truncated at cursor} x maxfixes {1,3} x later_locals {T,F}; non-trivial = call "
        "that returned >= 1 proposal or a definition location; distinct = (variant, settings, position class, "
        "scope kind, outcome)")
ASSUMPTIONS = ["completeness is demanded only for names bound on earlier lines (what every reading of later_locals "
               "agrees on) and only outside lambda / comprehension / definition-header positions",
               "dotted completions are checked for clause 1 and 2 only"]
BUDGET = {"quick": (80, 300), "thorough": (130, 900)}
EXHAUSTIVE = {}
CASE_TIMEOUT = 900
REQUIRE = {"assist_calls": 20000, "completeness_checked": 500, "definitions_checked": 300, "truncated_calls": 5000}
TECHNIQUE = ("exhaustive cursor sweep over generated modules with an independent scope/name model (symtable rules) "
             "as oracle for visible names and binding lines; error-type monitor on every call")
LEVEL_TEXT = ("Every cursor position of each generated module is queried on the real code, intact and truncated, "
              "under all setting combinations; exceptions are classified against rope's error hierarchy, proposals "
              "against the typed prefix and the reference model's visible-name sets, definition lookups against "
              "the reference model's binding lines.")
LEVEL_NOTE = ("sampled modules, exhaustive positions per module; the reference model (symref) is cross-checked "
              "against symtable on every module and modules where it disagrees are skipped")
DESIGN_REF = "DESIGN.md section 5, C20"

BUILTINS = set(dir(builtins))
KEYWORDS = set(keyword.kwlist)


def cases(tier, seed):
    i = 0
    while True:
        # every second module is re-laid-out: line breaks with arbitrary (also smaller) indentation inside brackets
        yield {"seed": f"{seed}/C20/{i}", "pseed": seed * 1000003 + i + 900000, "relayout": i % 2}
        i += 1


def _chain(model, lineno):
    """(innermost scope, [ancestors]) for a body line, or None when the position is ambiguous."""
    best = model.module
    for s in model.scopes():
        if s.kind in ("function", "class") and s.start < lineno <= (s.end or 0):
            if best is model.module or (best.start <= s.start and (s.end or 0) <= (best.end or 10**9)):
                best = s
    # ambiguous: lines covered by a lambda / comprehension / nested definition header
    for s in model.scopes():
        if s.kind in ("lambda", "comprehension") and s.start <= lineno <= (s.end or s.start):
            return None
        if s.kind in ("function", "class") and s is not best:
            node = s.node
            first = min([d.lineno for d in getattr(node, "decorator_list", [])] + [node.lineno])
            body0 = node.body[0].lineno if getattr(node, "body", None) else node.lineno
            if first <= lineno < body0 or lineno == node.lineno:
                return None
    node = best.node
    if best is not model.module:
        first = min([d.lineno for d in getattr(node, "decorator_list", [])] + [node.lineno])
        if first <= lineno < node.body[0].lineno:
            return None
    chain = []
    p = best.parent
    while p is not None:
        chain.append(p)
        p = p.parent
    return best, chain


def run_case(spec):
    from rope.base import exceptions
    from rope.base.project import Project
    from rope.contrib import codeassist
    res = core.Result()
    rnd = core.rng(spec)
    tier = os.environ.get("VERIF_TIER", "quick")
    files, _ = pygen.generate(spec["pseed"], "binding", p_fstring=0.03, p_star_import=0.0, body_len=(2, 4), n_funcs=(1, 2),
                              p_cmp_arg=0.12,
                              n_classes=(0, 1))
    with core.Scratch() as tmp:
        root = tmp + "/p"
        os.makedirs(root)
        pyrun.write_project(root, files)
        if pyrun.run(root, "import_all.py")[0] != 0:
            res.outcome("discarded")
            return res
        project = Project(root, ropefolder=None, automatic_soa=False, save_history=False, save_objectdb=False)
        paths = [p for p in files if p.endswith(".py") and p not in ("main.py", "import_all.py") and files[p].strip()
                 and files[p].count("\n") <= 140]
        rnd.shuffle(paths)
        for path in paths[:1 if tier == "quick" else 3]:
            src = files[path]
            resource = project.get_file(path)
            if spec.get("relayout"):
                # half of the re-laid-out modules only get continuation lines deeper than any block (core),
                # the other half arbitrary ones (a labelled class, see viol())
                m = layoutfuzz.break_in_brackets(src, rnd, 6, **({"indents": (" " * 16, " " * 20, " " * 24)}
                                                                 if spec["pseed"] % 4 == 1 else {}))
                if m:
                    m = m.replace("\t", "    ")      # continuation lines only (the generator writes no tabs)
                if m and m != src:
                    src = files[path] = m
                    # through rope, so that no cached module of the old text survives
                    resource.write(src)
                    res.ev("modules_relaid_out")
            try:
                model = symref.build(src)
                if model.selfcheck() or model.has_star_import:
                    res.ev("modules_skipped_reference_model")
                    continue
                lex = bindlex.bindings(src)
            except Exception:
                res.ev("modules_skipped_reference_model")
                continue
            res.ev("modules")
            lines = src.split("\n")
            starts = [0]
            for l in lines[:-1]:
                starts.append(starts[-1] + len(l) + 1)
            # string/comment positions (no completeness demanded there)
            import io
            import tokenize
            quiet = set()
            for t in tokenize.generate_tokens(io.StringIO(src).readline):
                if t.type in (tokenize.STRING, tokenize.COMMENT, tokenize.FSTRING_START, tokenize.FSTRING_MIDDLE, tokenize.FSTRING_END):
                    a = starts[t.start[0] - 1] + t.start[1]
                    b = starts[t.end[0] - 1] + t.end[1]
                    quiet.update(range(a, b + 1))
            offsets = [o for o in range(len(src) + 1)
                       if (o > 0 and (src[o - 1].isalnum() or src[o - 1] == "_")) or o % 3 == 0]
            seen_keys = set()

            # continuation lines that are indented less than the first line of their statement, and the
            # line ranges of the functions / classes that contain one (rope finds scopes by indentation)
            import ast as _ast2
            dedented_lines, dedent_hosts, continuation_lines = set(), [], set()
            try:
                _t2 = _ast2.parse(src)
                for n_ in _ast2.walk(_t2):
                    if isinstance(n_, _ast2.stmt) and getattr(n_, "end_lineno", n_.lineno) > n_.lineno:
                        first_ind = len(lines[n_.lineno - 1]) - len(lines[n_.lineno - 1].lstrip())
                        last = n_.end_lineno if not hasattr(n_, "body") else n_.body[0].lineno - 1
                        for ln in range(n_.lineno + 1, last + 1):
                            continuation_lines.add(ln)
                            if lines[ln - 1].strip() and len(lines[ln - 1]) - len(lines[ln - 1].lstrip()) < first_ind:
                                dedented_lines.add(ln)
                for n_ in _ast2.walk(_t2):
                    if isinstance(n_, (_ast2.FunctionDef, _ast2.AsyncFunctionDef, _ast2.ClassDef)):
                        if any(n_.lineno <= ln <= n_.end_lineno for ln in dedented_lines):
                            dedent_hosts.append((n_.lineno, n_.end_lineno))
            except SyntaxError:
                pass
            cur = {"line": 0}

            def viol(key, what, **kw):
                if dedented_lines:
                    # rope finds scopes and logical lines by the indentation of physical lines: a module with such
                    # a line fails in dozens of ways on the unchanged tree (72 symptoms in one thorough run), on
                    # and far away from that line -- one class, one key
                    kw["symptom_key"] = key
                    key = "assist|hostile:module-has-a-continuation-line-indented-less-than-its-statement"
                elif continuation_lines and key.startswith("definition|"):
                    # go-to-definition in a module that has continuation lines inside brackets (every re-laid-out
                    # module): witnesses of a resolved name without a definition line; one key per clause
                    kw["symptom_key"] = key
                    key = "|".join(key.split("|")[:2]) + "|module-has-continuation-lines-inside-brackets"
                elif cur["line"] in continuation_lines and key.startswith("assist|visible-name-not-offered"):
                    # witnesses: with the cursor on a continuation line inside brackets (continuation indented
                    # deeper than its statement) rope leaves out some visible names -- `self`, module globals,
                    # imported names; one mechanism, one key
                    kw["symptom_key"] = key
                    key = "assist|visible-name-not-offered|cursor-on-a-continuation-line"
                if key in seen_keys:
                    return
                seen_keys.add(key)
                res.violation(key, what, file=path, pseed=spec["pseed"], **kw)

            for offset in offsets:
                lineno = src.count("\n", 0, offset) + 1
                cur["line"] = lineno
                line_end = src.find("\n", offset)
                line_end = len(src) if line_end < 0 else line_end
                for variant in ("intact", "truncated"):
                    code = src if variant == "intact" else src[:offset] + src[line_end:]
                    if variant == "truncated" and offset == line_end:
                        continue
                    for maxfixes in (1, 3):
                        for later in (True, False):
                            res.evals()
                            res.ev("assist_calls")
                            if variant == "truncated":
                                res.ev("truncated_calls")
                            try:
                                props = codeassist.code_assist(project, code, offset, resource, maxfixes=maxfixes, later_locals=later)
                                start = codeassist.starting_offset(code, offset)
                            except exceptions.RopeError as e:
                                res.outcome(f"refused:{type(e).__name__}:{variant}")
                                continue
                            except RecursionError:
                                viol(f"assist|internal:RecursionError|{variant}", "code_assist hit the recursion limit", offset=offset)
                                continue
                            except Exception as e:
                                viol(f"assist|internal:{core.exc_sig(e)}|{variant}", f"code_assist raised {e!r}"[:200],
                                     offset=offset, near=code[max(0, offset - 30):offset + 10], maxfixes=maxfixes)
                                continue
                            prefix = code[start:offset]
                            names = [p.name for p in props]
                            if props:
                                res.shape([variant, maxfixes, later, "dotted" if start > 0 and code[start - 1] == "." else "plain"])
                            bad = [n for n in names if not n.startswith(prefix)]
                            if bad:
                                viol(f"assist|proposal-does-not-extend-prefix|{variant}", "a proposal does not start with the typed text",
                                     offset=offset, prefix=prefix, proposal=bad[0])
                                continue
                            if variant != "intact" or not prefix or offset in quiet or (start > 0 and code[start - 1] == "."):
                                continue
                            if maxfixes != 1:
                                continue
                            # from-import / import lines: other rules
                            if lines[lineno - 1].lstrip().startswith(("import ", "from ")):
                                continue
                            ch = _chain(model, lineno)
                            if ch is None:
                                continue
                            scope, ancestors = ch
                            allowed = set(BUILTINS) | KEYWORDS
                            required = set()
                            reqinfo = {}
                            for i, s in enumerate([scope] + ancestors):
                                if s.kind == "class" and i > 0:
                                    continue          # class scopes are not visible from nested scopes
                                if s.kind not in ("function", "class", "module"):
                                    continue
                                for name, sites in s.bind.items():
                                    allowed.add(name)
                                    if name.startswith(prefix) and name not in s.decl_global and name not in s.decl_nonlocal:
                                        early = [st for st in sites if st.hi < lineno and not st.optional]
                                        if early and s.kind != "class":
                                            required.add(name)
                                            reqinfo[name] = (s.kind, early[0].construct)
                                        elif early and s.kind == "class" and i == 0:
                                            required.add(name)
                                            reqinfo[name] = (s.kind, early[0].construct)
                                for name in list(s.decl_global) + list(s.decl_nonlocal):
                                    allowed.add(name)
                            # names bound in nested comprehension / lambda scopes of the chain leak into nothing
                            res.ev("completeness_checked")
                            plain = {n for n in names if not n.endswith("=")}
                            missing = sorted(required - plain)
                            extra = sorted(n for n in plain if n not in allowed)
                            if missing:
                                kind, construct = reqinfo[missing[0]]
                                viol(f"assist|visible-name-not-offered|owner={kind}|bound-by={construct}|later_locals={int(later)}",
                                     "a name bound on an earlier line in the scope chain with the typed prefix is not proposed",
                                     offset=offset, prefix=prefix, missing=missing[:3], line=lines[lineno - 1])
                            elif extra:
                                # where does the name come from?
                                src_kind = "unknown"
                                for s in model.scopes():
                                    if extra[0] in s.bind:
                                        src_kind = s.kind
                                        break
                                viol("assist|unreferable-proposal", "a proposal names nothing referable at the cursor", origin=src_kind,
                                     offset=offset, prefix=prefix, extra=extra[:3], line=lines[lineno - 1], scope=scope.kind)
            # ---- go to definition on resolved loads
            by_binding = {}
            for o in lex:
                by_binding.setdefault(o.binding, []).append(o)
            import ast as _ast
            from vlib import srcpos as _sp
            _tree = _sp.set_parents(_ast.parse(src))
            _names = {(n.lineno, n.col_offset): n for n in _ast.walk(_tree) if isinstance(n, _ast.Name)}

            def load_context(o):
                n = _names.get((o.line, o.col))
                if n is None:
                    return "?"
                child = n
                for a in _sp.ancestors(n):
                    if isinstance(a, _ast.arguments):
                        return "default-argument"
                    if isinstance(a, (_ast.FunctionDef, _ast.AsyncFunctionDef, _ast.ClassDef)):
                        if child in getattr(a, "decorator_list", []):
                            return "decorator"
                        if isinstance(a, _ast.ClassDef):
                            return "class-base" if child in a.bases else "class-body"
                        return "function-body"
                    if isinstance(a, _ast.Lambda):
                        return "lambda"
                    if isinstance(a, (_ast.ListComp, _ast.SetComp, _ast.DictComp, _ast.GeneratorExp)):
                        return "comprehension"
                    child = a
                return "module-body"

            def def_key(o):
                ctx = load_context(o)
                if ctx in ("comprehension", "lambda", "default-argument", "decorator", "class-base", "class-body"):
                    return f"use-in={ctx}"      # the context is the mechanism
                return f"use-in={ctx}|bound-by={constructs_of(o)}"

            def constructs_of(o):
                for s_ in model.scopes():
                    v_ = model.resolve(s_, o.name)
                    if v_ is not None and any(x.line in v_.lines() for x in by_binding[o.binding] if x.role != "load"):
                        return "+".join(v_.constructs())[:60]
                return "?"
            for o in lex:
                if o.role != "load" or not isinstance(o.binding[0], tuple):
                    continue
                line = lines[o.line - 1]
                cur["line"] = o.line
                off = starts[o.line - 1] + len(line.encode("utf-8")[:o.col].decode("utf-8", "ignore"))
                if off in quiet:
                    continue
                bound_lines = set()
                owner_path = o.binding[0]
                for s in model.scopes():
                    pass
                # lines where the model binds this variable: every non-load occurrence + binding sites
                var_lines = {x.line for x in by_binding[o.binding] if x.role != "load"}
                for s in model.scopes():
                    v = None
                    try:
                        v = model.resolve(s, o.name)
                    except Exception:
                        v = None
                    if v is not None and any(x.line in v.lines() for x in by_binding[o.binding] if x.role != "load"):
                        var_lines |= set(v.lines())
                if not var_lines:
                    continue
                res.ev("definitions_checked")
                try:
                    loc = codeassist.get_definition_location(project, src, off, resource)
                except exceptions.RopeError:
                    res.outcome("definition-refused")
                    continue
                except Exception as e:
                    viol(f"definition|internal:{core.exc_sig(e)}", f"get_definition_location raised {e!r}"[:200], offset=off)
                    continue
                rsrc, ln = loc
                if rsrc is not None and rsrc.path != path:
                    res.outcome("definition-in-other-module")
                    continue
                if ln is None:
                    viol(f"definition|none-for-resolved-name|{def_key(o)}",
                         "no definition line for a statically resolved identifier", offset=off, name=o.name, line=line)
                elif ln not in var_lines:
                    viol(f"definition|line-where-binding-is-not-bound|{def_key(o)}",
                         "go-to-definition leads to a line where the binding is not bound",
                         offset=off, name=o.name, got=ln, expected=sorted(var_lines)[:8], line=line)
                else:
                    res.outcome("definition-ok")
            res.sample({"pseed": spec["pseed"], "module": path, "lines": len(lines), "offsets": len(offsets)})
    return res


if __name__ == "__main__":
    core.main(sys.modules[__name__])
