#!/bin/bash
# tools/sweep.sh <ID> <tier> <seed>... : runs the check for each seed, prints the union of unknown keys
ID=$1; TIER=$2; shift 2
cd "$(dirname "$0")/.."
for s in "$@"; do
  VERIF_SEED=$s ./check $ID --tier $TIER 2>&1 | grep -E "^  key=|^\[$ID\]|INCONCLUSIVE" | sed "s/^/seed=$s /"
done | tee /dev/stderr | grep "key=" | sed 's/.*key=\(\S*\) count.*/\1/' | sort | uniq -c | sort -k2
