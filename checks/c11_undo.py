"""C11 - undo and redo are exact inverses over any history of changes.

History + executable model: a real Project is driven in lock-step with the reference model of
vlib/histmodel.py; after every step the on-disk tree, the identity/order of the undo and redo
lists, the returned lists and the limit are compared.  quick/thorough = exhaustive enumeration
of all operation sequences of length <= 4 over a 13-symbol alphabet (x 3 limits) plus random
histories of length 20-60 with nested sets, removals, selective undo/redo, drop and refactoring
change sets computed by rope itself.
"""
import itertools
import sys

from vlib import core, histgen, histmodel

ID = "C11"
READY = True
LEVEL = "exploration"
RULE = ("(a) every sequence of length <=4 over {7 fixed changes, undo, redo, undo(0), undo(1), redo(0), "
        "undo(drop)} x limit in {1,2,100} on a 2-file/1-folder tree, pruned where the model says a change is "
        "invalid; (b) random histories of 20-60 steps (nested sets, dependent chains, removals in 20% of the "
        "histories, rope-computed module renames, limits 0..3/100); non-trivial = history in which some "
        "undo/redo took effect; distinct = the sequence of (step kind, #changes undone/redone) pairs")
ASSUMPTIONS = ["no external edits between steps", "path identifies a resource (generated names never reuse a "
               "folder name for a file)"]
BUDGET = {"quick": (8000, 240), "thorough": (280000, 900)}
EXHAUSTIVE = {}
REQUIRE = {"undo_effective": 100, "redo_effective": 50, "selective_effective": 20, "multi_dependency_undos": 5}
TECHNIQUE = ("lock-step differential against an executable reference model of the history (dict file tree + "
             "replay semantics), observed at the API boundary after every step; bounded-exhaustive + random histories")
LEVEL_TEXT = ("All operation sequences up to length 4 over a fixed alphabet are executed on the real code and "
              "compared step by step with the reference model (tree bytes, list identity and order, returned "
              "lists, limit, refusal on empty); longer histories are sampled. Held = no divergence on any step.")
LEVEL_NOTE = ("the model is the trusted piece (replay semantics of the statement, closure over shared/contained "
              "resources); histories with external edits are not generated; undo of RemoveResource is a recorded "
              "finding and ends the history in which it is met")
DESIGN_REF = "DESIGN.md section 5, C11"

TREE = {"a.py": "x = 1\n", "b.py": "y = 2\n", "d": None}
ALPHA_DO = [
    ["edit", "a.py", "x = 2\n"], ["edit", "a.py", "x = 3\n"], ["edit", "b.py", "y = 3\n"],
    ["mkfile", "d", "n.py"], ["move", "a.py", "d/a.py"], ["move", "d", "e"],
    ["set", "s", [["mkdir", "", "f"], ["move", "b.py", "f/b.py"], ["edit", "f/b.py", "y = 4\n"]]],
]
ALPHA = [["do", i] for i in range(len(ALPHA_DO))] + [["undo"], ["redo"], ["undo_sel", 0], ["undo_sel", 1],
                                                     ["redo_sel", 0], ["undo_drop"]]


def cases(tier, seed):
    # (a) bounded-exhaustive part: one case per (limit, first two symbols)
    for limit in (100, 2, 1):
        for a in range(len(ALPHA)):
            for b in range(len(ALPHA)):
                yield {"mode": "enum", "limit": limit, "prefix": [a, b]}
    i = 0
    while True:
        yield {"mode": "random", "seed": f"{seed}/C11/{i}"}
        i += 1


def _project(root, tree, limit):
    import os, shutil
    from rope.base.project import Project
    if os.path.exists(root):
        shutil.rmtree(root)
    os.makedirs(root)
    histgen.write_tree(root, tree)
    return Project(root, ropefolder=None, automatic_soa=False, save_history=False,
                   save_objectdb=False, max_history_items=limit)


def _step(ls, sym, res):
    """Execute one alphabet symbol; returns False if the sequence ends (invalid in model)."""
    k = sym[0]
    m = ls.model
    if k == "do":
        spec = ALPHA_DO[sym[1]] if isinstance(sym[1], int) else sym[1]
        try:
            histgen.apply(m.cur, spec)
        except histgen.ModelError:
            return False
        ls.do(spec)
        return True
    if k == "undo":
        r = ls.undo()
    elif k == "undo_drop":
        r = ls.undo(drop=True)
    elif k == "redo":
        r = ls.redo()
    elif k == "undo_sel":
        if sym[1] >= len(m.undo):
            return False
        r = ls.undo(sym[1], drop=bool(sym[2]) if len(sym) > 2 else False)
    elif k == "redo_sel":
        if sym[1] >= len(m.redo):
            return False
        r = ls.redo(sym[1])
    else:
        raise ValueError(k)
    if r == "refused":
        res.ev("empty_refusals")
    else:
        res.ev("undo_effective" if k.startswith("undo") else "redo_effective")
        if "sel" in k:
            res.ev("selective_effective")
        if r > 1:
            res.ev("multi_dependency_undos")
    ls.trace.append((k, r))
    return True


def _run_sequence(root, tree, limit, seq, res, has_remove=False):
    project = _project(root, tree, limit)
    ls = histmodel.LockStep(project, root, tree, limit)
    ls.trace = []
    res.evals()
    try:
        for sym in seq:
            if not _step(ls, sym, res):
                res.ev("pruned_invalid")
                break
            res.ev("steps_compared")
    except histmodel.Mismatch as mm:
        res.violation(f"{mm.key}|remove={int(has_remove)}", mm.what, seq=seq, limit=limit, **mm.detail)
    except histmodel.ModelUndefined as e:
        res.ev("model_undefined")
        res.outcome("model-undefined")
    if any(r != "refused" for _, r in ls.trace):
        res.shape([[k, r] for k, r in ls.trace])
    return ls


def _random_history(rnd):
    """Generated lazily against the model by run_case; here only the knobs."""
    return {"limit": rnd.choice([0, 1, 2, 3, 100, 100, 100]), "steps": rnd.randint(20, 60),
            "allow_remove": rnd.random() < 0.2, "refactor": rnd.random() < 0.4}


def run_case(spec):
    res = core.Result()
    with core.Scratch() as tmp:
        root = tmp + "/p"
        if spec["mode"] == "enum":
            limit = spec["limit"]
            pre = [ALPHA[i] for i in spec["prefix"]]
            seqs = [pre[:1], pre] if spec["prefix"][1] == 0 else [pre]
            if spec["prefix"] == [0, 0]:
                seqs.insert(0, [])
            for n in (1, 2):
                for tail in itertools.product(ALPHA, repeat=n):
                    seqs.append(pre + list(tail))
            for seq in seqs:
                _run_sequence(root, TREE, limit, seq, res)
            res.sample({"mode": "enum", "limit": limit, "example_sequence": seqs[-1]})
            return res
        # ---- random long history, generated against the evolving model
        rnd = core.rng(spec)
        kn = _random_history(rnd)
        tree = dict(histgen.INITIAL)
        project = _project(root, tree, kn["limit"])
        ls = histmodel.LockStep(project, root, tree, kn["limit"])
        ls.trace = []
        res.evals()
        m = ls.model
        seq = []
        try:
            for _ in range(kn["steps"]):
                r = rnd.random()
                if r < 0.45 or not (m.undo or m.redo):
                    if kn["refactor"] and rnd.random() < 0.15 and _try_refactoring(ls, rnd, res):
                        seq.append(["do-refactoring"])
                        continue
                    if rnd.random() < 0.2:
                        c, _ = histgen.gen_dependent_chain(rnd, m.cur)
                    else:
                        c, _ = histgen.gen_change(rnd, m.cur, allow_remove=kn["allow_remove"])
                    sym = ["do", c]
                elif r < 0.62:
                    sym = ["undo"]
                elif r < 0.75:
                    sym = ["redo"]
                elif r < 0.87 and m.undo:
                    sym = ["undo_sel", rnd.randrange(len(m.undo)), int(rnd.random() < 0.3)]
                elif r < 0.95 and m.redo:
                    sym = ["redo_sel", rnd.randrange(len(m.redo))]
                else:
                    sym = ["undo_drop"]
                seq.append(sym)
                if not _step(ls, sym, res):
                    break
                res.ev("steps_compared")
        except histmodel.Mismatch as mm:
            key = mm.key if mm.key == "undo|remove-unsupported" else f"{mm.key}|remove={int(kn['allow_remove'])}"
            res.violation(key, mm.what, knobs=kn, **mm.detail)
        except histmodel.ModelUndefined:
            res.ev("model_undefined")
            res.outcome("model-undefined")
        if any(r != "refused" for _, r in ls.trace):
            res.shape([[k, r] for k, r in ls.trace])
        res.sample({"mode": "random", "knobs": kn, "first_steps": seq[:12]})
    return res


def _try_refactoring(ls, rnd, res):
    """A change set computed by rope itself: rename a top-level module (edits importers + moves the file)."""
    from rope.base import exceptions
    from rope.refactor.rename import Rename
    m = ls.model
    mods = [p for p in histgen.files(m.cur) if p.endswith(".py") and "/" not in p and p.isascii()]
    if not mods:
        return False
    path = rnd.choice(mods)
    new = "ren%d" % rnd.randrange(1000)
    if new + ".py" in m.cur:
        return False
    try:
        changes = Rename(ls.project, ls.project.get_file(path), None).get_changes(new)
    except exceptions.RopeError:
        return False
    spec = histmodel.change_to_spec(changes)
    try:
        histgen.apply(m.cur, spec)
    except histgen.ModelError:
        return False
    ls.do_real(changes, spec)
    res.ev("refactoring_changesets")
    return True


if __name__ == "__main__":
    core.main(sys.modules[__name__])
