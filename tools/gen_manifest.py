#!/usr/bin/env python3
"""Regenerates MANIFEST.json from the metadata constants of checks/c*.py (no rope import needed:
the constants are read with ast.literal_eval)."""
import ast
import json
import sys
from pathlib import Path

ROOT = Path(__file__).resolve().parents[1]
NOT_BUILT = {}  # property id -> reason, filled below for properties without a check

ENGINES = [
    {"name": "core", "path": "vlib/core.py", "kind_free_text": "sharded long-lived worker runner, three-valued verdicts, evidence and replay files"},
    {"name": "fsfault", "path": "vlib/fsfault.py", "kind_free_text": "fault-injecting FileSystemCommands and TaskHandle stopper"},
    {"name": "histgen", "path": "vlib/histgen.py", "kind_free_text": "random change histories + dict-tree reference model"},
]


def consts(path):
    tree = ast.parse(path.read_text())
    out = {}
    for node in tree.body:
        if isinstance(node, ast.Assign) and len(node.targets) == 1 and isinstance(node.targets[0], ast.Name):
            try:
                out[node.targets[0].id] = ast.literal_eval(node.value)
            except Exception:
                pass
    return out


def main():
    props = [json.loads(l)["id"] for l in (ROOT / "properties.jsonl").read_text().splitlines() if l.strip()]
    na_path = ROOT / "tools" / "not_applicable.json"
    na = json.loads(na_path.read_text()) if na_path.exists() else {}
    checks = []
    serves = {}
    for p in sorted((ROOT / "checks").glob("c[0-9][0-9]_*.py")):
        try:
            c = consts(p)
        except SyntaxError:
            continue
        if not c.get("READY"):   # a check is registered only after review on the unchanged tree
            continue
        pid = c["ID"]
        checks.append({
            "property_id": pid,
            "quick_cmd": f"./check {pid} --tier quick",
            "thorough_cmd": f"./check {pid} --tier thorough",
            "evidence_file": f"/verif/evidence/{pid}.json",
            "replay_cmd_template": f"./check {pid} --replay {{path}}",
            "engine": "core",
            "level_claimed": {"category": c["LEVEL"], "text": c["LEVEL_TEXT"], "design_ref": c.get("DESIGN_REF", "DESIGN.md")},
            "level_note": c["LEVEL_NOTE"],
            "technique": c["TECHNIQUE"],
        })
    claimed = {c["property_id"] for c in checks}
    not_applicable = [{"property_id": p, "reason": na.get(p, "no check built yet in this round; not claimed")}
                      for p in props if p not in claimed]
    for e in ENGINES:
        e["serves_properties"] = sorted(claimed)
    manifest = {
        "version": 1,
        "setup_cmd": "./setup.sh",
        "hooks": {
            "guard": "ROPE_VERIF_HOOKS",
            "enable": "no source hooks are needed: every monitor is attached from the harness process (pluggable "
                      "fscommands, TaskHandle observers, audit hooks, wrappers on rope functions); rope is imported "
                      "straight from /repo's working tree (PYTHONPATH=/verif:/repo)",
            "baseline_off_cmd": "cd /repo && /venv/bin/python -m pytest -ra -q -p no:cacheprovider --timeout=900 --continue-on-collection-errors",
            "source_commits": [],
            "add_only": True,
        },
        "engines": ENGINES,
        "checks": checks,
        "not_applicable": not_applicable,
        "notes": "Runtime monitoring only. ./check <ID> --tier quick|thorough; exit 0 held on what was observed, "
                 "1 VIOLATION, 2 INCONCLUSIVE. known_findings.json lists genuine defects recorded (not repaired) and "
                 "the fix: commits made in /repo. See DESIGN.md.",
    }
    (ROOT / "MANIFEST.json").write_text(json.dumps(manifest, indent=1) + "\n")
    print(f"MANIFEST.json: {len(checks)} checks, {len(not_applicable)} not claimed")


if __name__ == "__main__":
    main()
