"""Recursive tree snapshots (path -> type, bytes) and diffs.  Trees are tiny, so bytes are kept."""
import os


def snap(root, skip=(".ropeproject",), with_mtime=False):
    out = {}
    root = os.path.realpath(root)
    for dp, dns, fns in os.walk(root):
        rel = os.path.relpath(dp, root)
        rel = "" if rel == "." else rel.replace(os.sep, "/")
        dns[:] = sorted(d for d in dns if not (rel == "" and d in skip))
        for d in dns:
            out[(rel + "/" + d).lstrip("/")] = ("d",)
        for f in sorted(fns):
            p = os.path.join(dp, f)
            key = (rel + "/" + f).lstrip("/")
            try:
                with open(p, "rb") as fh:
                    data = fh.read()
            except OSError as e:
                out[key] = ("?", repr(e))
                continue
            if with_mtime:
                st = os.stat(p)
                out[key] = ("f", data, st.st_mtime_ns)
            else:
                out[key] = ("f", data)
    return out


def diff(a, b):
    """List of (path, what) differences from a to b."""
    res = []
    for k in sorted(set(a) | set(b)):
        if k not in b:
            res.append((k, "missing"))
        elif k not in a:
            res.append((k, "extra"))
        elif a[k] != b[k]:
            res.append((k, "type-changed" if a[k][0] != b[k][0] else "content-changed"))
    return res


def show(d, limit=400):
    """JSON-able rendering for replay files."""
    out = {}
    for k, v in d.items():
        if v[0] == "f":
            try:
                out[k] = v[1].decode("utf-8")[:limit]
            except UnicodeDecodeError:
                out[k] = repr(v[1][:limit])
        else:
            out[k] = "<dir>" if v[0] == "d" else str(v)
    return out
