"""C12 - closing and reopening a project loses nothing it promised to keep.

(1) history: the lock-step model of C11 drives a real project that is closed and reopened
    (save_history / save_objectdb on) at random points, repeatedly.  At each reopen the reloaded
    undo/redo lists must serialise to the same data as before the close and name resources of the
    same kind (File/Folder); afterwards the history must keep behaving exactly as the model of a
    never-closed project says (tree bytes, list order, dependency closure of selective undo/redo).
(2) object information: modules are analysed (static object analysis), the object db is saved,
    reloaded, and compared deep-equal with types.
(3) serializer: python_to_json -> json.dumps -> json.loads -> json_to_python must give an equal value
    of identical type at every level, for both versions; values the serializer rejects must be
    rejected with ValueError/TypeError.
"""
import json
import sys

from vlib import core, histgen, histmodel

ID = "C12"
READY = True
LEVEL = "exploration"
RULE = ("history mode: random histories of 15-45 steps (all change kinds, nested sets, unicode / multi-line / "
        "CRLF / CR contents, selective undo/redo, rope-computed module renames) with a close+reopen after a "
        "random subset of steps; non-trivial = a history in which an undo/redo took effect AFTER a reopen; "
        "distinct = (newline convention, kinds of changes in the reloaded lists, step kinds after reopen). "
        "objectdb mode: distinct = set of scope keys saved. serializer mode: distinct = structural type "
        "skeleton of the value (depth <= 3)")
ASSUMPTIONS = ["files have one consistent newline convention", "no external edits while the project is closed"]
BUDGET = {"quick": (12000, 240), "thorough": (295000, 900)}
EXHAUSTIVE = {}
REQUIRE = {"reopens": 200, "effective_after_reopen": 100, "serializer_values": 1000, "objectdb_scopes_compared": 20,
           "folder_moves_reloaded": 5}
TECHNIQUE = ("lock-step reference model across close/reopen (twin of a never-closed project), deep comparison of "
             "reloaded history data and object db, and a JSON-text round-trip contract on the serializer")
LEVEL_TEXT = ("Random histories are executed on the real code with close/reopen injected at random points; every "
              "reloaded list is compared with the data saved, and every later step with the reference model of a "
              "never-closed project. The serializer contract is evaluated on thousands of generated nested values.")
LEVEL_NOTE = ("sampled histories, not exhaustive; the reference model (vlib/histmodel.py) is trusted; object "
              "information is produced by rope's own static analysis of a fixed pool of modules")
DESIGN_REF = "DESIGN.md section 5, C12"

CRLF_TEXTS = histgen.TEXTS  # edits are given with \n; the file's convention is applied by rope / the model


def cases(tier, seed):
    i = 0
    while True:
        m = i % 10
        mode = "serializer" if m == 0 else ("objectdb" if m == 1 else "history")
        yield {"mode": mode, "seed": f"{seed}/C12/{i}"}
        i += 1


# ------------------------------------------------------------------ history with reopen
def _open(root, limit):
    from rope.base.project import Project
    return Project(root, automatic_soa=False, save_history=True, save_objectdb=True, max_history_items=limit)


def _flat_kinds(change):
    from rope.base import change as ch
    if isinstance(change, ch.ChangeSet):
        out = []
        for c in change.changes:
            out += _flat_kinds(c)
        return out
    k = [type(change).__name__ if not isinstance(change, ch.CreateResource) else "CreateResource",
         type(change.resource).__name__]
    if isinstance(change, ch.MoveResource):
        k.append(type(change.new_resource).__name__)
    return [k]


def _history_data(project):
    from rope.base.change import ChangeToData
    td = ChangeToData()
    h = project.history
    return (json.loads(json.dumps([[td(c) for c in h.undo_list], [td(c) for c in h.redo_list]])),
            [[_flat_kinds(c) for c in h.undo_list], [_flat_kinds(c) for c in h.redo_list]])


def _has_folder_move(spec, tree):
    if spec[0] == "move":
        return tree.get(spec[1], "") is None
    if spec[0] == "set":
        t = tree
        for c in spec[2]:
            if _has_folder_move(c, t):
                return True
            try:
                t = histgen.apply(t, c)
            except histgen.ModelError:
                pass
    return False


def _history_case(spec, res):
    rnd = core.rng(spec)
    nl = rnd.choice(["\n", "\n", "\r\n", "\r"])
    limit = rnd.choice([2, 3, 100, 100, 100])
    steps = rnd.randint(15, 45)
    allow_remove = rnd.random() < 0.1
    histgen.NEWLINE_AWARE[0] = True
    tree = {p: (v if v is None else v.replace("\n", nl)) for p, v in histgen.INITIAL.items()}
    nlname = {"\n": "lf", "\r\n": "crlf", "\r": "cr"}[nl]
    with core.Scratch() as tmp:
        root = tmp + "/p"
        import os
        os.makedirs(root)
        histgen.write_tree(root, tree)
        project = _open(root, limit)
        ls = histmodel.LockStep(project, root, tree, limit)
        m = ls.model
        reopened = False
        foldermove = False
        after_reopen_steps = []
        reloaded_kinds = set()
        res.evals()
        try:
            for _ in range(steps):
                r = rnd.random()
                if r < 0.18:
                    # ---- close and reopen
                    before_data, before_kinds = _history_data(ls.project)
                    model_undo = [e["id"] for e in m.undo]
                    model_redo = [e["id"] for e in m.redo]
                    ls.log.append(["close+reopen"])
                    ls.project.close()
                    project = _open(root, limit)
                    ls.project = project
                    try:
                        after_data, after_kinds = _history_data(project)
                    except Exception as e:
                        raise histmodel.Mismatch(f"reopen|raised:{core.exc_sig(e)}",
                                                 f"loading the saved history raised {e!r}", log=ls.log)
                    res.ev("reopens")
                    res.ev("changes_reloaded", len(after_data[0]) + len(after_data[1]))
                    if after_data != before_data:
                        raise histmodel.Mismatch("reopen|history-data-differs", "undo/redo lists differ after reopen "
                                                 "(order, descriptions, paths or contents)", before=before_data,
                                                 after=after_data, log=ls.log)
                    if after_kinds != before_kinds:
                        raise histmodel.Mismatch("reopen|resource-kind-differs", "a reloaded change names a resource "
                                                 "of a different kind (File vs Folder)", before=before_kinds,
                                                 after=after_kinds, log=ls.log)
                    for lst in after_kinds:
                        for c in lst:
                            for k in c:
                                reloaded_kinds.add(k[0])
                                if k[0] == "MoveResource" and k[1] == "Folder":
                                    res.ev("folder_moves_reloaded")
                    h = project.history
                    ls.real = {}
                    for eid, c in zip(model_undo, h.undo_list):
                        ls.real[eid] = c
                    for eid, c in zip(model_redo, h.redo_list):
                        ls.real[eid] = c
                    reopened = True
                    ls.compare("reopen")
                    continue
                if r < 0.55 or not (m.undo or m.redo):
                    if rnd.random() < 0.1 and _try_rename(ls, rnd):
                        res.ev("refactoring_changesets")
                        continue
                    if rnd.random() < 0.2:
                        c, _ = histgen.gen_dependent_chain(rnd, m.cur)
                    else:
                        c, _ = histgen.gen_change(rnd, m.cur, allow_remove=allow_remove)
                    if _has_folder_move(c, m.cur):
                        foldermove = True
                    ls.do(c)
                    k = "do"
                    eff = None
                elif r < 0.70:
                    eff = ls.undo()
                    k = "undo"
                elif r < 0.80:
                    eff = ls.redo()
                    k = "redo"
                elif r < 0.92 and m.undo:
                    eff = ls.undo(rnd.randrange(len(m.undo)), drop=rnd.random() < 0.2)
                    k = "undo-sel"
                elif m.redo:
                    eff = ls.redo(rnd.randrange(len(m.redo)))
                    k = "redo-sel"
                else:
                    continue
                res.ev("steps_compared")
                if reopened and eff not in (None, "refused"):
                    res.ev("effective_after_reopen")
                    after_reopen_steps.append(k)
        except histmodel.Mismatch as mm:
            if mm.key == "undo|remove-unsupported":
                res.outcome("ended-by-C11-finding(remove-undo)")
            else:
                res.violation(f"{mm.key}|reopened={int(reopened)}|nl={nlname}|foldermove={int(foldermove)}",
                              mm.what, newline=nlname, limit=limit, **mm.detail)
        except histmodel.ModelUndefined:
            res.outcome("model-undefined")
        finally:
            histgen.NEWLINE_AWARE[0] = False
        if after_reopen_steps:
            res.shape([nlname, sorted(reloaded_kinds), sorted(set(after_reopen_steps))])
        res.sample({"mode": "history", "newline": nlname, "limit": limit, "first_steps": ls.log[:10]})


def _try_rename(ls, rnd):
    from rope.base import exceptions
    from rope.refactor.rename import Rename
    m = ls.model
    mods = [p for p in histgen.files(m.cur) if p.endswith(".py") and "/" not in p and p.isascii()]
    if not mods:
        return False
    path = rnd.choice(mods)
    new = "ren%d" % rnd.randrange(1000)
    try:
        changes = Rename(ls.project, ls.project.get_file(path), None).get_changes(new)
    except exceptions.RopeError:
        return False
    spec = histmodel.change_to_spec(changes)
    try:
        histgen.apply(m.cur, spec)
    except histgen.ModelError:
        return False
    ls.do_real(changes, spec)
    return True


# ------------------------------------------------------------------ object db
MODS = {
    "m1.py": "class A:\n    def __init__(self, v):\n        self.v = v\n    def get(self):\n        return self.v\n\n"
             "def make(x):\n    return A(x)\n\ndef ident(o):\n    return o\n\na = make('s')\nb = ident(a)\nc = ident([1, 2])\n"
             "d = ident({'k': A(1)})\n",
    "m2.py": "import m1\n\ndef use(f, arg):\n    return f(arg)\n\nr1 = use(m1.make, 3)\nr2 = m1.ident((1, 'x'))\n"
             "r3 = m1.ident(None)\nr4 = m1.ident(m1.A)\n",
    "pk/__init__.py": "",
    "pk/m3.py": "from m1 import A, ident\n\nclass B(A):\n    def twice(self, k=2):\n        return [self.get()] * k\n\n"
                "def gen(n):\n    for i in range(n):\n        yield B(i)\n\nx = ident(B(1).twice())\ny = ident(gen(2))\n"
                "z = ident(lambda q: q)\n\u00fc = ident('\u00fc\u4e2d')\n",
}


def _db_snapshot(project):
    db = project.pycore.object_info.objectdb.files
    out = {}
    for path in db.keys():
        fi = db[path]
        scopes = {}
        for key in fi.keys():
            si = fi[key]
            scopes[repr(key)] = (key, dict(si.call_info), dict(si.per_name))
        out[path] = scopes
    return out


def _typed(v):
    """Value with types made explicit so that equality is strict (tuple vs list, bool vs int)."""
    if isinstance(v, tuple):
        return ("tuple", [_typed(x) for x in v])
    if isinstance(v, list):
        return ("list", [_typed(x) for x in v])
    if isinstance(v, dict):
        return ("dict", sorted(((_typed(k), _typed(x)) for k, x in v.items()), key=repr))
    return (type(v).__name__, v)


def _objectdb_case(spec, res):
    import os
    from rope.base.project import Project
    rnd = core.rng(spec)
    names = sorted(MODS)
    rnd.shuffle(names)
    with core.Scratch() as tmp:
        root = tmp + "/p"
        os.makedirs(root)
        histgen.write_tree(root, {**{"pk": None}, **MODS})
        project = Project(root, automatic_soa=rnd.random() < 0.5, save_history=True, save_objectdb=True,
                          soa_followed_calls=rnd.choice([0, 1, 2]))
        for n in names[: rnd.randint(2, len(names))]:
            project.pycore.analyze_module(project.get_file(n))
        if rnd.random() < 0.5:  # let a change go through the db observers too
            f = project.get_file("m2.py")
            f.write(f.read() + "r5 = m1.ident(%d)\n" % rnd.randrange(100))
        before = _db_snapshot(project)
        project.close()
        res.evals()
        for round_ in range(rnd.randint(1, 3)):
            try:
                project = Project(root, automatic_soa=False, save_history=True, save_objectdb=True)
                after = _db_snapshot(project)
            except Exception as e:
                res.violation(f"objectdb|reopen-raised:{core.exc_sig(e)}", f"reopening with a saved object db raised {e!r}")
                return
            nscopes = sum(len(v) for v in after.values())
            res.ev("objectdb_scopes_compared", nscopes)
            if _typed(before) != _typed(after):
                diffs = [p for p in set(before) | set(after) if _typed(before.get(p)) != _typed(after.get(p))]
                res.violation("objectdb|stored-info-differs", "object information differs after close/reopen",
                              files=diffs, before=repr({p: before.get(p) for p in diffs})[:2000],
                              after=repr({p: after.get(p) for p in diffs})[:2000])
                return
            project.close()
        if nscopes:
            res.shape(["objectdb", sorted(k for v in after.values() for k in v)])
        res.sample({"mode": "objectdb", "files": len(after), "scopes": nscopes})


# ------------------------------------------------------------------ serializer
ATOMS = [None, 0, 1, -1, 2**70, True, False, "", "a", "1", "01", "$x", "x$", "\u00b2", "\u0663", "\uff11", "-1", "1.0",
         "v", "data", "references", "items", "t", "l", "\u00fc\u4e2d", "\U0001F600", "\ud800", "a\nb", "\x00", " ", "$$"]


def _gen_value(rnd, depth):
    r = rnd.random()
    if depth <= 0 or r < 0.3:
        return rnd.choice(ATOMS)
    n = rnd.choice([0, 1, 1, 2, 3])
    if r < 0.5:
        return tuple(_gen_value(rnd, depth - 1) for _ in range(n))
    if r < 0.7:
        return [_gen_value(rnd, depth - 1) for _ in range(n)]
    d = {}
    for _ in range(n):
        d[_gen_key(rnd, 2)] = _gen_value(rnd, depth - 1)
    return d


def _gen_key(rnd, depth):
    r = rnd.random()
    if depth <= 0 or r < 0.7:
        k = rnd.choice(ATOMS)
        return "k" if k == "$" else k
    return tuple(_gen_key(rnd, depth - 1) for _ in range(rnd.choice([0, 1, 2])))


def _skeleton(v, depth=3):
    if depth == 0:
        return "."
    if isinstance(v, (tuple, list)):
        return [type(v).__name__[0]] + sorted({json.dumps(_skeleton(x, depth - 1)) for x in v})
    if isinstance(v, dict):
        return ["d"] + sorted({json.dumps([_skeleton(k, depth - 1), _skeleton(x, depth - 1)]) for k, x in v.items()})
    if isinstance(v, str):
        return "digits" if v.isdigit() else "s"
    return type(v).__name__


def _serializer_case(spec, res):
    from rope.base import serializer
    rnd = core.rng(spec)
    for _ in range(400):
        v = _gen_value(rnd, rnd.choice([1, 2, 3, 4]))
        for version in (1, 2):
            res.evals()
            res.ev("serializer_values")
            try:
                enc = serializer.python_to_json(v, version)
                text = json.dumps(enc)
                dec = json.loads(text)
                back = serializer.json_to_python(dec)
            except Exception as e:
                res.violation(f"serializer|raised:{type(e).__name__}|v{version}",
                              f"a value of accepted types did not survive: {e!r}", value=repr(v))
                continue
            if _typed(back) != _typed(v):
                kind = "type-changed" if back == v else "value-changed"
                res.violation(f"serializer|{kind}|v{version}|{_first_diff(v, back).split(':', 9)[-1] if 'key:' not in _first_diff(v, back) else 'key:' + _first_diff(v, back).split('key:')[-1]}",
                              "round trip through JSON text gave a different value", value=repr(v), back=repr(back))
            elif enc != dec:
                res.violation(f"serializer|encoded-not-json-stable|v{version}", "encoded form changes when passed "
                              "through JSON text", value=repr(v))
            else:
                res.shape(["ser", version, _skeleton(v)])
    # rejected values must be rejected cleanly
    for bad in ({"$": 1}, {"a": {"$": "t"}}, 1.5, [1.5], {1.5: 1}, b"x", {b"k": 1}, {1, 2}, {"a": object}):
        for version in (1, 2):
            res.evals()
            try:
                serializer.python_to_json(bad, version)
            except (ValueError, TypeError, AssertionError):
                res.ev("serializer_rejections")
            except Exception as e:
                res.violation(f"serializer|reject-raised:{type(e).__name__}", "an unsupported value is rejected with "
                              "an unexpected exception type", value=repr(bad))
            else:
                try:
                    ok = serializer.json_to_python(json.loads(json.dumps(serializer.python_to_json(bad, version)))) == bad
                except Exception:
                    ok = False
                if not ok:
                    res.violation("serializer|accepted-but-lossy", "a value is accepted but does not round-trip",
                                  value=repr(bad))
    res.sample({"mode": "serializer", "example": repr(v)[:300]})


def _first_diff(a, b):
    """Mechanism feature: where (structurally) the first difference sits."""
    if type(a) is not type(b):
        return f"{type(a).__name__}->{type(b).__name__}"
    if isinstance(a, (list, tuple)):
        if len(a) != len(b):
            return "len"
        for x, y in zip(a, b):
            if _typed(x) != _typed(y):
                return "item:" + _first_diff(x, y)
    if isinstance(a, dict):
        ka, kb = sorted(map(repr, map(_typed, a))), sorted(map(repr, map(_typed, b)))
        if ka != kb:
            lost = [k for k in a if repr(_typed(k)) not in kb]
            return "key:" + (_key_class(lost[0]) if lost else "extra")
        for k in a:
            if _typed(a[k]) != _typed(b[k]):
                return "value:" + _first_diff(a[k], b[k])
    return "atom"


def _key_class(k):
    if isinstance(k, str):
        return "digit-str" if k.isdigit() else "str"
    return type(k).__name__


def run_case(spec):
    res = core.Result()
    if spec["mode"] == "history":
        _history_case(spec, res)
    elif spec["mode"] == "objectdb":
        _objectdb_case(spec, res)
    else:
        _serializer_case(spec, res)
    return res


if __name__ == "__main__":
    core.main(sys.modules[__name__])
