"""Real-code corpus shared by C08, C14, C15: the running interpreter's stdlib, /repo/rope, /repo/ropetest.

Small API (everything deterministic; no global randomness; nothing is written anywhere):

    paths(roots=DEFAULT_ROOTS)                     sorted list of every *.py path under the roots (cached);
                                                   alias all_files()
    select(seed, n, roots=..., top_level_only=False, max_bytes=None)
                                                   deterministic sample of paths (no compile check; cheap, for
                                                   the parent process: put the path into the case spec)
    load(path) -> str | None                       decoded, LF-normalised text; None if the interpreter cannot
                                                   decode or compile() it (bad-syntax fixtures, py2 files)
    files(seed, n, roots=..., **select_kw)         list of (path, text): `select` + `load`, skipping
                                                   non-compiling files until n are found (or corpus exhausted)
    iter_files(roots=...)                          generator of (path, text) over the whole corpus
    snippet(text, rnd, min_lines=3, max_lines=60)  a run of consecutive top-level statements of `text`
                                                   (a compilable source of its own) or None
    snippets(seed, n, roots=..., min_lines, max_lines) list of (origin, text) small compilable sources
    STATS                                          counters: loaded / skipped_undecodable / skipped_uncompilable

Roots are names: "stdlib" (sysconfig.get_paths()['stdlib'] without site-packages), "rope", "ropetest"
(under $VERIF_CORPUS_REPO, default /repo - deliberately NOT $ROPE_ROOT, so that a mutated scratch copy of
rope is judged on the same corpus), or absolute directory paths.
"""
from __future__ import annotations

import ast
import io
import os
import random
import sysconfig
import tokenize
import warnings

DEFAULT_ROOTS = ("stdlib", "rope", "ropetest")
REPO = os.environ.get("VERIF_CORPUS_REPO", "/repo")
STATS = {"loaded": 0, "skipped_undecodable": 0, "skipped_uncompilable": 0}

_paths_cache = {}
_SKIP_DIRS = {"site-packages", "__pycache__", ".git", ".venv", "node_modules"}


def root_dir(root):
    if root == "stdlib":
        return sysconfig.get_paths()["stdlib"]
    if root in ("rope", "ropetest"):
        return os.path.join(REPO, root)
    return root


def paths(roots=DEFAULT_ROOTS):
    """Sorted list of all *.py files under the roots (order: roots as given, then lexicographic)."""
    key = tuple(roots)
    if key not in _paths_cache:
        out = []
        for r in roots:
            base = root_dir(r)
            here = []
            for d, dirs, fs in os.walk(base):
                dirs[:] = sorted(x for x in dirs if x not in _SKIP_DIRS)
                for f in fs:
                    if f.endswith(".py"):
                        here.append(os.path.join(d, f))
            out.extend(sorted(here))
        _paths_cache[key] = out
    return list(_paths_cache[key])


all_files = paths   # alias


def _is_top_level(path, roots):
    d = os.path.dirname(path)
    return any(os.path.normpath(d) == os.path.normpath(root_dir(r)) for r in roots)


def select(seed, n, roots=DEFAULT_ROOTS, top_level_only=False, max_bytes=None):
    """Deterministic sample (without replacement) of at most n corpus paths; n=None -> all, shuffled."""
    ps = paths(roots)
    if top_level_only:
        ps = [p for p in ps if _is_top_level(p, roots)]
    if max_bytes is not None:
        ps = [p for p in ps if _size(p) <= max_bytes]
    rnd = random.Random(f"{seed}/corpus/select")
    rnd.shuffle(ps)
    return ps if n is None else ps[:n]


def _size(p):
    try:
        return os.path.getsize(p)
    except OSError:
        return 1 << 60


def compiles(text, filename="<corpus>"):
    """True iff the running interpreter accepts `text` (warnings silenced, nothing executed)."""
    try:
        with warnings.catch_warnings():
            warnings.simplefilter("ignore")
            compile(text, filename, "exec", dont_inherit=True)
        return True
    except (SyntaxError, ValueError, RecursionError, MemoryError, OverflowError):
        return False


def load(path):
    """Text of `path` as Python itself decodes it (PEP 263 cookie / BOM), newlines normalised to LF
    (that is also what rope's file reader produces); None if it does not decode or compile."""
    try:
        with open(path, "rb") as f:
            data = f.read()
        enc, _ = tokenize.detect_encoding(io.BytesIO(data).readline)
        text = data.decode(enc)
    except (SyntaxError, UnicodeError, LookupError, OSError):
        STATS["skipped_undecodable"] += 1
        return None
    if text.startswith("\ufeff"):
        text = text[1:]
    text = text.replace("\r\n", "\n").replace("\r", "\n")
    if "\x00" in text or not compiles(text, path):
        STATS["skipped_uncompilable"] += 1
        return None
    STATS["loaded"] += 1
    return text


def files(seed, n, roots=DEFAULT_ROOTS, **select_kw):
    """list of (path, text) of n compilable corpus files chosen deterministically by seed."""
    out = []
    for p in select(seed, None, roots, **select_kw):
        if n is not None and len(out) >= n:
            break
        t = load(p)
        if t is not None:
            out.append((p, t))
    return out


def iter_files(roots=DEFAULT_ROOTS):
    for p in paths(roots):
        t = load(p)
        if t is not None:
            yield p, t


def snippet(text, rnd, min_lines=3, max_lines=60):
    """A run of consecutive top-level statements of `text` (with decorators and the comments between
    them) whose extent is between min_lines and max_lines if possible; compilable on its own; or None."""
    try:
        tree = ast.parse(text)
    except (SyntaxError, ValueError, RecursionError):
        return None
    body = tree.body
    if not body:
        return None
    lines = text.split("\n")

    def first_line(node):
        decs = getattr(node, "decorator_list", None) or []
        return min([node.lineno] + [d.lineno for d in decs])

    for _ in range(8):
        i = rnd.randrange(len(body))
        j = i
        start = first_line(body[i])
        while j + 1 < len(body) and body[j + 1].end_lineno - start + 1 <= max_lines \
                and (body[j].end_lineno - start + 1 < min_lines or rnd.random() < 0.5):
            j += 1
        end = body[j].end_lineno
        if end - start + 1 > max_lines and i != j:
            continue
        if end - start + 1 > 4 * max_lines:
            continue
        # a statement may share its last line with the next one (`a; b`): extend to the line end
        while j + 1 < len(body) and first_line(body[j + 1]) <= end:
            j += 1
            end = max(end, body[j].end_lineno)
        if i > 0 and body[i - 1].end_lineno >= start:
            continue
        out = "\n".join(lines[start - 1:end]) + "\n"
        if compiles(out):
            return out
    return None


def snippets(seed, n, roots=DEFAULT_ROOTS, min_lines=3, max_lines=60):
    """n small compilable sources cut from corpus files: list of (origin 'path:k', text)."""
    rnd = random.Random(f"{seed}/corpus/snippets")
    out = []
    ps = select(seed, None, roots)
    k = 0
    while len(out) < n and k < 20 * n + 100 and ps:
        p = ps[k % len(ps)]
        k += 1
        t = load(p)
        if t is None:
            continue
        s = snippet(t, rnd, min_lines, max_lines)
        if s is not None:
            out.append((f"{p}:{k}", s))
    return out
