"""Executable reference model of rope's project history (C11, C12, C18) and a driver that
runs a real Project in lock-step with it, comparing tree and history lists after every step.

Rules encoded (from the property statement, not from rope's code):
  do          tree' = apply(tree, change); undo list gets the change (trimmed to the limit from the
              oldest end); redo list is cleared
  undo()      the last change of the undo list moves to the redo list; tree = replay of the remaining
              undo list on the base tree ("as if never made")
  undo(c)     c plus the later changes related to it by the closure over shared / contained resources
              are undone; all others stay in force; tree = replay of the remaining ones
  redo()/redo(c)  symmetric; the redone changes are applied in their original order
  drop=True   undone changes are not kept for redo
  empty undo/redo  HistoryError, no effect
"""
from vlib import histgen, treesnap


class Mismatch(Exception):
    def __init__(self, key, what, **detail):
        super().__init__(what)
        self.key, self.what, self.detail = key, what, detail


class ModelUndefined(Exception):
    pass


def resources_of(spec, tree):
    """{(path, is_folder)} the change names, folders told apart with the tree it is applied to."""
    out = set()
    k = spec[0]
    if k == "edit":
        out.add((spec[1], False))
    elif k == "mkfile":
        out.add((histgen.join(spec[1], spec[2]), False))
    elif k == "mkdir":
        out.add((histgen.join(spec[1], spec[2]), True))
    elif k == "move":
        d = tree.get(spec[1], "") is None
        out.add((spec[1], d))
        out.add((spec[2], d))
    elif k == "remove":
        out.add((spec[1], tree.get(spec[1], "") is None))
    else:
        t = tree
        for c in spec[2]:
            out |= resources_of(c, t)
            try:
                t = histgen.apply(t, c)
            except histgen.ModelError:
                pass
    return out


def related(res_a, res_b):
    for (p, pd) in res_a:
        for (q, qd) in res_b:
            if p == q:
                return True
            if pd and (p == "" or q.startswith(p + "/")):
                return True
            if qd and (q == "" or p.startswith(q + "/")):
                return True
    return False


def closure(entries):
    """entries[0] and the following entries related to it through shared/contained resources."""
    acc = set(entries[0]["res"])
    out = [entries[0]]
    for e in entries[1:]:
        if related(e["res"], acc):
            out.append(e)
            acc |= e["res"]
    return out


class Model:
    def __init__(self, tree, limit):
        self.base = dict(tree)
        self.cur = dict(tree)
        self.undo = []
        self.redo = []
        self.limit = limit
        self.n = 0

    def entry(self, spec):
        self.n += 1
        res = resources_of(spec, self.cur)
        # state of the named resources when the change is first performed (None = absent)
        pre = {"paths": sorted(p for (p, _) in res), "state": self._sub(self.cur, res)}
        return {"id": self.n, "spec": spec, "res": res, "pre": pre}

    @staticmethod
    def _sub(tree, res):
        """The part of `tree` at or below the named resources."""
        out = {}
        for (p, _) in res:
            for k, v in tree.items():
                if k == p or k.startswith(p + "/"):
                    out[k] = v
        return out

    def do(self, spec):
        e = self.entry(spec)
        self.cur = histgen.apply(self.cur, spec)  # ModelError => invalid request
        self.undo.append(e)
        while len(self.undo) > self.limit:
            old = self.undo.pop(0)
            self.base = histgen.apply(self.base, old["spec"])
        self.redo = []
        return e

    def _replay(self):
        t = self.base
        try:
            for e in self.undo:
                t = histgen.apply(t, e["spec"])
        except histgen.ModelError as ex:
            raise ModelUndefined(f"remaining changes cannot be replayed: {ex}")
        return t

    def undo_op(self, index=None, drop=False):
        if not self.undo:
            return None
        index = len(self.undo) - 1 if index is None else index
        deps = closure(self.undo[index:])
        ids = {e["id"] for e in deps}
        self.undo = [e for e in self.undo if e["id"] not in ids]
        self.cur = self._replay()
        if not drop:
            self.redo += list(reversed(deps))
        return deps

    def redo_op(self, index=None):
        if not self.redo:
            return None
        index = len(self.redo) - 1 if index is None else index
        deps = closure(self.redo[index:])
        ids = {e["id"] for e in deps}
        self.redo = [e for e in self.redo if e["id"] not in ids]
        t = self.cur
        try:
            for e in reversed(deps):
                # A change whose prerequisite was undone with drop=True can still sit in the redo
                # list; redoing it on a base that differs from the one it was made on has no
                # meaning the statement defines.
                if self._sub(t, e["res"]) != e["pre"]["state"]:
                    raise ModelUndefined("redo on a base that diverged from the one the change was made on")
                t = histgen.apply(t, e["spec"])
        except histgen.ModelError as ex:
            raise ModelUndefined(f"redone changes cannot be applied: {ex}")
        self.cur = t
        self.undo += list(reversed(deps))
        return deps


class LockStep:
    """Drives a real project and the model with the same operations."""

    def __init__(self, project, root, tree, limit):
        self.project, self.root = project, root
        self.model = Model(tree, limit)
        self.real = {}  # model entry id -> rope change object
        self.log = []

    # -- observation of the real side
    def _real_ids(self, lst):
        rev = {id(c): k for k, c in self.real.items()}
        return [rev.get(id(c), "?") for c in lst]

    def compare(self, step):
        h = self.project.history
        now = treesnap.snap(self.root)
        want = histgen.tree_as_snap(self.model.cur)
        if now != want:
            raise Mismatch(f"{step}|tree-differs", f"after {step} the tree is not what the reference model predicts",
                           diff=treesnap.diff(want, now), log=self.log)
        mu, mr = [e["id"] for e in self.model.undo], [e["id"] for e in self.model.redo]
        ru, rr = self._real_ids(h.undo_list), self._real_ids(h.redo_list)
        if ru != mu:
            raise Mismatch(f"{step}|undo-list-differs", f"after {step} the undo list differs from the model",
                           real=ru, model=mu, log=self.log)
        if rr != mr:
            raise Mismatch(f"{step}|redo-list-differs", f"after {step} the redo list differs from the model",
                           real=rr, model=mr, log=self.log)
        if len(h.undo_list) > self.model.limit:
            raise Mismatch(f"{step}|limit-exceeded", "undo list longer than the configured limit", log=self.log)

    def _call(self, step, fn):
        """Run a rope call; any exception it lets escape on a request the model accepts is a divergence."""
        from vlib import core
        try:
            return fn()
        except Exception as e:
            sig = core.exc_sig(e)
            if isinstance(e, NotImplementedError) and sig.endswith("change.py:undo"):
                raise Mismatch("undo|remove-unsupported", "undoing a change that contains a RemoveResource raises "
                               "NotImplementedError", log=self.log)
            raise Mismatch(f"{step}|raised:{sig}", f"{step} raised {type(e).__name__} on a history the model accepts: {e}",
                           log=self.log)

    # -- operations
    def do(self, spec):
        self.log.append(["do", spec])
        ch = histgen.build(self.project, spec, self.model.cur)
        e = self.model.do(spec)
        self.real[e["id"]] = ch
        self._call("do", lambda: self.project.do(ch))
        self.compare("do")

    def do_real(self, ch, spec):
        """A change computed by rope itself (refactoring), already converted to `spec`."""
        self.log.append(["do-refactoring", spec])
        e = self.model.do(spec)
        self.real[e["id"]] = ch
        self._call("do-refactoring", lambda: self.project.do(ch))
        self.compare("do-refactoring")

    def _expect_history_error(self, step, fn):
        from rope.base import exceptions
        before = treesnap.snap(self.root)
        try:
            fn()
        except exceptions.HistoryError:
            if treesnap.snap(self.root) != before:
                raise Mismatch(f"{step}|refusal-had-effect", "refused undo/redo changed the tree", log=self.log)
            self.compare(step)
            return
        except Exception as e:
            raise Mismatch(f"{step}|empty-raised:{type(e).__name__}", f"{step} on an empty list raised {e!r} instead "
                           "of HistoryError", log=self.log)
        raise Mismatch(f"{step}|empty-not-refused", f"{step} with nothing to {step.split('-')[0]} was not refused",
                       log=self.log)

    def undo(self, index=None, drop=False):
        h = self.project.history
        step = "undo" if index is None else "undo-selective"
        if drop:
            step += "-drop"
        self.log.append([step, index])
        if not self.model.undo:
            self._expect_history_error(step, lambda: h.undo(drop=drop))
            return "refused"
        target = None if index is None else self.real[self.model.undo[index]["id"]]
        deps = self.model.undo_op(index, drop)  # may raise ModelUndefined
        got = self._call(step, lambda: h.undo(target, drop=drop))
        if sorted(self._real_ids(got), key=str) != sorted((e["id"] for e in deps), key=str):
            raise Mismatch(f"{step}|returned-set-differs", "the list of undone changes returned differs from the "
                           "closure over shared/contained resources", real=self._real_ids(got),
                           model=[e["id"] for e in deps], log=self.log)
        self.compare(step)
        return len(deps)

    def redo(self, index=None):
        h = self.project.history
        step = "redo" if index is None else "redo-selective"
        self.log.append([step, index])
        if not self.model.redo:
            self._expect_history_error(step, lambda: h.redo())
            return "refused"
        target = None if index is None else self.real[self.model.redo[index]["id"]]
        deps = self.model.redo_op(index)
        got = self._call(step, lambda: h.redo(target))
        if sorted(self._real_ids(got), key=str) != sorted((e["id"] for e in deps), key=str):
            raise Mismatch(f"{step}|returned-set-differs", "the list of redone changes returned differs from the model",
                           real=self._real_ids(got), model=[e["id"] for e in deps], log=self.log)
        self.compare(step)
        return len(deps)


def change_to_spec(change):
    """A rope change (as computed by a refactoring) expressed as a model spec."""
    from rope.base import change as ch
    if isinstance(change, ch.ChangeSet):
        return ["set", change.description, [change_to_spec(c) for c in change.changes]]
    if isinstance(change, ch.ChangeContents):
        return ["edit", change.resource.path, change.new_contents]
    if isinstance(change, ch.MoveResource):
        return ["move", change.resource.path, change.new_resource.path]
    if isinstance(change, ch.CreateResource):
        p = change.resource.path
        return ["mkdir" if change.resource.is_folder() else "mkfile", histgen.parent_of(p), p.rsplit("/", 1)[-1]]
    if isinstance(change, ch.RemoveResource):
        return ["remove", change.resource.path]
    raise TypeError(type(change))
