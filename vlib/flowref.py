"""Reference data-flow facts used ONLY to classify an observed extract-method failure by cause
(C03 finding signatures).  Conservative and syntactic: it never decides a verdict, it names the
mechanism of a behaviour change that was already observed by executing the program."""
import ast

from vlib import srcpos

FUNC = (ast.FunctionDef, ast.AsyncFunctionDef)


def _names(nodes, ctx_types, skip_nested=True):
    """[(name, node)] in source order for Name nodes with the given ctx, not entering nested defs."""
    out = []

    def visit(n, in_comp=False):
        if isinstance(n, (ast.ListComp, ast.SetComp, ast.DictComp, ast.GeneratorExp)):
            # a comprehension's targets are its own variables, not writes of the enclosing scope
            bound = {t.id for g in n.generators for t in ast.walk(g.target) if isinstance(t, ast.Name)}
            for ch in ast.walk(n):
                if isinstance(ch, ast.Name) and isinstance(ch.ctx, ctx_types) and ch.id not in bound:
                    out.append((ch.id, ch))
            return
        if isinstance(n, ast.Name) and isinstance(n.ctx, ctx_types):
            out.append((n.id, n))
        if isinstance(n, ast.AugAssign) and isinstance(n.target, ast.Name):
            if ast.Load in ctx_types:
                out.append((n.target.id, n.target))
        if skip_nested and isinstance(n, FUNC + (ast.Lambda, ast.ClassDef)):
            # names read inside nested scopes still count as reads of the outer variable (closures)
            for ch in ast.walk(n):
                if ch is not n and isinstance(ch, ast.Name) and isinstance(ch.ctx, ctx_types) and ast.Load in ctx_types:
                    out.append((ch.id, ch))
            if isinstance(n, FUNC + (ast.ClassDef,)) and ast.Store in ctx_types:
                out.append((n.name, n))
            return
        if isinstance(n, ast.ExceptHandler) and n.name and ast.Store in ctx_types:
            out.append((n.name, n))
        for ch in ast.iter_child_nodes(n):
            visit(ch)
    for n in nodes:
        visit(n)
    out.sort(key=lambda t: (getattr(t[1], "lineno", 0), getattr(t[1], "col_offset", 0)))
    return out


def _host_and_region(tree, pos, start, end):
    host = None
    for node in ast.walk(tree):
        if isinstance(node, FUNC):
            s, e = pos.span(node)
            if s <= start and end <= e:
                if host is None or pos.span(host)[0] <= s:
                    host = node
    scope = host if host is not None else tree
    region = []
    for node in ast.walk(scope):
        for _, body in srcpos.bodies(node):
            sel = [st for st in body if pos.span(st)[0] >= start and pos.span(st)[1] <= end]
            if sel and not region:
                if all(not any(st in ast.walk(r) for r in region) for st in sel):
                    region = sel
    # keep only the outermost block that lies in the region
    best = []
    for node in ast.walk(scope):
        for _, body in srcpos.bodies(node):
            sel = [st for st in body if pos.span(st)[0] >= start and pos.span(st)[1] <= end]
            if sel and (not best or pos.span(sel[0])[0] < pos.span(best[0])[0] or
                        (pos.span(sel[0])[0] == pos.span(best[0])[0] and len(sel) > len(best))):
                best = sel
    return host, best


def classify_method_extraction(src, start, end, new_src, new_name="extracted_q"):
    """-> (cause, features) with cause in missing-return | missing-parameter | unexplained."""
    try:
        tree = srcpos.set_parents(ast.parse(src))
        new_tree = ast.parse(new_src)
    except SyntaxError:
        return "unparsable", ""
    pos = srcpos.Pos(src)
    host, region = _host_and_region(tree, pos, start, end)
    if host is not None and not region:
        # expression region: the smallest expression node that covers it
        best = None
        for node in ast.walk(host):
            if isinstance(node, ast.expr) and hasattr(node, "lineno"):
                s_, e_ = pos.span(node)
                if s_ <= start and end <= e_ and (best is None or (e_ - s_) <= (pos.span(best)[1] - pos.span(best)[0])):
                    best = node
        region = [best] if best is not None else []
    if host is None or not region:
        return "unexplained", "no-host"
    newdef = next((n for n in ast.walk(new_tree) if isinstance(n, FUNC) and n.name == new_name), None)
    if newdef is None:
        return "unexplained", "no-new-def"
    params = {a.arg for a in newdef.args.args + newdef.args.kwonlyargs + newdef.args.posonlyargs}
    returned = set()
    last = newdef.body[-1]
    if isinstance(last, ast.Return) and last.value is not None:
        for n in ast.walk(last.value):
            if isinstance(n, ast.Name):
                returned.add(n.id)
    written = [n for n, _ in _names(region, (ast.Store, ast.Del))]
    read = [n for n, _ in _names(region, (ast.Load,))]
    host_params = {a.arg for a in host.args.args + host.args.kwonlyargs + host.args.posonlyargs}
    if host.args.vararg:
        host_params.add(host.args.vararg.arg)
    if host.args.kwarg:
        host_params.add(host.args.kwarg.arg)
    r_start = pos.span(region[0])[0]
    r_end = pos.span(region[-1])[1]
    before_stores = {n for n, node in _names(host.body, (ast.Store,)) if pos.off(node.lineno, node.col_offset) < r_start}
    bound_before = host_params | before_stores
    # ---- loop that contains the region (loop-carried reads)
    loop = None
    for a in srcpos.ancestors(region[0]):
        if isinstance(a, (ast.For, ast.While)):
            loop = a
            break
        if isinstance(a, FUNC):
            break
    after_nodes = []
    for st in _stmts_after(host, region, pos, r_end):
        after_nodes.append(st)
    # ---- a closure of the host reads a variable the region writes
    closure_reads = set()
    for n in ast.walk(host):
        if n is not host and isinstance(n, FUNC + (ast.Lambda,)):
            for ch in ast.walk(n):
                if isinstance(ch, ast.Name) and isinstance(ch.ctx, ast.Load):
                    closure_reads.add(ch.id)
    for v in dict.fromkeys(written):
        if v not in returned and v in closure_reads:
            return "missing-return", "closure-reads"
    # ---- missing return
    for v in dict.fromkeys(written):
        if v in returned:
            continue
        first = _first_mention_after(v, after_nodes)
        same_block = _first_mention_after(v, _siblings_after(region))
        carried = False
        if first is None and loop is not None:
            carried = any(n == v for n, _ in _names([loop], (ast.Load,)))
        if first is None and not carried:
            continue
        wk = "definite" if any(_binds_directly(st, v) for st in region) else "conditional"
        if first:
            ak = first
        else:
            # where does the next iteration read the value: inside the region itself, or only elsewhere in the loop
            if v not in read:
                ak = "loop-carried-read-elsewhere-in-loop"
            else:
                mentions = sorted((node.lineno, node.col_offset, isinstance(node.ctx, ast.Load) or isinstance(getattr(node, "_aug", None), bool))
                                  for n_, node in _names(region, (ast.Load, ast.Store)) if n_ == v)
                # AugAssign targets are reads first although their ctx is Store
                aug = {(t.target.lineno, t.target.col_offset) for st in region for t in ast.walk(st)
                       if isinstance(t, ast.AugAssign) and isinstance(t.target, ast.Name) and t.target.id == v}
                first_is_read = bool(mentions) and (mentions[0][2] or (mentions[0][0], mentions[0][1]) in aug)
                # assignments evaluate their value before the target: a = a + 1 reads first
                for st in region:
                    for t in ast.walk(st):
                        if isinstance(t, ast.Assign) and mentions and any(
                                isinstance(x, ast.Name) and (x.lineno, x.col_offset) == (mentions[0][0], mentions[0][1]) for tg in t.targets for x in ast.walk(tg)):
                            if any(isinstance(x, ast.Name) and x.id == v for x in ast.walk(t.value)):
                                first_is_read = True
                region_ids = {id(x) for st in region for x in ast.walk(st)}
                read_elsewhere = any(n_ == v and id(node) not in region_ids for n_, node in _names([loop], (ast.Load,)))
                if first_is_read:
                    ak = "loop-carried-read-in-region-before-the-write"
                elif read_elsewhere:
                    # the reads in the region come after its own write; the value that is carried to the next
                    # iteration is the one read outside the region
                    ak = "loop-carried-read-elsewhere-in-loop"
                else:
                    ak = "loop-carried-read-in-region-after-the-write"
        if first and first.endswith("store-only"):
            continue
        comp = any(isinstance(n, ast.comprehension) and any(isinstance(t, ast.Name) and t.id == v for t in ast.walk(n.target))
                   for st in after_nodes for n in ast.walk(st))
        in_try = False
        for a in srcpos.ancestors(region[0]):
            if isinstance(a, FUNC):
                break
            if isinstance(a, ast.Try):
                alt = [st for h in a.handlers for st in h.body] + list(a.orelse) + list(a.finalbody)
                if any(nm == v for nm, _ in _names(alt, (ast.Store,))):
                    in_try = True
        if comp:
            ak = "comprehension-rebinds"
        elif in_try:
            ak = "try-handler-rebinds"
        elif ak in ("read", "aug"):
            ak = "direct" if same_block is not None else "direct-at-outer-level"
        elif ak.startswith("nested-"):
            ak = "nested-" + ak.split(":")[1]
        return "missing-return", f"w={wk},after={ak}"
    # ---- missing parameter
    for v in dict.fromkeys(read):
        if v in params or v not in bound_before:
            continue
        if v not in written:
            return "missing-parameter", "w=never-written"
        if _definitely_written_before_read(region, v):
            continue
        return "missing-parameter", "w=conditional-or-later"
    # ---- a comprehension's own variable passed in as if it were a free variable
    comp_targets = {t.id for st in region for n in ast.walk(st) if isinstance(n, ast.comprehension)
                    for t in ast.walk(n.target) if isinstance(t, ast.Name)}
    for v in params:
        if v in comp_targets:
            return "spurious-parameter", "comprehension-variable"
    # ---- returned although only conditionally written and not passed in
    for v in dict.fromkeys(written):
        if v in returned and v not in params and v in bound_before and not any(_binds_directly(st, v) for st in region):
            return "missing-parameter", "w=conditional,returned"
    return "unexplained", ""


def _stmts_after(host, region, pos, r_end):
    """Statements that can execute after the region: the following siblings of the region in its
    block, then the following siblings of each enclosing statement, outwards up to the host."""
    out = []
    node = region[-1]
    while node is not None and node is not host:
        parent = getattr(node, "_parent", None)
        if parent is None:
            break
        for _, body in srcpos.bodies(parent):
            if any(st is node for st in body):
                idx = [i for i, st in enumerate(body) if st is node][0]
                out += body[idx + 1:]
        if isinstance(parent, ast.ExceptHandler):
            parent = getattr(parent, "_parent", None)
        node = parent
        if isinstance(node, FUNC):
            break
    return out


def _siblings_after(region):
    node = region[-1]
    parent = getattr(node, "_parent", None)
    if parent is None:
        return []
    for _, body in srcpos.bodies(parent):
        if any(st is node for st in body):
            idx = [i for i, st in enumerate(body) if st is node][0]
            return body[idx + 1:]
    return []


def _first_mention_after(v, stmts):
    for st in stmts:
        loads = [n for n, _ in _names([st], (ast.Load,)) if n == v]
        stores = [n for n, _ in _names([st], (ast.Store, ast.Del)) if n == v]
        if not loads and not stores:
            continue
        compound = isinstance(st, (ast.If, ast.For, ast.While, ast.Try, ast.With, ast.Match))
        if not compound:
            if isinstance(st, ast.AugAssign) and isinstance(st.target, ast.Name) and st.target.id == v:
                return "aug"
            if loads:
                return "read"
            return "plain-store-only" if not loads else "read"
        order = sorted([(n.lineno, n.col_offset, "L") for nm, n in _names([st], (ast.Load,)) if nm == v] +
                       [(getattr(n, "lineno", 0), getattr(n, "col_offset", 0), "S")
                        for nm, n in _names([st], (ast.Store, ast.Del)) if nm == v])
        kind = type(st).__name__
        return f"nested-{kind}:" + ("load-first" if order[0][2] == "L" else "store-first")
    return None


def _binds_directly(st, v):
    if isinstance(st, ast.Assign):
        return any(isinstance(t, ast.Name) and t.id == v for t in st.targets) or \
            any(isinstance(t, ast.Tuple) and any(isinstance(e, ast.Name) and e.id == v for e in t.elts) for t in st.targets)
    if isinstance(st, (ast.AugAssign, ast.AnnAssign)):
        return isinstance(st.target, ast.Name) and st.target.id == v
    return False


def _definitely_written_before_read(region, v):
    for st in region:
        loads = [n for n, _ in _names([st], (ast.Load,)) if n == v]
        if isinstance(st, ast.Assign) and _binds_directly(st, v) and not loads:
            return True
        if loads or any(n == v for n, _ in _names([st], (ast.Store,))):
            return False
    return False
