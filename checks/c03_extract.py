"""C03 - extract method / variable preserves behaviour or is refused.

For generated, self-validated projects (profile flow): every contiguous statement run (length 1-3)
of every block and a sample of sub-expression nodes of every function, method and module body is
extracted through ExtractMethod / ExtractVariable with option sets (similar, global_, kind); the
result must compile and the entry points must print exactly what they printed before, or rope must
refuse with a RopeError and leave the tree untouched.  Deliberately bad regions (half statements,
middle of a word, spanning a block start) exercise refusal.
"""
import ast
import os
import sys

from vlib import behave, core, flowfam, flowref, srcpos

ID = "C03"
READY = True
LEVEL = "exploration"
RULE = ("projects from pygen profile 'flow' (self-validated by running them); regions = all contiguous statement "
        "runs of length 1-3 in every block + sampled expression nodes + bad regions, x {method, variable} x option "
        "sets; non-trivial = request that was not refused and changed the file; distinct = (kind, region class, "
        "scope kind, statement/expression classes of the region, options, outcome)")
ASSUMPTIONS = ["generated sub-expressions are pure and total, so evaluation order changes of pure code are invisible "
               "by construction", "programs are in fragment F of DESIGN.md 3.1"]
BUDGET = {"quick": (240, 300), "thorough": (850, 900)}
EXHAUSTIVE = {}
CASE_TIMEOUT = 600
REQUIRE = {"performed_and_run": 300, "refused": 50, "family_performed_and_run": 2000, "family_refused": 100}
TECHNIQUE = ("differential execution: the refactored program is run and its output compared with the original's; "
             "refusals are checked against rope's error hierarchy and a tree snapshot")
LEVEL_TEXT = ("Thousands of extraction requests over generated programs are performed by the real code and each "
              "resulting program is executed; any difference in output, exception or exit status, any non-compiling "
              "result and any internal exception is reported with a mechanism key.")
LEVEL_NOTE = ("sampled programs in fragment F and sampled regions; behaviour is observed through the argument "
              "vectors main.py uses; known rope defects are listed by mechanism in known_findings.json")
DESIGN_REF = "DESIGN.md section 5, C03"

REGIONS_PER_FILE = {"quick": 14, "thorough": 40}


FAMILY_BATCH = 20
FAMILY_QUICK_BATCHES = 120


def cases(tier, seed):
    """pygen hosts interleaved with batches of the enumerated data-flow family (vlib/flowfam.py): the quick
    tier samples FAMILY_QUICK_BATCHES batches, the thorough tier walks the whole family once."""
    import random
    total = flowfam.total()
    if tier == "quick":
        r = random.Random(f"{seed}/C03/family")
        fam = [sorted(r.sample(range(total), FAMILY_BATCH)) for _ in range(FAMILY_QUICK_BATCHES)]
    else:
        fam = [list(range(k, min(k + FAMILY_BATCH, total))) for k in range(0, total, FAMILY_BATCH)]
    i = 0
    while True:
        if i < len(fam):
            yield {"seed": f"{seed}/C03/family/{i}", "family": fam[i]}
        yield {"seed": f"{seed}/C03/{i}", "pseed": seed * 1000003 + i}
        i += 1


# ------------------------------------------------------------------ region features
def _scope_kind(node):
    for a in srcpos.ancestors(node):
        if isinstance(a, ast.Lambda):
            return "lambda"
        if isinstance(a, (ast.ListComp, ast.SetComp, ast.DictComp, ast.GeneratorExp)):
            return "comprehension"
        if isinstance(a, (ast.FunctionDef, ast.AsyncFunctionDef)):
            for b in srcpos.ancestors(a):
                if isinstance(b, (ast.FunctionDef, ast.AsyncFunctionDef)):
                    return "nested-function"
                if isinstance(b, ast.ClassDef):
                    decs = [d.id for d in a.decorator_list if isinstance(d, ast.Name)]
                    return "method" if not decs else decs[0]
            return "function"
        if isinstance(a, ast.ClassDef):
            return "class-body"
    return "module"


def _expr_context(node):
    """Where the expression sits (finite alphabet)."""
    out = []
    child = node
    for a in srcpos.ancestors(node):
        if isinstance(a, ast.ExceptHandler) and a.type is child:
            out.append("ExceptHandler.type")
        if isinstance(a, ast.stmt):
            for fld in ("test", "iter", "value", "target", "targets", "items", "exc", "args", "decorator_list", "bases",
                        "annotation", "msg"):
                v = getattr(a, fld, None)
                if v is child or (isinstance(v, list) and child in v):
                    out.append(f"{type(a).__name__}.{fld}")
                    break
            else:
                out.append(type(a).__name__)
            break
        if isinstance(a, ast.arguments):
            out.append("default-arg")
        elif isinstance(a, ast.Lambda):
            out.append("in-lambda")
        elif isinstance(a, (ast.ListComp, ast.SetComp, ast.DictComp, ast.GeneratorExp)):
            out.append("in-comprehension")
        elif isinstance(a, ast.JoinedStr):
            out.append("in-fstring")
        elif isinstance(a, ast.IfExp):
            out.append("in-ifexp")
        elif isinstance(a, ast.BoolOp):
            out.append("in-boolop")
        elif isinstance(a, ast.keyword):
            out.append("kwarg-value")
        elif isinstance(a, ast.NamedExpr):
            out.append("in-walrus")
        child = a
    return "/".join(sorted(set(out)))


def _stmt_features(stmts):
    inner = set()
    for s in stmts:
        for n in ast.walk(s):
            t = type(n).__name__
            if t in ("Return", "Break", "Continue", "Yield", "YieldFrom", "Global", "Nonlocal", "FunctionDef", "ClassDef",
                     "Raise", "Try", "For", "While", "If", "AugAssign", "With", "NamedExpr", "Lambda", "ListComp",
                     "GeneratorExp", "AnnAssign", "Import", "ImportFrom", "Delete", "Assert"):
                inner.add(t)
    # a simple statement, or the header of a compound one, written on several physical lines
    for s in stmts:
        for n in ast.walk(s):
            if isinstance(n, ast.stmt):
                last = n.end_lineno if not hasattr(n, "body") else (n.body[0].lineno - 1 if n.body else n.lineno)
                if last > n.lineno:
                    inner.add("MULTILINE")
    return "+".join(sorted(inner)) or "simple"


def _in_elif_test(node, src, pos):
    child = node
    for a in srcpos.ancestors(node):
        if isinstance(a, ast.If) and a.test is child or (isinstance(a, ast.If) and any(child is n for n in ast.walk(a.test))):
            return src[pos.off(a.lineno, a.col_offset):].startswith("elif")
        if isinstance(a, ast.stmt):
            return False
    return False


def _in_loop(node):
    for a in srcpos.ancestors(node):
        if isinstance(a, (ast.For, ast.While)):
            return True
        if isinstance(a, (ast.FunctionDef, ast.Lambda, ast.ClassDef)):
            return False
    return False


_HOST_CACHE = {}


def host_info(src, reg):
    """Syntactic facts about the function (or module) that hosts the region."""
    key = (hash(src), reg["start"], reg["end"])
    tree = _HOST_CACHE.get(hash(src))
    if tree is None:
        _HOST_CACHE.clear()
        tree = _HOST_CACHE[hash(src)] = (srcpos.set_parents(ast.parse(src)), srcpos.Pos(src))
    tree, pos = tree
    host = tree
    for node in ast.walk(tree):
        if isinstance(node, (ast.FunctionDef, ast.AsyncFunctionDef)):
            s, e = pos.span(node)
            if s <= reg["start"] and reg["end"] <= e:
                hs, he = pos.span(host) if host is not tree else (0, len(src))
                if host is tree or (s >= hs and e <= he):
                    host = node
    # outermost function containing the region decides what rope searches / rewrites
    outer = host
    for a in srcpos.ancestors(host) if host is not tree else []:
        if isinstance(a, (ast.FunctionDef, ast.AsyncFunctionDef)):
            outer = a
    scope_nodes = list(ast.walk(outer))
    unannotated = False
    for n in ast.walk(tree):
        if isinstance(n, ast.JoinedStr) or (isinstance(n, ast.arguments) and (n.kwonlyargs or n.posonlyargs)):
            unannotated = True
            break
    region_text = src[reg["start"]:reg["end"]]
    # a comprehension in the region whose first iterable reads a name that the comprehension also binds
    comp_self = False
    for n in scope_nodes:
        if isinstance(n, (ast.ListComp, ast.SetComp, ast.DictComp, ast.GeneratorExp)):
            ns, ne = pos.span(n)
            if ne <= reg["start"] or ns >= reg["end"]:
                continue
            bound = {t.id for g in n.generators for t in ast.walk(g.target) if isinstance(t, ast.Name)}
            if bound & {t.id for t in ast.walk(n.generators[0].iter) if isinstance(t, ast.Name)}:
                comp_self = True
    # does the region read a variable that an enclosing lambda / comprehension binds?
    reads_inner = False
    target = None
    for n in scope_nodes:
        if isinstance(n, ast.expr) and hasattr(n, "lineno") and pos.span(n) == (reg["start"], reg["end"]):
            target = n
            break
    if target is not None:
        loaded = {t.id for t in ast.walk(target) if isinstance(t, ast.Name) and isinstance(t.ctx, ast.Load)}
        for a in srcpos.ancestors(target):
            if isinstance(a, ast.Lambda):
                ar = a.args
                if loaded & {x.arg for x in ar.posonlyargs + ar.args + ar.kwonlyargs + [y for y in (ar.vararg, ar.kwarg) if y]}:
                    reads_inner = True
            elif isinstance(a, (ast.ListComp, ast.SetComp, ast.DictComp, ast.GeneratorExp)):
                if loaded & {t.id for g in a.generators for t in ast.walk(g.target) if isinstance(t, ast.Name)}:
                    reads_inner = True
            elif isinstance(a, (ast.FunctionDef, ast.AsyncFunctionDef)):
                break
    # scope that encloses the outermost lambda / comprehension around the region
    inner_in = None
    inner_decorated = False
    if target is not None:
        for a in srcpos.ancestors(target):
            if isinstance(a, (ast.FunctionDef, ast.AsyncFunctionDef)):
                inner_in = "function"
                inner_decorated = bool(a.decorator_list)
                break
            if isinstance(a, ast.ClassDef):
                inner_in = "class"
                break
        else:
            inner_in = "module"
    return {"comp_self": comp_self, "reads_inner": reads_inner, "exact_expr": target is not None, "inner_in": inner_in,
            "inner_decorated": inner_decorated,
            "walrus": any(isinstance(n, ast.NamedExpr) for n in scope_nodes),
            "annassign": any(isinstance(n, ast.AnnAssign) for n in scope_nodes),
            "unannotated": unannotated, "super_in_region": "super" in region_text,
            "host_decl": any(isinstance(n, (ast.Global, ast.Nonlocal)) for n in scope_nodes)}


def hostile_labels(reg, kind, host, opts):
    """Labelled request classes outside the core fragment (DESIGN.md C03), in priority order.  Requests in
    these classes are still judged, but share one coarse key per (first label, failure class): rope's
    extract is known to be unreliable there and the causes are listed once in known_findings.json."""
    labels = []
    ctx = reg.get("ctx", "")
    feat = set((reg.get("feat") or "").split("+"))
    if reg["cls"] == "bad":
        labels.append("bad-region")
    if reg["cls"] == "stmts" and kind == "variable":
        labels.append("variable-of-statements")
    if host.get("unannotated"):
        labels.append("module-has-fstring-or-kwonly")      # C08 defect: nodes without region
    if reg["scope"] == "module":
        labels.append("module-scope")
    if reg["scope"] == "class-body":
        labels.append("class-body")
    if reg["scope"] in ("lambda", "comprehension") and host.get("inner_in") == "class":
        labels.append("class-body")
    if reg["scope"] in ("lambda", "comprehension") and host.get("inner_in") == "module":
        labels.append("module-scope")
    if reg["scope"] in ("lambda", "comprehension") and (host.get("reads_inner") or not host.get("exact_expr")):
        # a region that reads the lambda's parameter / the comprehension's variable; a sub-expression that does
        # not is ordinary code of the enclosing function and stays in the core
        labels.append("inside-lambda-or-comprehension")
    if opts["similar"]:
        labels.append("similar-option")
    if opts["global_"]:
        labels.append("global-option")
    if opts["ekind"]:
        labels.append("kind-option")
    if reg["scope"] in ("classmethod", "staticmethod", "property") or (
            reg["scope"] in ("lambda", "comprehension") and host.get("inner_decorated")):
        labels.append("decorated-host")
    if "While.test" in ctx:
        labels.append("loop-test")
    if reg.get("elif"):
        labels.append("elif-test")
    if "ExceptHandler.type" in ctx:
        labels.append("except-type")
    if host.get("walrus"):
        labels.append("walrus-in-host")
    if host.get("annassign"):
        labels.append("annassign-in-host")
    if "default-arg" in ctx or ".decorator_list" in ctx or ".bases" in ctx or ".annotation" in ctx:
        labels.append("definition-header")
    if ".targets" in ctx or ".target" in ctx:
        labels.append("assignment-target")
    if "MULTILINE" in feat and reg["cls"] == "stmts":
        labels.append("statement-region-with-a-statement-on-several-lines")
    if reg["cls"] == "expr" and reg.get("multiline"):
        labels.append("expression-region-on-several-lines")
    if feat & {"Global", "Nonlocal"}:
        labels.append("region-has-scope-declaration")
    if host.get("host_decl"):
        labels.append("host-has-scope-declaration")
    if feat & {"FunctionDef", "ClassDef", "Lambda"}:
        labels.append("region-defines-function")
    if host.get("super_in_region"):
        labels.append("region-calls-super")
    if host.get("comp_self"):
        labels.append("comprehension-iterates-over-a-name-it-also-binds")
    return labels[:1]


def enumerate_regions(src, rnd, limit):
    tree = srcpos.set_parents(ast.parse(src))
    pos = srcpos.Pos(src)
    regions = []
    for node in ast.walk(tree):
        for bname, body in srcpos.bodies(node):
            for i in range(len(body)):
                for j in range(i, min(i + 3, len(body))):
                    run = body[i:j + 1]
                    s, _ = pos.span(run[0])
                    _, e = pos.span(run[-1])
                    regions.append({"cls": "stmts", "start": s, "end": e, "scope": _scope_kind(run[0]),
                                    "feat": _stmt_features(run), "first": type(run[0]).__name__,
                                    "loop": _in_loop(run[0]), "n": len(run)})
    exprs = []
    for node in ast.walk(tree):
        if isinstance(node, ast.expr) and hasattr(node, "lineno") and not isinstance(getattr(node, "ctx", None), (ast.Store, ast.Del)):
            if isinstance(node, (ast.Constant,)) and rnd.random() < 0.7:
                continue
            s, e = pos.span(node)
            exprs.append({"cls": "expr", "start": s, "end": e, "scope": _scope_kind(node), "feat": type(node).__name__,
                          "ctx": _expr_context(node), "loop": _in_loop(node), "elif": _in_elif_test(node, src, pos),
                          "multiline": "\n" in src[s:e],
                          "cont": any(isinstance(a, ast.stmt) and a.lineno < node.lineno for a in list(srcpos.ancestors(node))[:40]
                                      if isinstance(a, ast.stmt))})
    rnd.shuffle(regions)
    rnd.shuffle(exprs)
    # expressions that start on a continuation line of their statement first (only re-laid-out modules have any)
    exprs.sort(key=lambda r: not (r["cont"] and not r["multiline"]))
    picked = regions[: limit // 2] + exprs[: limit - limit // 2]
    # bad regions
    for _ in range(2):
        a, b = sorted(rnd.sample(range(len(src) + 1), 2))
        picked.append({"cls": "bad", "start": a, "end": b, "scope": "?", "feat": "random-offsets"})
    return picked


def run_family(spec):
    """One batch of family programs: every contiguous run of loop-body statements is extracted."""
    from rope.base import exceptions
    from rope.base.project import Project
    from rope.refactor.extract import ExtractMethod
    res = core.Result()
    with core.Scratch() as tmp:
        os.makedirs(tmp + "/p")
        project = Project(tmp + "/p", ropefolder=None, automatic_soa=False, save_history=False, save_objectdb=False)
        mod = project.root.create_file("m.py")
        for k in spec["family"]:
            body, loop, after = flowfam.nth(k)
            src, regions = flowfam.build(body, loop, after)
            before = flowfam.run(src)
            if before[0] != "ok":
                res.ev("family_programs_skipped:" + before[0])
                continue
            res.ev("family_programs")
            mod.write(src)
            for start, end, (i, j) in regions:
                kinds = "+".join(flowfam.VOCAB[x][0] for x in body[i:j + 1])
                res.evals()
                detail = {"program": k, "source": src, "region_text": src[start:end], "loop": loop, "after": after}
                try:
                    changes = ExtractMethod(project, mod, start, end).get_changes("extracted_q")
                except exceptions.RopeError:
                    res.ev("family_refused")
                    res.outcome("refused")
                    continue
                except Exception as e:
                    res.violation(f"extract-family|internal:{core.exc_sig(e)}", f"internal exception: {e!r}"[:300], **detail)
                    continue
                new_src = changes.changes[0].new_contents
                after_run = flowfam.run(new_src)
                res.ev("family_performed_and_run")
                res.shape(["family", loop, after, kinds, after_run[0]])
                if after_run == before:
                    res.outcome("preserved")
                    continue
                detail["new_source"] = new_src
                detail["before"], detail["after_run"] = before, after_run
                if after_run[0] == "syntax":
                    res.violation(f"extract-family|syntax-error|loop={loop}|region={kinds}", "result does not compile: " + after_run[1], **detail)
                    continue
                cause, feat = flowref.classify_method_extraction(src, start, end, new_src)
                tail = f"cause={cause}" + (f"({feat})" if feat else "")
                if "unexplained" in cause:
                    tail += f"|loop={loop}|region={kinds}"
                res.violation(f"extract-family|behaviour|{tail}", f"behaviour changed ({after_run[0]})", **detail)
        project.close()
    return res


def run_case(spec):
    import os
    if "family" in spec:
        return run_family(spec)
    from rope.refactor.extract import ExtractMethod, ExtractVariable
    res = core.Result()
    rnd = core.rng(spec)
    tier = os.environ.get("VERIF_TIER", "quick")
    with core.Scratch() as tmp:
        case = behave.Case(spec["pseed"], "flow", tmp + "/p", p_fstring=0.0, p_kwonly=0.0)
        if not case.valid:
            res.ev("discarded_invalid_projects")
            res.outcome("discarded")
            return res
        res.ev("projects")
        paths = [p for p in case.files if p.endswith(".py") and p != "import_all.py" and case.files[p].strip()]
        rnd.shuffle(paths)
        if spec["pseed"] % 2:
            # every second project: line breaks (with arbitrary indentation) inside brackets, so that regions
            # start on continuation lines of comprehensions, calls and conditions
            from vlib import layoutfuzz, pyrun
            for p_ in paths[:3]:
                m = layoutfuzz.break_in_brackets(case.files[p_], rnd, 6, indents=(" " * 16, " " * 20, " " * 24))
                if m:
                    case.files[p_] = m.replace("\t", "    ")
                    res.ev("modules_relaid_out")
            case.restore()
        for path in paths[:3]:
            src = case.files[path]
            try:
                regions = enumerate_regions(src, rnd, REGIONS_PER_FILE[tier])
            except SyntaxError:
                continue
            for reg in regions:
                kinds = ["method", "variable"] if reg["cls"] != "stmts" else ["method"]
                if reg["cls"] == "stmts" and rnd.random() < 0.1:
                    kinds.append("variable")  # must be refused
                for kind in kinds:
                    similar = rnd.random() < 0.3
                    global_ = rnd.random() < 0.2
                    ekind = None
                    if kind == "method" and reg["scope"] in ("method", "classmethod", "staticmethod") and rnd.random() < 0.3:
                        ekind = rnd.choice(["staticmethod", "classmethod", "function"])
                    opts = f"similar={int(similar)},global={int(global_)},kind={ekind}"

                    def request(project, path=path, reg=reg, kind=kind, similar=similar, global_=global_, ekind=ekind):
                        resource = project.get_file(path)
                        cls = ExtractMethod if kind == "method" else ExtractVariable
                        return cls(project, resource, reg["start"], reg["end"]).get_changes(
                            "extracted_q", similar=similar, global_=global_, kind=ekind)

                    labels = hostile_labels(reg, kind, host_info(src, reg),
                                            {"similar": similar, "global_": global_, "ekind": ekind})
                    if labels:
                        feats = "hostile:" + "+".join(labels)
                    else:
                        feats = f"core|{reg['cls']}|host={reg['scope']}" + (
                            f"|ctx={reg.get('ctx', '')}" if reg["cls"] == "expr" else "")

                    def classify(new_files, fm, path=path, reg=reg, src=src, kind=kind):
                        if kind != "method":
                            return "cause=n/a"
                        cause, feat = flowref.classify_method_extraction(src, reg["start"], reg["end"],
                                                                          new_files.get(path, ""))
                        return f"cause={cause}" + (f"({feat})" if feat else "")

                    if not labels and kind == "method":
                        feats = f"core|{reg['cls']}"   # host / ctx are secondary once the cause is named
                    out = behave.judge(case, request, res, f"extract-{kind}", feats, coarse=bool(labels), classify=classify,
                                       detail={"file": path, "region": [reg["start"], reg["end"]],
                                               "region_text": src[reg["start"]:reg["end"]][:400],
                                               "source": src[:4000], "pseed": spec["pseed"]})
                    if out in ("preserved", "violation"):
                        res.ev("performed_and_run")
                        res.shape([kind, reg["cls"], reg["scope"], reg.get("feat"), opts, out])
                    elif out == "refused":
                        res.ev("refused")
                        if reg["cls"] == "bad":
                            res.ev("bad_regions_refused")
        res.sample({"pseed": spec["pseed"], "files": sorted(case.files), "example_region": regions[0] if paths else None})
    return res


if __name__ == "__main__":
    core.main(sys.modules[__name__])
