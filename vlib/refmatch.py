"""Reference matcher / rewriter for rope's similar-code patterns, written over Python's own `ast`.

Independent of rope (no rope import).  The documented semantics encoded here:

* a pattern is Python code in which ``${name}`` / ``${?name}`` stand for "every expression at that
  point" (docs/overview.rst "Restructurings": ``${name}``, by default, matches every expression at
  that point) - a wildcard binds exactly one `ast.expr` node;
* the same wildcard used twice must be bound to equal code (equality of syntax trees, the
  load/store context of a name is not part of the code);
* a pattern consisting of one expression is looked for at every node of the module; any other
  pattern is a sequence of statements and is looked for as a contiguous window of every statement
  list;
* two pieces of code are the same iff their syntax trees are (class, fields, constants with their
  type; not the expression context, not positions).

Regions are character offsets [start, end) computed from lineno/col_offset/end_lineno/end_col_offset.
"""
from __future__ import annotations

import ast
import copy
import re

WILD_RE = re.compile(r"\$\{(\??[A-Za-z_][A-Za-z_0-9]*)\}")
_PLACE = "RefWild%dZq"


class PatternError(Exception):
    pass


# --------------------------------------------------------------------------- offsets
class Offsets:
    """(lineno, utf8 column) -> character offset in `source`."""

    def __init__(self, source, tree=None):
        self.source = source
        self.override = {}
        self.lines = source.split("\n")
        self.starts = []
        off = 0
        for ln in self.lines:
            self.starts.append(off)
            off += len(ln) + 1
        self.ascii = source.isascii()
        if tree is not None:
            # CPython reports a generator expression that is the only argument of a call with the
            # call's parentheses included; its code is what lies between them.
            for c in ast.walk(tree):
                if isinstance(c, ast.Call) and len(c.args) == 1 and not c.keywords and \
                        isinstance(c.args[0], ast.GeneratorExp):
                    g = c.args[0]
                    s, e = self.region(g)
                    if (g.end_lineno, g.end_col_offset) == (c.end_lineno, c.end_col_offset) and \
                            source[s] == "(" and source[e - 1] == ")":
                        inner = source[s + 1:e - 1]
                        lead = len(inner) - len(inner.lstrip())
                        self.override[id(g)] = (s + 1 + lead, s + 1 + len(inner.rstrip()))

    def at(self, lineno, col):
        line = self.lines[lineno - 1]
        if not self.ascii and not line.isascii():
            col = len(line.encode("utf-8")[:col].decode("utf-8", "replace"))
        return self.starts[lineno - 1] + col

    def region(self, node):
        if id(node) in self.override:
            return self.override[id(node)]
        return (self.at(node.lineno, node.col_offset), self.at(node.end_lineno, node.end_col_offset))

    def text(self, node):
        s, e = self.region(node)
        return self.source[s:e]


# --------------------------------------------------------------------------- normal-form dump
def ndump(node, flatten_boolop=True):
    """Canonical text of a syntax tree: classes, fields, typed constants; no ctx, no positions.

    `flatten_boolop`: ``(a and b) and c`` == ``a and b and c`` (same evaluation in Python), so nested
    BoolOps with the same operator are flattened before comparing meanings."""
    out = []
    _nd(node, out, flatten_boolop)
    return "".join(out)


def _nd(x, out, fl):
    if isinstance(x, ast.AST):
        if isinstance(x, ast.expr_context):
            return
        if fl and isinstance(x, ast.BoolOp):
            vals = []
            _flat(x, type(x.op), vals)
            out.append("BoolOp(" + type(x.op).__name__ + ",[")
            for v in vals:
                _nd(v, out, fl)
                out.append(",")
            out.append("])")
            return
        out.append(type(x).__name__ + "(")
        for f in x._fields:
            v = getattr(x, f, None)
            if isinstance(v, ast.expr_context):
                continue
            out.append(f + "=")
            _nd(v, out, fl)
            out.append(",")
        out.append(")")
    elif isinstance(x, (list, tuple)):
        out.append("[")
        for v in x:
            _nd(v, out, fl)
            out.append(",")
        out.append("]")
    else:
        out.append(type(x).__name__ + ":" + repr(x))


def _flat(b, op, vals):
    for v in b.values:
        if isinstance(v, ast.BoolOp) and type(v.op) is op:
            _flat(v, op, vals)
        else:
            vals.append(v)


# --------------------------------------------------------------------------- patterns
class Pattern:
    """kind 'expr' (self.nodes = [expr node]) or 'stmts' (self.nodes = list of statements)."""

    def __init__(self, text, avoid=""):
        self.text = text
        self.names = []  # wildcard names in order of first appearance, '?' prefix kept
        self.place = {}  # placeholder identifier -> wildcard name
        k = 0
        while any((_PLACE % (k + i)) in avoid or (_PLACE % (k + i)) in text for i in range(12)):
            k += 100

        def sub(m):
            name = m.group(1)
            if name not in self.names:
                self.names.append(name)
            ident = _PLACE % (k + self.names.index(name))
            self.place[ident] = name
            return ident

        self.code = WILD_RE.sub(sub, text)
        try:
            mod = ast.parse(self.code)
        except (SyntaxError, ValueError) as e:
            raise PatternError(str(e))
        body = mod.body
        if len(body) == 1 and isinstance(body[0], ast.Expr):
            self.kind, self.nodes = "expr", [body[0].value]
        else:
            self.kind, self.nodes = "stmts", body

    def wild(self, node):
        if isinstance(node, ast.Name):
            return self.place.get(node.id)
        return None


class RefMatch:
    def __init__(self, kind, nodes, region, bindings):
        self.kind = kind          # 'expr' | 'stmts'
        self.nodes = nodes        # matched node(s) of the module tree
        self.region = region      # (start, end) character offsets
        self.bindings = bindings  # wildcard name -> list of bound nodes (every occurrence, in order)

    def first(self, name):
        return self.bindings[name][0]


class _No(Exception):
    def __init__(self, reason):
        self.reason = reason


def _match(pat, p, n, binds):
    """Raises _No(reason) on mismatch.  reason is from a small alphabet."""
    name = pat.wild(p) if isinstance(p, ast.AST) else None
    if name is not None:
        if not isinstance(n, ast.expr):
            raise _No("wildcard-nonexpr")
        if name in binds:
            if ndump(binds[name][0], False) != ndump(n, False):
                raise _No("wildcard-rebind-unequal")
            binds[name].append(n)
        else:
            binds[name] = [n]
        return
    if isinstance(p, ast.AST):
        if type(p) is not type(n):
            raise _No("class")
        for f in p._fields:
            a, b = getattr(p, f, None), getattr(n, f, None)
            if isinstance(a, ast.expr_context) or isinstance(b, ast.expr_context):
                continue
            _match(pat, a, b, binds)
        return
    if isinstance(p, (list, tuple)):
        if not isinstance(n, (list, tuple)) or len(p) != len(n):
            raise _No("list-length")
        for a, b in zip(p, n):
            _match(pat, a, b, binds)
        return
    if isinstance(n, ast.AST):
        raise _No("class")
    if type(p) is not type(n):
        raise _No("const-type")
    if p != n:
        raise _No("const-value")


def why_not(pat, nodes):
    """None if `nodes` (one expr node or a list of statements) is an instance, else the reason."""
    try:
        _match(pat, pat.nodes if pat.kind == "stmts" else pat.nodes[0],
               nodes if pat.kind == "stmts" else nodes, {})
    except _No as e:
        return e.reason
    return None


def find_matches(tree, pat, offs):
    """All instances of `pat` in `tree`, in document order of their start (outer before inner)."""
    res = []
    if pat.kind == "expr":
        p = pat.nodes[0]
        for n in ast.walk(tree):
            if not isinstance(n, ast.expr):
                continue
            binds = {}
            try:
                _match(pat, p, n, binds)
            except _No:
                continue
            res.append(RefMatch("expr", [n], offs.region(n), binds))
    else:
        k = len(pat.nodes)
        for n in ast.walk(tree):
            for f in n._fields:
                lst = getattr(n, f, None)
                if not isinstance(lst, list) or len(lst) < k or not lst or not isinstance(lst[0], ast.stmt):
                    continue
                for i in range(len(lst) - k + 1):
                    win = lst[i:i + k]
                    binds = {}
                    try:
                        _match(pat, pat.nodes, win, binds)
                    except _No:
                        continue
                    reg = (offs.region(win[0])[0], offs.region(win[-1])[1])
                    m = RefMatch("stmts", win, reg, binds)
                    m.parent, m.field, m.index = n, f, i
                    res.append(m)
    res.sort(key=lambda m: (m.region[0], -m.region[1]))
    return res


# --------------------------------------------------------------------------- rewriting at tree level
def _instantiate(pat_goal, binds):
    """Copy of the goal's nodes with every wildcard replaced by (a copy of) its bound tree."""

    class Sub(ast.NodeTransformer):
        def visit_Name(self, node):
            name = pat_goal.wild(node)
            if name is not None:
                return copy.deepcopy(binds[name])
            return node

    nodes = [Sub().visit(copy.deepcopy(n)) for n in pat_goal.nodes]
    return nodes


class Rewriter:
    """Expected result of a restructuring, computed on the tree: every instance is replaced by the
    goal in which each wildcard stands for the (recursively rewritten) tree bound to it."""

    def __init__(self, matches, goal):
        self.goal = goal
        self.kind = matches[0].kind if matches else None
        self.by_node = {}
        self.by_slot = {}
        for m in matches:
            if m.kind == "expr":
                self.by_node[id(m.nodes[0])] = m
            else:
                self.by_slot[(id(m.parent), m.field, m.index)] = m

    def rewrite(self, node, force=False):
        if isinstance(node, ast.AST):
            m = self.by_node.get(id(node))
            if m is not None and not force:
                binds = {w: self.rewrite(m.first(w), force=m.first(w) is node) for w in self.goal.names}
                out = _instantiate(self.goal, binds)
                assert len(out) == 1
                return out[0]
            new = type(node)()
            for f in node._fields:
                v = getattr(node, f, None)
                if isinstance(v, list):
                    setattr(new, f, self._list(node, f, v))
                else:
                    setattr(new, f, self.rewrite(v))
            return new
        return node

    def _list(self, parent, f, lst):
        out, i = [], 0
        while i < len(lst):
            m = self.by_slot.get((id(parent), f, i))
            if m is not None:
                binds = {w: self.rewrite(m.first(w)) for w in self.goal.names}
                new = _instantiate(self.goal, binds)
                if self.goal.kind == "expr":
                    new = [ast.Expr(value=new[0])]
                out.extend(new)
                i += len(m.nodes)
            else:
                out.append(self.rewrite(lst[i]))
                i += 1
        return out


def instantiate_one(goal, match):
    """The goal with the ORIGINAL (not rewritten) bound trees inserted: list of nodes."""
    return _instantiate(goal, {w: match.first(w) for w in goal.names})


def replace_node(tree, target, new_nodes):
    """Copy of `tree` in which node `target` (by identity) is replaced by new_nodes[0]."""

    def rec(x):
        if x is target:
            return new_nodes[0]
        if isinstance(x, ast.AST):
            n = type(x)()
            for f in x._fields:
                setattr(n, f, rec(getattr(x, f, None)))
            return n
        if isinstance(x, list):
            return [rec(v) for v in x]
        return x

    return rec(tree)


def overlapping(matches):
    ms = sorted(matches, key=lambda m: m.region)
    return any(a.region[1] > b.region[0] for a, b in zip(ms, ms[1:]))


# --------------------------------------------------------------------------- "everything else untouched"
def outside_segments(source, regions):
    """Text segments of `source` outside the union of `regions` (prefix, gaps..., suffix)."""
    segs, pos = [], 0
    for s, e in sorted(regions):
        if s >= pos:
            segs.append(source[pos:s])
            pos = e
        elif e > pos:
            pos = e
    segs.append(source[pos:])
    return segs


def decomposes(new, segs):
    """Is new == segs[0] + X1 + segs[1] + ... + Xk + segs[k] for some strings Xi?  (leftmost search
    is complete for this question.)"""
    if len(segs) == 1:
        return new == segs[0]
    if not new.startswith(segs[0]):
        return False
    pos = len(segs[0])
    for seg in segs[1:-1]:
        j = new.find(seg, pos)
        if j < 0:
            return False
        pos = j + len(seg)
    last = segs[-1]
    return len(new) - len(last) >= pos and new.endswith(last)
