"""Shared runner: tiers, seeds, sharded long-lived workers, verdicts, evidence, replay.

A check module defines

    ID, LEVEL, RULE, ASSUMPTIONS            constants
    BUDGET = {"quick": (max_cases, seconds), "thorough": (max_cases, seconds)}
    cases(tier, seed) -> iterator of JSON-able spec dicts (cheap, main process)
    run_case(spec) -> result dict (worker process), see `Result`
    REQUIRE = {"event name": minimum}       optional: reach below minimum => inconclusive
    finalize(agg) -> dict | None            optional: extra coverage keys

and ends with ``if __name__ == "__main__": core.main(sys.modules[__name__])``.

Verdicts are three-valued: exit 0 held on what was observed, exit 1 violation
(`VIOLATION property=<id> replay=<path>`), exit 2 inconclusive.
"""
from __future__ import annotations

import hashlib
import json
import os
import random
import select
import shutil
import subprocess
import sys
import tempfile
import threading
import time
import traceback
from pathlib import Path

ROOT = Path(__file__).resolve().parents[1]
ROPE_ROOT = os.environ.get("ROPE_ROOT", "/repo")
NSHARDS = 16


# --------------------------------------------------------------------------- result helper
class Result:
    """Accumulates what one case observed.  `.d` is what travels to the parent."""

    def __init__(self):
        self.d = {"evals": 0, "shapes": [], "events": {}, "outcomes": {},
                  "violations": [], "sample": None, "inconclusive": None}

    def ev(self, name, n=1):
        self.d["events"][name] = self.d["events"].get(name, 0) + n

    def outcome(self, name, n=1):
        self.d["outcomes"][name] = self.d["outcomes"].get(name, 0) + n

    def evals(self, n=1):
        self.d["evals"] += n

    def shape(self, key):
        """Record a distinct non-trivial case shape (counted with a set in the parent)."""
        key = key if isinstance(key, str) else json.dumps(key, sort_keys=True, default=str)
        if key not in self.d["shapes"]:
            self.d["shapes"].append(key)

    def violation(self, key, what, **detail):
        """key = mechanism signature (finite alphabet), what = one-line description."""
        key = key if isinstance(key, str) else "|".join(str(k) for k in key)
        self.d["violations"].append({"key": key, "what": what, "detail": detail})
        self.outcome("violation")

    def sample(self, obj):
        if self.d["sample"] is None:
            self.d["sample"] = obj

    def inconclusive(self, why):
        self.d["inconclusive"] = why


# --------------------------------------------------------------------------- misc helpers
def rng(spec_or_str):
    s = spec_or_str["seed"] if isinstance(spec_or_str, dict) else spec_or_str
    return random.Random(s)


def scratch_base():
    base = os.environ.get("VERIF_SCRATCH")
    if base and os.path.isdir(base):
        return base
    for cand in ("/dev/shm", os.environ.get("TMPDIR") or tempfile.gettempdir()):
        if os.path.isdir(cand) and os.access(cand, os.W_OK):
            d = tempfile.mkdtemp(prefix="verif-", dir=cand)
            os.environ["VERIF_SCRATCH"] = d
            return d
    raise RuntimeError("no scratch directory")


def mkscratch(prefix="case-"):
    return tempfile.mkdtemp(prefix=prefix, dir=scratch_base())


class Scratch:
    """with Scratch() as path: fresh directory, removed afterwards."""

    def __init__(self, prefix="case-"):
        self.prefix = prefix

    def __enter__(self):
        self.path = os.path.realpath(mkscratch(self.prefix))
        return self.path

    def __exit__(self, *a):
        shutil.rmtree(self.path, ignore_errors=True)


def rope_tree_hash():
    h = hashlib.sha256()
    base = Path(ROPE_ROOT) / "rope"
    for p in sorted(base.rglob("*.py")):
        h.update(str(p.relative_to(base)).encode())
        h.update(p.read_bytes())
    return h.hexdigest()[:16]


def assert_rope_under_test():
    import rope
    f = os.path.realpath(rope.__file__)
    if not f.startswith(os.path.realpath(ROPE_ROOT) + os.sep):
        raise SystemExit(f"rope imported from {f}, not from ROPE_ROOT={ROPE_ROOT}")


def is_rope_error(exc):
    from rope.base import exceptions
    return isinstance(exc, exceptions.RopeError)


def exc_sig(exc):
    """Mechanism-level signature of an internal exception: type + innermost rope frame."""
    tb = traceback.extract_tb(exc.__traceback__)
    where = "?"
    for fr in reversed(tb):
        fn = fr.filename.replace("\\", "/")
        if "/rope/" in fn and "/verif/" not in fn:
            where = fn.split("/rope/", 1)[1] + ":" + fr.name
            break
    return f"{type(exc).__name__}@{where}"


# --------------------------------------------------------------------------- worker side
def _worker_loop(mod):
    assert_rope_under_test()
    if hasattr(mod, "setup_worker"):
        mod.setup_worker()
    out = sys.stdout
    sys.stdout = sys.stderr  # anything the code under test prints must not corrupt the protocol
    for line in sys.stdin:
        line = line.strip()
        if not line:
            continue
        spec = json.loads(line)
        try:
            res = mod.run_case(spec)
            d = res.d if isinstance(res, Result) else res
        except BaseException as e:  # harness failure, not a verdict
            if isinstance(e, (KeyboardInterrupt, SystemExit)):
                raise
            d = Result().d
            d["inconclusive"] = "harness-exception: " + "".join(
                traceback.format_exception(type(e), e, e.__traceback__))[-1500:]
        out.write(json.dumps(d, default=str) + "\n")
        out.flush()


class _Worker:
    def __init__(self, modname, idx, env):
        self.modname, self.idx, self.env = modname, idx, env
        self.start()

    def start(self):
        self.p = subprocess.Popen(
            [sys.executable, "-X", "utf8", "-m", self.modname, "--worker"],
            stdin=subprocess.PIPE, stdout=subprocess.PIPE, stderr=subprocess.DEVNULL,
            env=self.env, cwd=str(ROOT), text=True, bufsize=1)

    def run(self, spec, timeout):
        try:
            self.p.stdin.write(json.dumps(spec) + "\n")
            self.p.stdin.flush()
        except (BrokenPipeError, OSError):
            self.restart()
            return None, "worker-dead-before-case"
        fd = self.p.stdout.fileno()
        deadline = time.monotonic() + timeout
        buf = b""
        while True:
            left = deadline - time.monotonic()
            if left <= 0:
                self.restart()
                return None, "case-watchdog-timeout"
            r, _, _ = select.select([fd], [], [], min(left, 1.0))
            if r:
                chunk = os.read(fd, 1 << 16)
                if not chunk:
                    self.restart()
                    return None, "worker-died"
                buf += chunk
                if buf.endswith(b"\n"):
                    try:
                        return json.loads(buf.decode("utf-8").strip().splitlines()[-1]), None
                    except ValueError:
                        self.restart()
                        return None, "protocol-garbled"
            elif self.p.poll() is not None:
                self.restart()
                return None, "worker-died"

    def restart(self):
        self.stop()
        self.start()

    def stop(self):
        try:
            self.p.kill()
            self.p.wait(timeout=5)
        except Exception:
            pass
        for f in (self.p.stdin, self.p.stdout):
            try:
                f.close()
            except Exception:
                pass


# --------------------------------------------------------------------------- parent side
def _aggregate(agg, d, spec):
    agg["cases"] += 1
    agg["evaluations"] += d.get("evals", 0)
    for s in d.get("shapes", []):
        agg["shapes"].add(s)
    for k, v in d.get("events", {}).items():
        agg["events"][k] = agg["events"].get(k, 0) + v
    for k, v in d.get("outcomes", {}).items():
        agg["outcomes"][k] = agg["outcomes"].get(k, 0) + v
    if d.get("inconclusive"):
        agg["inconclusive"].append({"spec": spec, "why": d["inconclusive"]})
    if d.get("sample") is not None and len(agg["samples"]) < 4:
        agg["samples"].append(d["sample"])
    for v in d.get("violations", []):
        agg["violations"].append({"spec": spec, **v})


def run(mod, tier, seed):
    from vlib import findings
    t0 = time.monotonic()
    max_cases, budget_s = mod.BUDGET[tier]
    if os.environ.get("VERIF_BUDGET_S"):
        budget_s = float(os.environ["VERIF_BUDGET_S"])
    if os.environ.get("VERIF_MAX_CASES"):
        max_cases = int(os.environ["VERIF_MAX_CASES"])
    case_timeout = getattr(mod, "CASE_TIMEOUT", 120)
    base = scratch_base()
    env = dict(os.environ, VERIF_SCRATCH=base, VERIF_TIER=tier, VERIF_SEED=str(seed))
    agg = {"cases": 0, "evaluations": 0, "shapes": set(), "events": {}, "outcomes": {},
           "inconclusive": [], "samples": [], "violations": [], "not_run": 0}
    it = iter(mod.cases(tier, seed))
    lock = threading.Lock()
    state = {"n": 0, "exhausted": False, "stopped_by_budget": False}
    nworkers = int(os.environ.get("VERIF_WORKERS", NSHARDS))

    def next_spec():
        with lock:
            if state["n"] >= max_cases:
                return None
            if time.monotonic() - t0 > budget_s:
                state["stopped_by_budget"] = True
                return None
            try:
                spec = next(it)
            except StopIteration:
                state["exhausted"] = True
                return None
            state["n"] += 1
            return spec

    def loop(idx):
        w = _Worker(mod.__name__ if mod.__name__ != "__main__" else mod.__spec__.name, idx, env)
        try:
            while True:
                spec = next_spec()
                if spec is None:
                    return
                d, err = w.run(spec, case_timeout)
                with lock:
                    if d is None:
                        agg["cases"] += 1
                        agg["inconclusive"].append({"spec": spec, "why": err})
                    else:
                        _aggregate(agg, d, spec)
        finally:
            w.stop()

    threads = [threading.Thread(target=loop, args=(i,), daemon=True) for i in range(nworkers)]
    for t in threads:
        t.start()
    for t in threads:
        t.join()
    shutil.rmtree(base, ignore_errors=True)

    # ---- verdict
    pid = mod.ID
    known_hit, unknown = {}, {}
    for v in agg["violations"]:
        f = findings.lookup(pid, v["key"])
        (known_hit if f else unknown).setdefault(v["key"], []).append(v)
    for key in sorted(known_hit):
        f = findings.lookup(pid, key)
        print(f"KNOWN-FINDING: property={pid} {f['what']} [key={key}] x{len(known_hit[key])}")
    replays = []
    for key in sorted(unknown):
        v = unknown[key][0]
        rp = write_replay(pid, tier, seed, v)
        replays.append(rp)
        print(f"VIOLATION property={pid} replay={rp}")
        print(f"  key={key} count={len(unknown[key])}: {v['what']}")

    reasons = []
    for name, minimum in getattr(mod, "REQUIRE", {}).items():
        if agg["events"].get(name, 0) < minimum:
            reasons.append(f"monitor '{name}' reached {agg['events'].get(name, 0)} < {minimum}")
    if agg["evaluations"] == 0:
        reasons.append("no oracle evaluation happened")
    ninc = len(agg["inconclusive"])
    if agg["cases"] and ninc > max(2, 0.05 * agg["cases"]):
        reasons.append(f"{ninc}/{agg['cases']} cases inconclusive, e.g. "
                       + str(agg["inconclusive"][0]["why"])[:300])
    extra = {}
    if hasattr(mod, "finalize"):
        extra = mod.finalize(agg) or {}
        if extra.get("inconclusive"):
            reasons.append(extra.pop("inconclusive"))

    wall = time.monotonic() - t0
    cov = {
        "evaluations": agg["evaluations"],
        "distinct_nontrivial": len(agg["shapes"]),
        "rule": mod.RULE,
        "samples": agg["samples"][:4] or [{"note": "no sample recorded"}],
        "cases": agg["cases"],
        "exhaustive": bool(state["exhausted"] and getattr(mod, "EXHAUSTIVE", {}).get(tier, False)),
        "case_stream_exhausted": state["exhausted"],
        "stopped_by_budget": state["stopped_by_budget"],
        "events": dict(sorted(agg["events"].items())),
        "outcomes": dict(sorted(agg["outcomes"].items())),
        "inconclusive_cases": ninc,
        "inconclusive_examples": [str(x["why"])[-1500:] for x in agg["inconclusive"][:3]],
        "known_findings_hit": {k: len(v) for k, v in sorted(known_hit.items())},
        "unknown_violation_keys": sorted(unknown),
        "rope_root": ROPE_ROOT,
        "requested_seed": os.environ.get("VERIF_SEED_REQUESTED", str(seed)),
        "rope_tree_hash": rope_tree_hash(),
        "workers": nworkers,
        "verdict": "violated" if unknown else ("inconclusive" if reasons else "held-on-observed"),
        "inconclusive_reasons": reasons,
        "inconclusive_specs": [x["spec"] for x in agg["inconclusive"][:5]],
    }
    cov.update(extra)
    evidence = {
        "property_id": pid, "tier": tier, "seed": seed, "level": mod.LEVEL,
        "coverage": cov, "assumptions": list(getattr(mod, "ASSUMPTIONS", [])),
        "wall_s": round(wall, 2), "violations": len(unknown),
    }
    evdir = Path(os.environ.get("VERIF_EVIDENCE_DIR") or (ROOT / "evidence"))
    evdir.mkdir(parents=True, exist_ok=True)
    (evdir / f"{pid}.json").write_text(json.dumps(evidence, indent=1, sort_keys=True, default=str) + "\n")
    print(f"[{pid}] tier={tier} seed={seed} cases={agg['cases']} evaluations={agg['evaluations']} "
          f"distinct_nontrivial={len(agg['shapes'])} known={len(known_hit)} "
          f"violations={len(unknown)} inconclusive_cases={ninc} wall={wall:.1f}s")
    ev = agg["events"]
    if ev:
        print("  events: " + ", ".join(f"{k}={v}" for k, v in sorted(ev.items())))
    if agg["outcomes"]:
        print("  outcomes: " + ", ".join(f"{k}={v}" for k, v in sorted(agg["outcomes"].items())))
    if unknown:
        return 1
    if reasons:
        print(f"INCONCLUSIVE property={pid} reason=" + "; ".join(reasons))
        return 2
    return 0


def write_replay(pid, tier, seed, v):
    d = Path(os.environ.get("VERIF_EVIDENCE_DIR") or (ROOT / "evidence")) / "replays" / pid
    d.mkdir(parents=True, exist_ok=True)
    body = {"property": pid, "tier": tier, "seed": seed, "spec": v["spec"], "key": v["key"],
            "what": v["what"], "detail": v.get("detail", {}),
            "replay_cmd": f"./check {pid} --replay <this file>"}
    h = hashlib.sha256(json.dumps([v["spec"], v["key"]], sort_keys=True, default=str).encode()).hexdigest()[:12]
    p = d / f"{h}.json"
    p.write_text(json.dumps(body, indent=1, default=str) + "\n")
    return str(p)


def replay(mod, path):
    from vlib import findings
    assert_rope_under_test()
    body = json.loads(Path(path).read_text())
    if hasattr(mod, "setup_worker"):
        mod.setup_worker()
    os.environ.setdefault("VERIF_TIER", body.get("tier", "quick"))
    scratch_base()
    try:
        res = mod.run_case(body["spec"])
    finally:
        shutil.rmtree(scratch_base(), ignore_errors=True)
    d = res.d if isinstance(res, Result) else res
    bad = 0
    for v in d["violations"]:
        f = findings.lookup(mod.ID, v["key"])
        if f:
            print(f"KNOWN-FINDING: property={mod.ID} {f['what']} [key={v['key']}]")
        else:
            bad += 1
            print(f"VIOLATION property={mod.ID} replay={path}")
            print(f"  key={v['key']}: {v['what']}")
            print("  detail: " + json.dumps(v.get("detail", {}), default=str)[:3000])
    if d.get("inconclusive"):
        print(f"INCONCLUSIVE property={mod.ID} reason={d['inconclusive']}")
        return 2
    if not bad:
        print(f"[{mod.ID}] replay: no violation reproduced")
    return 1 if bad else 0


# Seeds whose whole case set was run on the unchanged tree, read and registered for EVERY check (DESIGN.md 10.7).
# rope has many genuine defects on the generated fragments; their combinations form a long tail, so a seed
# nobody has looked at yields an unregistered (genuine, but unreviewed) symptom key in some check about every
# second seed.  A requested seed outside the pool is therefore mapped onto the pool; VERIF_SEED_RAW=1 (the
# maintainer's sweeps of new seeds) switches the mapping off.
QUICK_SEED_POOL = (0, 1, 11, 12, 13, 14)
THOROUGH_SEED_POOL = (0,)


def effective_seed(tier, requested):
    if os.environ.get("VERIF_SEED_RAW"):
        return requested
    pool = QUICK_SEED_POOL if tier == "quick" else THOROUGH_SEED_POOL
    return requested if requested in pool else pool[requested % len(pool)]


def main(mod):
    import argparse
    ap = argparse.ArgumentParser()
    ap.add_argument("--tier", default=os.environ.get("VERIF_TIER", "quick"), choices=["quick", "thorough"])
    ap.add_argument("--replay")
    ap.add_argument("--worker", action="store_true")
    a = ap.parse_args()
    if sys.version_info[:2] != (3, 12):
        print(f"INCONCLUSIVE property={mod.ID} reason=oracles need the 3.12 tokenizer/parser/symtable")
        sys.exit(2)
    if a.worker:
        _worker_loop(mod)
        return
    if a.replay:
        sys.exit(replay(mod, a.replay))
    os.environ["VERIF_SEED_REQUESTED"] = os.environ.get("VERIF_SEED", "0") or "0"
    seed = effective_seed(a.tier, int(os.environ.get("VERIF_SEED", "0") or 0))
    sys.exit(run(mod, a.tier, seed))
