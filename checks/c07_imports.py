"""C07 - import tidying never changes what a name means, and is idempotent.

Projects from pygen (profile imports) whose import blocks are additionally roughened (unused,
duplicated, __future__, multi-line parenthesised, aliased, in-function and shadowed imports).  Each
module x each of the five import actions x preference combinations is performed; oracles:
  * the project still compiles and main.py / import_all.py print the same;
  * every non-import top-level statement has the same AST (actions that must qualify names -
    froms_to_imports, handle_long_imports - are exempt from this clause);
  * names listed in __all__ and names other modules import from the module stay available
    (exercised by running the clients);
  * applying the same action again changes nothing (idempotence).
"""
import ast
import os
import sys

from vlib import behave, core, pyrun, treesnap

ID = "C07"
READY = True
LEVEL = "exploration"
RULE = ("pygen profile 'imports' + import-block roughening; (module, action, preference set) triples; non-trivial "
        "= action that changed the module; distinct = (action, preferences, import forms present in the module, "
        "outcome)")
ASSUMPTIONS = ["no module global is rebound after import (a from-import captures the value at import time while a "
               "qualified reference reads the current one; rebinding makes the two forms differ by design)",
               "modules have no import-time output, so reordering imports cannot change printed output by itself",
               "programs are in fragment F"]
BUDGET = {"quick": (600, 240), "thorough": (5800, 900)}
EXHAUSTIVE = {}
CASE_TIMEOUT = 600
REQUIRE = {"performed_and_run": 200, "idempotence_checked": 200}
TECHNIQUE = ("differential execution before/after each import action performed by the real code, AST comparison "
             "of the non-import statements, and a second application of the same action (idempotence)")
LEVEL_TEXT = ("Each import action is performed by the real code on generated modules with hostile import blocks; "
              "the project is executed, non-import statements are compared structurally and the action is applied "
              "a second time.")
LEVEL_NOTE = ("sampled programs and preference combinations; 'same object' is observed through program behaviour "
              "(main.py exercises every public name of every module), not through an injected epilogue")
DESIGN_REF = "DESIGN.md section 5, C07"

ACTIONS = ["organize_imports", "expand_star_imports", "froms_to_imports", "relatives_to_absolutes", "handle_long_imports"]


def cases(tier, seed):
    i = 0
    while True:
        yield {"seed": f"{seed}/C07/{i}", "pseed": seed * 1000003 + i}
        i += 1


def roughen(text, rnd, rel=None):
    """Add hostile but harmless import forms to a module; returns (text, forms).
    rel = (sibling module, module of the parent package) for a module of a nested package."""
    lines = text.split("\n")
    forms = set()
    # position after docstring / __future__
    idx = 0
    if lines and lines[0].startswith('"""'):
        idx = 1
    extra = []
    r = rnd.random
    if r() < 0.3:
        extra.append("from __future__ import annotations")
        forms.add("future")
    if r() < 0.4:
        extra.append("import os")
        forms.add("unused-plain")
    if r() < 0.3:
        extra.append("import os.path as osp, sys as system")
        forms.add("unused-multi-aliased")
    if r() < 0.3:
        extra += ["from collections import (", "    OrderedDict,", "    defaultdict as dd,", ")"]
        forms.add("multiline-parenthesised")
    if r() < 0.3:
        extra += ["import json", "import json"]
        forms.add("duplicate")
    if r() < 0.2:
        extra.append("import xml.dom.minidom")
        forms.add("dotted-unused")
    new = lines[:idx] + extra + lines[idx:]
    tail = []
    if r() < 0.3:
        tail += ["", "def _late():", "    import math", "    return math.floor(2.5)"]
        forms.add("import-in-function")
    if r() < 0.25:
        tail += ["", "import string", "_letters = string.ascii_lowercase[:3]"]
        forms.add("import-after-code")
    if r() < 0.2:
        tail += ["", "import re", "re = 5"]
        forms.add("import-shadowed-by-assignment")
    # imports whose ONLY use sits in a special syntactic position (module-level code: a wrongly removed
    # import fails when the module is imported)
    special = [
        ("class-keyword", "import abc", ["class _Abstract(metaclass=abc.ABCMeta):", "    pass"]),
        ("class-base", "import numbers", ["class _Num(numbers.Number):", "    pass"]),
        ("decorator", "import functools", ["@functools.lru_cache(maxsize=None)", "def _memo(v):", "    return v"]),
        ("default-argument", "import decimal", ["def _dflt(v=decimal.Decimal(1)):", "    return v"]),
        ("annotation", "import typing", ["def _ann(v: typing.Optional[int] = None) -> typing.List[int]:", "    return [v]"]),
        ("except-clause", "import subprocess", ["try:", "    pass", "except subprocess.SubprocessError:", "    pass"]),
        ("comprehension-condition", "import operator", ["_ops = [i for i in range(3) if operator.gt(i, 0)]"]),
        ("with-item", "import contextlib", ["with contextlib.suppress(ValueError):", "    pass"]),
        ("subscript-and-starred", "import itertools", ["_it = [*itertools.chain([1], [2])][0:1]"]),
        ("lambda-body", "import math", ["_lam = (lambda v: math.floor(v))(2.5)"]),
    ]
    head2 = []
    if rel and r() < 0.6:
        # two bare-dot from-imports of different depth, both used
        sib, par = rel
        head2 += [f"from . import {sib} as _rel_sib", f"from .. import {par} as _rel_par"]
        tail += ["", "_rel_probe = (_rel_sib.__name__, _rel_par.__name__)"]
        forms.add("bare-dot-imports-of-two-levels")
    if r() < 0.15:
        # two plain imports, the later name a textual prefix of the earlier one (not a package / submodule pair)
        longer, shorter = rnd.choice([("timeit", "time"), ("copyreg", "copy"), ("statistics", "stat"),
                                       ("tokenize", "token"), ("selectors", "select"), ("sysconfig", "sys")])
        head2 += [f"import {longer}", f"import {shorter}"]
        tail += ["", f"_prefix_probe = ({longer}.__name__, {shorter}.__name__)"]
        forms.add("plain-imports-one-name-prefix-of-the-other")
    if r() < 0.12:
        # a three-level plain import used only through its intermediate package, after a used sibling import
        # of the same top-level package
        head2 += ["import email.utils", "import email.mime.text"]
        tail += ["", "_deep_probe = (email.utils.__name__, email.mime.__name__)"]
        forms.add("deep-import-used-through-intermediate-package")
    for name, imp, code in special:
        if r() < 0.12 and not (name == "lambda-body" and "import-in-function" in forms):
            head2.append(imp)
            tail += [""] + code
            forms.add("only-use-in-" + name)
    new = new[:idx + len(extra)] + head2 + new[idx + len(extra):]
    return "\n".join(new + tail) + ("\n" if not text.endswith("\n") else ""), sorted(forms)


def import_forms(text):
    forms = set()
    try:
        tree = ast.parse(text)
    except SyntaxError:
        return ["unparsable"]
    for n in ast.walk(tree):
        if isinstance(n, ast.Import):
            for a in n.names:
                forms.add("import" + ("-dotted" if "." in a.name else "") + ("-as" if a.asname else ""))
        elif isinstance(n, ast.ImportFrom):
            for a in n.names:
                forms.add(("rel-" if n.level else "") + "from" + ("-star" if a.name == "*" else "") + ("-as" if a.asname else ""))
    if "__all__" in text:
        forms.add("__all__")
    return sorted(forms)


def shadowed_from_names(text):
    """from-imported names that are rebound in a nested scope of the module (parameter, local,
    comprehension or loop variable)."""
    tree = ast.parse(text)
    imported = set()
    for n in tree.body:
        if isinstance(n, ast.ImportFrom):
            for a in n.names:
                imported.add(a.asname or a.name)
    inner = set()
    for fn in ast.walk(tree):
        if isinstance(fn, (ast.FunctionDef, ast.AsyncFunctionDef, ast.Lambda)):
            for a in fn.args.args + fn.args.kwonlyargs + fn.args.posonlyargs:
                inner.add(a.arg)
            if not isinstance(fn, ast.Lambda):
                for n in ast.walk(fn):
                    if isinstance(n, ast.Name) and isinstance(n.ctx, ast.Store):
                        inner.add(n.id)
                    elif n is not fn and isinstance(n, (ast.FunctionDef, ast.ClassDef)):
                        inner.add(n.name)
        if isinstance(fn, ast.ClassDef):
            for st in fn.body:
                for n in ast.walk(st) if not isinstance(st, (ast.FunctionDef, ast.ClassDef)) else [st]:
                    if isinstance(n, ast.Name) and isinstance(n.ctx, ast.Store):
                        inner.add(n.id)
                    elif isinstance(n, (ast.FunctionDef, ast.ClassDef)):
                        inner.add(n.name)
        if isinstance(fn, ast.comprehension):
            for t in ast.walk(fn.target):
                if isinstance(t, ast.Name):
                    inner.add(t.id)
    return imported & inner


def used_only_in_class_body(text):
    """imported names all of whose loads sit directly in class bodies."""
    tree = ast.parse(text)
    imported = set()
    for n in tree.body:
        if isinstance(n, ast.ImportFrom):
            imported |= {a.asname or a.name for a in n.names}
        elif isinstance(n, ast.Import):
            imported |= {(a.asname or a.name).split(".")[0] for a in n.names}
    where = {}

    def visit(node, ctx):
        for ch in ast.iter_child_nodes(node):
            c = ctx
            if isinstance(ch, ast.ClassDef):
                for b in ch.bases + ch.decorator_list:
                    visit(b, ctx)
                for st in ch.body:
                    visit(st, "class")
                continue
            if isinstance(ch, (ast.FunctionDef, ast.AsyncFunctionDef, ast.Lambda)):
                c = "function"
            if isinstance(ch, ast.Name) and isinstance(ch.ctx, ast.Load) and ch.id in imported:
                where.setdefault(ch.id, set()).add(c)
            visit(ch, c)
    visit(tree, "module")
    # loads inside functions may be of a parameter / local with the same spelling, so a class-body load
    # is what decides
    return {n for n, w in where.items() if "class" in w and "module" not in w}


def reexported_imports(path, files):
    """names this module imports that another module obtains from it (re-export)."""
    import re
    tree = ast.parse(files[path])
    imported = set()
    for n in tree.body:
        if isinstance(n, ast.ImportFrom):
            imported |= {a.asname or a.name for a in n.names if a.name != "*"}
    dotted = path[:-3].replace("/", ".")
    leaf = dotted.split(".")[-1]
    out = set()
    for p, t in files.items():
        if p == path or not p.endswith(".py"):
            continue
        star = re.search(r"from\s+\.?%s\s+import\s+\*" % re.escape(dotted), t) or re.search(r"from\s+\.%s\s+import\s+\*" % re.escape(leaf), t)
        for n in imported:
            if star or re.search(r"\b%s\.%s\b" % (re.escape(leaf), re.escape(n)), t) or \
                    re.search(r"from\s+\.?%s\s+import[^\n]*\b%s\b" % (re.escape(dotted), re.escape(n)), t) or \
                    re.search(r"from\s+\.%s\s+import[^\n]*\b%s\b" % (re.escape(leaf), re.escape(n)), t):
                out.add(n)
    return out


def same_leaf_modules(text):
    """the module imports two different modules whose last component is equal (util and pk.util)."""
    tree = ast.parse(text)
    mods = set()
    for n in tree.body:
        if isinstance(n, ast.ImportFrom) and n.module:
            mods.add(n.module)
            for a in n.names:
                mods.add(n.module + "." + a.name)
        elif isinstance(n, ast.Import):
            mods |= {a.name for a in n.names}
    leafs = {}
    for m in mods:
        leafs.setdefault(m.split(".")[-1], set()).add(m)
    return any(len(v) > 1 for v in leafs.values())


def non_import_dump(text):
    tree = ast.parse(text)
    out = []
    for st in tree.body:
        if isinstance(st, (ast.Import, ast.ImportFrom)):
            continue
        out.append(ast.dump(st))
    return out


def run_case(spec):
    from rope.refactor.importutils import ImportOrganizer
    res = core.Result()
    rnd = core.rng(spec)
    with core.Scratch() as tmp:
        case = behave.Case(spec["pseed"], "imports", tmp + "/p", p_fstring=0.0, p_global_stmt=0.0, package=0.8,
                           nested_package=0.7)
        if not case.valid:
            res.ev("discarded_invalid_projects")
            res.outcome("discarded")
            return res
        # roughen import blocks, re-validate
        rough = {}
        for p, t in case.files.items():
            if p.endswith(".py") and p not in ("main.py", "import_all.py") and t.strip():
                rel = None
                parts = p.split("/")
                if len(parts) >= 3:
                    sibs = sorted(q.split("/")[-1][:-3] for q in case.files if q.endswith(".py") and q != p
                                  and q.split("/")[:-1] == parts[:-1] and not q.endswith("__init__.py"))
                    pars = sorted(q.split("/")[-1][:-3] for q in case.files if q.endswith(".py")
                                  and q.split("/")[:-1] == parts[:-2] and not q.endswith("__init__.py"))
                    if sibs and pars:
                        rel = (sibs[0], pars[0])
                rough[p] = roughen(t, rnd, rel)
        new_files = dict(case.files)
        for p, (t, _) in rough.items():
            new_files[p] = t
        case.files = new_files
        case.restore()
        base2 = pyrun.behaviour(case.root)
        if base2 != case.baseline:
            res.ev("discarded_roughening_changed_behaviour")
            res.outcome("discarded")
            return res
        res.ev("projects")
        paths = sorted(rough)
        rnd.shuffle(paths)
        # modules that received the two-level relative imports are always among the processed ones
        paths.sort(key=lambda q: "bare-dot-imports-of-two-levels" not in rough[q][1])
        for path in paths[:3]:
            for f_ in rough[path][1]:
                if f_.startswith("only-use-in-") or f_ in ("bare-dot-imports-of-two-levels", "plain-imports-one-name-prefix-of-the-other",
                                                                 "deep-import-used-through-intermediate-package"):
                    res.ev("modules_with:" + f_)
            for action in rnd.sample(ACTIONS, 3):
                prefs = {"split_imports": rnd.random() < 0.3, "pull_imports_to_top": rnd.random() < 0.7,
                         "sort_imports_alphabetically": rnd.random() < 0.3}
                ptxt = ",".join(k.split("_")[0] for k, v in prefs.items() if v) or "default"
                forms = import_forms(case.files[path])
                before_dump = non_import_dump(case.files[path])
                state = {}

                def request(project, path=path, action=action, prefs=prefs, state=state):
                    for k, v in prefs.items():
                        project.prefs.set(k, v)
                    ch = getattr(ImportOrganizer(project), action)(project.get_file(path))
                    state["project"] = project
                    return ch

                def post(files_after, path=path, action=action, prefs=prefs, before_dump=before_dump):
                    # structural clause
                    if action not in ("froms_to_imports", "handle_long_imports"):
                        try:
                            if non_import_dump(files_after[path]) != before_dump:
                                return "non-import-statement-changed"
                        except SyntaxError:
                            return "syntax-error"
                    # idempotence: a second application on a fresh project must not change anything
                    res.ev("idempotence_checked")
                    p2 = case.project()
                    for k, v in prefs.items():
                        p2.prefs.set(k, v)
                    try:
                        ch2 = getattr(ImportOrganizer(p2), action)(p2.get_file(path))
                    except Exception as e:
                        return "second-application-raised:" + type(e).__name__
                    if ch2 is not None:
                        new2 = ch2.changes[0].new_contents
                        if new2 != files_after[path]:
                            return "not-idempotent"
                    return None

                label = None
                rf = rough[path][1]
                if "from-star" in forms or "rel-from-star" in forms:
                    label = "module-has-star-import"
                elif "future" in rf and action == "froms_to_imports":
                    label = "__future__-import"
                elif "bare-dot-imports-of-two-levels" in rf and action == "froms_to_imports":
                    # `from . import mod` becomes `import pkg` + `pkg.mod...`: the submodule is no longer imported
                    label = "froms_to_imports-of-a-from-package-import-submodule"
                elif "bare-dot-imports-of-two-levels" in rf and prefs["sort_imports_alphabetically"]:
                    # `from . import a` / `from .. import b` are ordered differently by a second application
                    label = "alphabetical-sorting-of-bare-dot-relative-imports"
                elif "import-shadowed-by-assignment" in rf:
                    label = "import-shadowed-by-assignment"
                elif "import-after-code" in rf:
                    label = "import-statement-after-code"
                elif reexported_imports(path, case.files):
                    label = "import-re-exported-to-another-module"
                elif same_leaf_modules(case.files[path]):
                    label = "two-imported-modules-share-their-last-name"
                elif used_only_in_class_body(case.files[path]):
                    label = "imported-name-used-in-class-body-not-at-module-level"
                elif action in ("froms_to_imports", "handle_long_imports") and shadowed_from_names(case.files[path]):
                    label = "from-imported-name-rebound-in-nested-scope"
                feats = (f"hostile:{label}" if label else f"core|{action}|prefs={ptxt}")
                out = behave.judge(case, request, res, "imports", feats, coarse=bool(label), post_check=post,
                                   detail={"file": path, "action": action, "prefs": prefs, "source": case.files[path][:3000],
                                           "pseed": spec["pseed"]})
                if out in ("preserved", "violation"):
                    res.ev("performed_and_run")
                    res.shape([action, ptxt, forms, out])
        res.sample({"pseed": spec["pseed"], "module": paths[0] if paths else None,
                    "import_block": case.files[paths[0]].split("\n")[:12] if paths else None})
    return res


if __name__ == "__main__":
    core.main(sys.modules[__name__])
