"""Run a project's entry module in a clean subprocess and normalise the result."""
import os
import subprocess
import sys

from vlib import histgen


def write_project(root, files):
    for path, text in files.items():
        full = os.path.join(root, *path.split("/"))
        os.makedirs(os.path.dirname(full), exist_ok=True)
        with open(full, "w", encoding="utf-8", newline="") as f:
            f.write(text)


def read_project(root, skip=(".ropeproject", "__pycache__")):
    out = {}
    for dp, dns, fns in os.walk(root):
        dns[:] = [d for d in dns if d not in skip]
        for fn in fns:
            if fn.endswith(".pyc"):
                continue
            full = os.path.join(dp, fn)
            rel = os.path.relpath(full, root).replace(os.sep, "/")
            with open(full, "r", encoding="utf-8", newline="") as f:
                out[rel] = f.read()
    return out


def run(root, entry="main.py", timeout=10):
    """(exit status, stdout, last stderr line).  -S -E -B: no site, no env, no pyc files."""
    try:
        p = subprocess.run([sys.executable, "-S", "-E", "-B", "-X", "utf8", entry], cwd=root,
                           capture_output=True, timeout=timeout, text=True, encoding="utf-8", errors="replace")
    except subprocess.TimeoutExpired:
        return ("timeout", "", "")
    err = p.stderr.strip().splitlines()
    return (p.returncode, p.stdout, err[-1] if err else "")


def behaviour(root, entries=("main.py", "import_all.py")):
    return [run(root, e) for e in entries]
