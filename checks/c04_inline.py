"""C04 - inline variable / function / parameter preserves behaviour or is refused.

Dedicated generator: a library module with inlineable functions and methods (straight-line body,
single return or none, defaults, body locals that collide with caller names, use of a module
global and of an imported helper), once-assigned variables (local and global) and parameters with
defaults; two client modules with SEVERAL call sites each in every import style (positional /
keyword / omitted-default arguments, atom and compound argument expressions, statement-level and
nested calls).  Every definition and every call site is a query point, x remove x only_current.
Oracle: result compiles, entry points print the same, and with remove=True on all sites the
definition is gone and nothing references it.
"""
import ast
import os
import sys

from vlib import behave, core, pyrun

ID = "C04"
READY = True
LEVEL = "exploration"
RULE = ("generated library + 2 clients (import styles: import / import as / from import / from import as), 3-6 call "
        "sites per client; query points = each definition and each call site; options remove x only_current; "
        "non-trivial = performed request that rewrote >= 1 call site; distinct = (target kind, body shape, import "
        "style, argument shapes at the sites, options, outcome)")
ASSUMPTIONS = ["inlined variables are assigned once from pure expressions; argument expressions are pure",
               "functions with *args/**kw, recursion or several returns are expected to be refused"]
BUDGET = {"quick": (1000, 240), "thorough": (14500, 900)}
EXHAUSTIVE = {}
CASE_TIMEOUT = 300
REQUIRE = {"performed_and_run": 300, "refused": 10}
TECHNIQUE = ("differential execution of generated multi-module programs before/after the inlining performed by the "
             "real code, plus an AST check that a removed definition is really gone")
LEVEL_TEXT = ("Every definition and call site of generated programs is inlined through the real code with all "
              "option combinations and the result is executed; differences, non-compiling results, dangling "
              "references and internal exceptions are reported with a mechanism key.")
LEVEL_NOTE = ("sampled programs of a dedicated call-shape generator inside fragment F; known rope defects are "
              "listed by mechanism in known_findings.json")
DESIGN_REF = "DESIGN.md section 5, C04"


def cases(tier, seed):
    i = 0
    while True:
        yield {"seed": f"{seed}/C04/{i}"}
        i += 1


ATOMS = ["1", "2", "7", "n", "m", "len('a  b')"]     # (a literal whose text has consecutive blanks)
COMPOUND = ["1 + 1", "n - 2", "n * m", "-n", "n if m else 3", "(2, 3)[0]", "len('ab')"]


def arg(rnd, compound_ok):
    if compound_ok and rnd.random() < 0.3:
        return rnd.choice(COMPOUND), True
    return rnd.choice(ATOMS), False


def gen_project(rnd):
    feats = set()
    body_shape = rnd.choice(["return-expr", "locals+return", "locals+return", "locals+return", "no-return",
                             "two-statements-no-return", "multi-return", "uses-global", "uses-import", "local-collides"])
    params = rnd.choice([["a"], ["a", "b=2"], ["a", "b=2", "c=5"], ["a", "b"], []])
    # spelling of the body's two locals (the clashing host uses the same spellings): plain, or like builtins
    lt, lu = rnd.choice([("t", "u")] * 2 + [("sum", "max"), ("sum", "max"), ("id", "u")])
    host = rnd.choice(["function", "function", "function", "method"])
    pnames = [p.split("=")[0] for p in params]
    expr = " + ".join(pnames) if pnames else "4"
    lib = ["import aux", "from aux import bump", "", "K = 3", "shared = []", ""]
    ind = "    " if host == "function" else "        "
    first = "" if host == "function" else "self"
    sig = ", ".join(([first] if first else []) + params)
    if host == "method":
        lib += ["class Box:", "    def __init__(self, v):", "        self.v = v", ""]
        expr = expr + " + self.v"
    lib.append(f"{ind[:-4]}def target({sig}):")
    if body_shape == "return-expr":
        lib.append(f"{ind}return ({expr}) * 2")
    elif body_shape == "locals+return":
        lib += [f"{ind}{lt} = {expr}", f"{ind}{lu} = {lt} * 3", f"{ind}return {lu} - {lt}"]
    elif body_shape == "no-return":
        lib.append(f"{ind}shared.append({expr})")
    elif body_shape == "two-statements-no-return":
        lib += [f"{ind}t = {expr}", f"{ind}shared.append(t)"]
    elif body_shape == "multi-return":
        lib += [f"{ind}if {expr} > 3:", f"{ind}    return 1", f"{ind}return 2"]
    elif body_shape == "uses-global":
        lib.append(f"{ind}return {expr} + K")
    elif body_shape == "uses-import":
        lib.append(f"{ind}return bump({expr}) + aux.OFFSET")
    elif body_shape == "local-collides":
        lib += [f"{ind}n = {expr}", f"{ind}m = n + 1", f"{ind}return n * m"]
    lib.append("")
    if host == "method":
        lib += ["class Holder:", "    def __init__(self):", "        self.box = Box(20)", ""]
    # variables
    vrhs = rnd.choice(["q", "bump(q)", "q + K", "(q + K)", "K"])
    if vrhs == "q + K":
        feats.add("compound-variable-value")
    lib += ["v_const = K * 2 + 1", "", "def uses_local(q):", f"    tmp = {vrhs}", "    other = tmp * tmp", "    return other + tmp", ""]
    files = {"aux.py": "OFFSET = 100\n\ndef bump(x):\n    return x + 1\n", "lib.py": "\n".join(lib) + "\n"}
    sites = []
    compound_ok = rnd.random() < 0.2
    nested_ok = rnd.random() < 0.2
    for ci, cname in enumerate(["client_a.py", "client_b.py"]):
        style = rnd.choice(["import", "alias", "from", "import", "alias", "from", "from-as"])
        L = []
        if style == "import":
            L.append("import lib")
            tgt, box, vc = "lib.target", "lib.Box", "lib.v_const"
        elif style == "alias":
            L.append("import lib as L")
            tgt, box, vc = "L.target", "L.Box", "L.v_const"
        elif style == "from":
            L.append("from lib import " + ("target" if host == "function" else "Box, Holder") + ", v_const")
            tgt, box, vc = "target", "Box", "v_const"
        else:
            L.append("from lib import " + ("target as tg" if host == "function" else "Box as Bx, Holder") + ", v_const as vc")
            tgt, box, vc = "tg", "Bx", "vc"
        feats.add("import:" + style)
        L += ["", "n = 4", "m = 6", ""]
        if host == "method":
            L.append(f"box = {box}(10)")
            tgt = "box.target"
            if rnd.random() < 0.4:
                # the receiver is itself an attribute access: holder.box.target(...)
                L.append(f"holder = {box.replace('Box', 'Holder').replace('Bx', 'Holder')}()")
                tgt = "holder.box.target"
                feats.add("dotted-receiver")
        for k in range(rnd.randint(3, 6)):
            args = []
            kw_started = False
            for p in params:
                nm, has_def = p.split("=")[0], "=" in p
                if has_def and rnd.random() < 0.4:
                    kw_started = True
                    feats.add("default-omitted")
                    continue
                a, comp = arg(rnd, compound_ok)
                if comp:
                    feats.add("compound-argument")
                if kw_started or rnd.random() < 0.3:
                    args.append(f"{nm}={a}")
                    kw_started = True
                    feats.add("keyword-argument")
                else:
                    args.append(a)
            call = f"{tgt}({', '.join(args)})"
            shape = rnd.choice(["print", "assign", "expr", "stmt"] + (["nested"] if nested_ok else []))
            if body_shape in ("no-return", "two-statements-no-return"):
                shape = "stmt"
            if shape == "print":
                L.append(f"print('c{ci}', {k}, {call})")
            elif shape == "assign":
                L += [f"r{k} = {call}", f"print('c{ci}', {k}, r{k})"]
            elif shape == "expr":
                L.append(f"print('c{ci}', {k}, 1 + {call} * 2)")
                feats.add("call-in-larger-expression")
            elif shape == "stmt":
                L.append(call)
            else:
                inner = call
                if len(params) == 1:
                    L.append(f"print('c{ci}', {k}, {tgt}({inner}))")
                    feats.add("nested-call")
                else:
                    L.append(f"print('c{ci}', {k}, [{call}, {call}])")
                    feats.add("two-calls-on-one-line")
        # call sites inside functions: one host without and one with locals spelled like the body's locals,
        # with IDENTICAL call text (the generated definition must not be shared between them)
        hargs = ", ".join("v" for p in params if "=" not in p)
        hcall = f"{tgt}({hargs})"
        if body_shape not in ("no-return", "two-statements-no-return", "multi-return"):
            L += ["", "def host_plain(v):", f"    return {hcall}", "", "def host_clash(v):", f"    {lt} = 100", f"    {lu} = 7",
                  "    n = 5", f"    r = {hcall}", f"    return r + {lt} + {lu} + n", "",
                  f"print('c{ci}', 'hosts', host_plain(3), host_clash(3))"]
            feats.add("call-in-function-host")
        L.append(f"print('c{ci}', 'v', {vc} + 1, {vc})")
        L.append("print('shared', __import__('lib').shared, n, m)")
        files[cname] = "\n".join(L) + "\n"
    files["main.py"] = "import client_a\nimport client_b\nimport lib\nprint(lib.uses_local(2))\n"
    files["import_all.py"] = "import aux, lib, client_a, client_b\n"
    return files, {"body": body_shape, "host": host, "nparams": len(params), "feats": sorted(feats)}


def find_offsets(files):
    """Query points: (kind, path, offset, label)."""
    pts = []
    lib = files["lib.py"]
    i = lib.index("def target(") + 4
    pts.append(("function", "lib.py", i, "definition"))
    for cname in ("client_a.py", "client_b.py"):
        src = files[cname]
        for needle in ("target(", "tg("):
            start = 0
            while True:
                j = src.find(needle, start)
                if j < 0:
                    break
                if j == 0 or not (src[j - 1].isalnum() or src[j - 1] == "_"):
                    pts.append(("function", cname, j + 1, "call-site"))
                start = j + 1
        for needle in ("v_const", "vc"):
            j = src.find(needle + " + 1")
            if j >= 0:
                pts.append(("variable-global", cname, j + 1, "use"))
    pts.append(("variable-global", "lib.py", lib.index("v_const =") + 1, "definition"))
    pts.append(("variable-local", "lib.py", lib.index("tmp = ") + 1, "definition"))
    pts.append(("variable-local", "lib.py", lib.index("tmp * tmp") + 1, "use"))
    m = lib.find("b=2")
    if m >= 0:
        pts.append(("parameter", "lib.py", m, "definition"))
    return pts


def run_case(spec):
    from rope.refactor import inline
    res = core.Result()
    rnd = core.rng(spec)
    files, meta = gen_project(rnd)
    with core.Scratch() as tmp:
        case = behave.Case.__new__(behave.Case)
        case.root, case.files = tmp + "/p", files
        os.makedirs(case.root)
        pyrun.write_project(case.root, files)
        case.baseline = pyrun.behaviour(case.root)
        if not all(b[0] == 0 for b in case.baseline):
            res.ev("discarded_invalid_projects")
            res.outcome("discarded")
            res.sample({"discarded": files, "err": [b[2] for b in case.baseline]})
            return res
        res.ev("projects")
        pts = find_offsets(files)
        rnd.shuffle(pts)
        for kind, path, offset, where in pts[:6]:
            only_current = where == "call-site" and rnd.random() < 0.5
            # remove=True together with only_current=True asks to delete a definition that is still
            # used elsewhere: not a request the property covers, not generated
            remove = (not only_current) and rnd.random() < 0.6
            if kind == "parameter":
                kwargs = {}
            else:
                kwargs = {"remove": remove, "only_current": only_current}

            def request(project, path=path, offset=offset, kwargs=kwargs):
                return inline.create_inline(project, project.get_file(path), offset).get_changes(**kwargs)

            # labelled request classes (coarse keys): rope is known to be unreliable there
            label = None
            alias_query = path != "lib.py" and (" as tg" in files[path] or " as vc" in files[path] or " as Bx" in files[path])
            alias_in_project = any(" as tg" in t or " as vc" in t or " as Bx" in t for t in files.values())
            if alias_query and kind in ("function", "variable-global"):
                label = "query-through-from-import-alias"
            elif alias_in_project and kind in ("function", "variable-global") and kwargs.get("remove"):
                label = "remove-with-from-import-alias-in-another-module"
            elif kind == "function":
                if "two-calls-on-one-line" in meta["feats"] or "nested-call" in meta["feats"]:
                    label = "several-calls-on-one-line"
                elif meta["body"] == "local-collides":
                    label = "body-local-collides-with-caller-name"
                elif meta["body"] == "multi-return":
                    label = "multiple-returns"
                elif "compound-argument" in meta["feats"]:
                    label = "compound-argument-expression"
                elif (meta["body"] in ("uses-global", "uses-import", "locals+return") and
                      "call-in-larger-expression" in meta["feats"]):
                    label = "sum-returned-into-larger-expression"
            elif kind == "variable-local" and "compound-variable-value" in meta["feats"]:
                label = "compound-variable-value"
            elif kind == "variable-global":
                label = None
            opts = f"remove={int(bool(kwargs.get('remove')))},only_current={int(bool(kwargs.get('only_current')))}"
            if label:
                feats = f"{kind}|hostile:{label}"
            else:
                feats = f"{kind}|core|body={meta['body']}|{opts}"

            def post(project_files, kind=kind, kwargs=kwargs):
                # remove=True on all sites: the definition must be gone
                if kind == "function" and kwargs.get("remove") and not kwargs.get("only_current"):
                    t = ast.parse(project_files.get("lib.py", ""))
                    if any(isinstance(n, ast.FunctionDef) and n.name == "target" for n in ast.walk(t)):
                        return "definition-not-removed"
                return None

            out = behave.judge(case, request, res, "inline", feats, coarse=bool(label),
                               detail={"files": files, "query": [kind, path, offset, where], "options": kwargs, "meta": meta},
                               post_check=post)
            if out in ("preserved", "violation"):
                res.ev("performed_and_run")
                res.shape([kind, meta["body"], meta["host"], meta["feats"], where, opts, out])
            elif out == "refused":
                res.ev("refused")
        res.sample({"meta": meta, "lib": files["lib.py"], "client_a": files["client_a.py"]})
    return res


if __name__ == "__main__":
    core.main(sys.modules[__name__])
