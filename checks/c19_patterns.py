"""C19 - pattern matching and restructuring rewrite exactly the real instances.

Differential / metamorphic monitoring of the real similarfinder + restructure code.  Patterns are made
from the module itself (a statement or expression sub-tree with 0-3 sub-expressions abstracted into
wildcards, repeated where the code repeats), so the origin must match.  Oracles:

* vlib/refmatch.py: an independent matcher over Python's `ast` gives the expected set of instances
  (identified by the position Python's parser reports) and their bindings - two-sided comparison with
  SimilarFinder / RawSimilarFinder .get_matches(pattern, start, end);
* soundness re-checked on rope's own answer: the text of each bound region, substituted for the wildcard
  in the pattern and parsed by Python, must give the tree of the matched node(s);
* Restructure(project, pattern, goal).get_changes(): the expected module is computed on the tree
  (every instance replaced by the goal with the rewritten bound trees inserted); rope's text must parse
  to the same tree (modulo flattening of `a and (b and c)`), every character outside the instances must
  survive, and goal == pattern must leave ast.dump(module) unchanged.  Same for restructure.replace().
"""
import ast
import os
import sys
import textwrap

from vlib import core, refmatch

ID = "C19"
READY = True
LEVEL = "exploration"
RULE = ("one case = one module (generated: functions/classes with arithmetic, calls, attributes, comparisons, "
        "if/elif chains, multi-line and lower-precedence operands, f-strings; or 1-3 definitions cut from a real "
        "file) x 5 patterns abstracted from its own sub-trees x 1 search region x 2-3 goals; non-trivial = pattern "
        "with >=1 wildcard and >=1 instance besides being parseable; distinct = (pattern kind, root node class, "
        "#wildcards, repeated wildcard, #instances bucket, nested instances, region kind, goal kinds)")
ASSUMPTIONS = ["wildcards take no arguments (default wildcard: every expression matches, as documented)",
               "goals use only wildcards of the pattern and are of the pattern's syntactic category; a goal whose "
               "tree-level result is not compilable Python at some instance is not generated",
               "pattern text contains no '${' inside string literals or comments",
               "LF line ends, UTF-8; overlapping windows of a multi-statement pattern: which of them is rewritten "
               "is not decided by the statement, only 'nothing else changes' is checked there",
               "which occurrence of a repeated wildcard is reported is not decided: any occurrence is accepted"]
BUDGET = {"quick": (2000, 240), "thorough": (36000, 900)}
EXHAUSTIVE = {}
REQUIRE = {"patterns_checked": 300, "match_sets_compared": 300, "multi_instance_patterns": 60,
           "nested_instance_patterns": 10, "region_excludes_some_instance": 30, "repeated_wildcard_patterns": 20,
           "stmt_patterns": 50, "restructure_tree_compared": 150, "identity_goal_checked": 100,
           "binding_lower_precedence": 20, "multiline_binding": 10, "elif_instances": 3,
           "replace_function_checked": 50, "soundness_substitutions": 300}
TECHNIQUE = ("reference matcher and tree-level rewriter over Python's ast (independent of _ASTMatcher), two-sided "
             "comparison of match sets and bindings, substitution-and-parse soundness oracle, parse-and-compare of "
             "restructured text against the tree-level expectation, text-outside-instances preservation, "
             "goal==pattern identity; patterns derived from the module so non-emptiness is guaranteed")
LEVEL_TEXT = ("Every generated (module, pattern, region, goal) is executed on the real SimilarFinder/Restructure and "
              "judged by an independent reference matcher and a tree-level rewriter built on Python's ast. Sampled "
              "over modules/patterns/goals; held = no divergence on any sampled case.")
LEVEL_NOTE = ("the reference encodes rope's documented semantics (wildcards bind one expression, contexts ignored); "
              "wildcard arguments (type=, name=, exact) are not exercised; cases in which a recorded precedence/elif "
              "defect fires cannot show a second defect in the same restructuring")
DESIGN_REF = "DESIGN.md section 5, C19"
CASE_TIMEOUT = 120

NPAT = 5


# ------------------------------------------------------------------------------------------ cases
def _corpus(tier):
    import sysconfig
    out = []
    base = os.path.join(core.ROPE_ROOT, "rope")
    for dp, dn, fn in sorted(os.walk(base)):
        dn.sort()
        for f in sorted(fn):
            if f.endswith(".py"):
                out.append(os.path.join(dp, f))
    if tier == "thorough":
        std = sysconfig.get_paths()["stdlib"]
        names = sorted(f for f in os.listdir(std) if f.endswith(".py"))
        out += [os.path.join(std, f) for f in names]
    return out


def cases(tier, seed):
    import random
    files = _corpus(tier)
    r = random.Random(f"{seed}/C19/files")
    i = 0
    while True:
        spec = {"seed": f"{seed}/C19/{i}", "i": i}
        if i % 5 in (1, 3):
            spec["file"] = r.choice(files)
        yield spec
        i += 1


# ------------------------------------------------------------------------------------------ module generator
(P_LAMBDA, P_TERN, P_OR, P_AND, P_NOT, P_CMP, P_BOR, P_XOR, P_BAND, P_SHIFT, P_ADD, P_MUL, P_UNARY, P_POW,
 P_ATOM) = range(15)
# (template, own precedence, required precedence of holes)
FORMS = [
    ("{0} * {1}", P_MUL, [P_MUL, P_UNARY]), ("{0} - {1}", P_ADD, [P_ADD, P_MUL]), ("{0} + {1}", P_ADD, [P_ADD, P_MUL]),
    ("{0} / {1}", P_MUL, [P_MUL, P_UNARY]), ("{0} % {1}", P_MUL, [P_MUL, P_UNARY]),
    ("{0} ** {1}", P_POW, [P_ATOM, P_UNARY]), ("-{0}", P_UNARY, [P_UNARY]), ("not {0}", P_NOT, [P_NOT]),
    ("{0} < {1}", P_CMP, [P_BOR, P_BOR]), ("{0} == {1}", P_CMP, [P_BOR, P_BOR]), ("{0} in {1}", P_CMP, [P_BOR, P_BOR]),
    ("{0} is not {1}", P_CMP, [P_BOR, P_BOR]), ("{0} <= {1} < {2}", P_CMP, [P_BOR, P_BOR, P_BOR]),
    ("{0} and {1}", P_AND, [P_NOT, P_NOT]), ("{0} or {1}", P_OR, [P_AND, P_AND]),
    ("{0} | {1}", P_BOR, [P_BOR, P_XOR]), ("{0} & {1}", P_BAND, [P_BAND, P_SHIFT]),
    ("{0} if {1} else {2}", P_TERN, [P_OR, P_OR, P_TERN]),
    ("f({0}, {1})", P_ATOM, [P_TERN, P_TERN]), ("g({0})", P_ATOM, [P_TERN]), ("h({0}, {0})", P_ATOM, [P_TERN]),
    ("h({0}, {1})", P_ATOM, [P_TERN, P_TERN]), ("g({0}, k={1})", P_ATOM, [P_TERN, P_TERN]),
    ("obj.run({0})", P_ATOM, [P_TERN]), ("self.m({0}, {1})", P_ATOM, [P_TERN, P_TERN]), ("f(*{0})", P_ATOM, [P_BOR]),
    ("{0}.v", P_ATOM, [P_ATOM]), ("{0}.w.v", P_ATOM, [P_ATOM]), ("{0}[{1}]", P_ATOM, [P_ATOM, P_TERN]),
    ("{0}[{1}:{2}]", P_ATOM, [P_ATOM, P_TERN, P_TERN]), ("{0}({1})", P_ATOM, [P_ATOM, P_TERN]),
    # slices with different sets of bounds (optional ast fields present / absent)
    ("{0}[{1}:]", P_ATOM, [P_ATOM, P_TERN]), ("{0}[:{1}]", P_ATOM, [P_ATOM, P_TERN]), ("{0}[::{1}]", P_ATOM, [P_ATOM, P_TERN]),
    ("{0}[{1}::{2}]", P_ATOM, [P_ATOM, P_TERN, P_TERN]), ("{0}[:{1}:{2}]", P_ATOM, [P_ATOM, P_TERN, P_TERN]),
    ("{0}[:]", P_ATOM, [P_ATOM]),
    ("[{0}, {1}]", P_ATOM, [P_TERN, P_TERN]), ("({0}, {1})", P_ATOM, [P_TERN, P_TERN]),
    ("{{{0}: {1}}}", P_ATOM, [P_TERN, P_TERN]), ("lambda q: {0}", P_LAMBDA, [P_TERN]),
    ("[{0} for q in {1}]", P_ATOM, [P_TERN, P_OR]), ("sum({0} for q in {1})", P_ATOM, [P_TERN, P_OR]),
    ("FSTR", P_ATOM, [P_TERN]),
]
ATOMS = ["a", "b", "c", "x", "y", "n", "q", "a", "b", "x", "y", "n", "a", "b", "0", "1", "2", "1", "1.0", "True",
         "None", "'s'", "'t'", "self.v", "x.v", "obj", "a.w", "self.v", "b'x'", "1j"]
ARITH = [f for f in FORMS if f[1] in (P_MUL, P_ADD, P_POW, P_UNARY)]


class Gen:
    def __init__(self, rnd):
        self.r = rnd
        # side stream for layout variants added later: seeded from the main stream's state without consuming it
        import random as _random
        self.r2 = _random.Random(hash(rnd.getstate()[1]))
        self.fav = [rnd.choice(FORMS) for _ in range(3)] + [rnd.choice(ARITH)]
        self.pool = []

    def atom(self, ml_ok):
        r = self.r
        if ml_ok and r.random() < 0.012:
            return '"""p\n   q"""'
        return r.choice(ATOMS)

    def fit(self, text, prec, need, ml_ok):
        r = self.r
        if prec < need or r.random() < 0.08 or (need == P_ATOM and text.isdigit()):
            if ml_ok and " " in text and "\n" not in text and r.random() < 0.35:
                # break the line at the first top-level blank that follows an operator-ish token
                cut = self._cut(text)
                if cut:
                    text = text[:cut] + "\n" + " " * r.choice([4, 8, 13]) + text[cut + 1:]
            return "(" + text + ")"
        return text

    @staticmethod
    def _cut(text):
        depth, q = 0, None
        for i, ch in enumerate(text):
            if q:
                if ch == q:
                    q = None
                continue
            if ch in "'\"":
                q = ch
            elif ch in "([{":
                depth += 1
            elif ch in ")]}":
                depth -= 1
            elif ch == " " and depth == 0 and i > 0 and text[i - 1] in "+-*/%<>=|&," and i + 1 < len(text):
                return i
        return None

    def expr(self, d, ml_ok=True):
        """-> (text, precedence)"""
        r = self.r
        if d <= 0 or r.random() < 0.12:
            return self.atom(ml_ok), P_ATOM
        if self.pool and r.random() < 0.22:
            t, p = r.choice(self.pool)
            if ml_ok or "\n" not in t:
                return t, p
        tmpl, prec, needs = r.choice(self.fav) if r.random() < 0.45 else r.choice(FORMS)
        if tmpl == "FSTR":
            t, p = self.expr(d - 1, False)
            if '"' in t or "\\" in t or "'" in t or "{" in t or "lambda" in t:
                t = "a.v"
            spec = r.choice(["", "", "!r", ":>4"])
            out = 'f"' + r.choice(["s", "t", ""]) + "{" + t + spec + "}" + r.choice(["s", "t", ""]) + '"'
            return out, P_ATOM
        inner_ml = ml_ok
        holes = []
        for need in needs:
            t, p = self.expr(d - 1 if r.random() < 0.8 else d - 2, inner_ml)
            holes.append(self.fit(t, p, need, inner_ml))
        text = tmpl.format(*holes)
        if ml_ok and prec == P_ATOM and ", " in text and r.random() < 0.12 and tmpl[0] in "fghos[(":
            k = text.index("(") if "(" in tmpl[:9] and tmpl[0] not in "[(" else 0
            if tmpl[0] in "fghos" and text.count(", ") == 1 and self._cut(text) is None:
                i = text.index(", ", k)
                if self._top_level(text, i):
                    text = text[:i + 1] + "\n" + " " * r.choice([6, 10]) + text[i + 2:]
        if r.random() < 0.5 and len(text) < 60:
            self.pool.append((text, prec))
        return text, prec

    @staticmethod
    def _top_level(text, i):
        depth, q = 0, None
        for j, ch in enumerate(text[:i]):
            if q:
                if ch == q:
                    q = None
                continue
            if ch in "'\"":
                q = ch
            elif ch in "([{":
                depth += 1
            elif ch in ")]}":
                depth -= 1
        return depth == 1 and q is None

    def e(self, d=None, need=P_TERN, ml_ok=True):
        d = self.r.choice([1, 2, 2, 3]) if d is None else d
        t, p = self.expr(d, ml_ok)
        return self.fit(t, p, need, ml_ok) if p < need else t

    def target(self):
        r = self.r
        return r.choice(["x", "y", "n", "a", "self.v", "x.v", "a[0]", "a[n]", "obj.w"])

    def simple(self, in_func):
        r = self.r
        k = r.random()
        if k < 0.45:
            return f"{self.target()} = {self.e()}"
        if k < 0.55:
            return f"{r.choice(['x', 'n', 'self.v'])} {r.choice(['+=', '-=', '*='])} {self.e()}"
        if k < 0.72:
            return self.e(need=P_ATOM) if r.random() < 0.3 else r.choice(["f", "g", "obj.run", "self.m"]) + \
                "(" + self.e() + (", " + self.e() if r.random() < 0.5 else "") + ")"
        if k < 0.85 and in_func:
            return f"return {self.e()}"
        if k < 0.9:
            return f"assert {self.e(ml_ok=False)}, {self.e(1, ml_ok=False)}"
        if k < 0.95:
            return f"x, y = {self.e(1)}, {self.e(1)}"
        return r.choice(["pass", "x = 1", "return x" if in_func else "y = x"])

    def block(self, ind, n, depth, in_func):
        out = []
        for _ in range(n):
            out += self.stmt(ind, depth, in_func)
        return out

    def cond(self):
        return self.e(self.r.choice([1, 2]), ml_ok=self.r.random() < 0.3)

    def stmt(self, ind, depth, in_func):
        r = self.r
        sp = " " * ind
        k = r.random()
        if depth <= 0 or k < 0.55:
            s = self.simple(in_func)
            lines = s.split("\n")
            return [sp + lines[0]] + lines[1:]
        n1 = lambda: self.block(ind + 4, r.choice([1, 1, 2]), depth - 1, in_func)
        if k < 0.62:
            # a plain `if` and the same arm as the last `elif` of a chain
            t = r.choice(["x = g({0})", "self.v = {0} * 2", "obj.run({0})", "y = {0}", "n += {0}"])
            one = lambda: [" " * (ind + 4) + t.format(self.e(1, ml_ok=False))]
            out = [sp + f"if {self.cond()}:"] + one()
            out += [sp + f"if {self.cond()}:"] + n1() + [sp + f"elif {self.cond()}:"] + one()
            if r.random() < 0.5:
                out += [sp + f"if {self.cond()}:"] + one()
            return out
        if k < 0.78:
            out = [sp + f"if {self.cond()}:"] + n1()
            for _ in range(r.choice([0, 0, 1, 1, 2])):
                out += [sp + f"elif {self.cond()}:"] + n1()
            if r.random() < 0.4:
                out += [sp + "else:"] + n1()
            return out
        if k < 0.86:
            return [sp + f"for {r.choice(['q', 'x', 'k, q'])} in {self.e(1, ml_ok=False)}:"] + n1()
        if k < 0.9:
            return [sp + f"while {self.cond()}:"] + n1()
        if k < 0.95:
            return [sp + f"with {self.e(1, need=P_ATOM, ml_ok=False)} as y:"] + n1()
        # every suite of a `try` holds statement lists of its own: handler bodies, `finally:`
        v = self.r2.random()
        if v < 0.45:
            return [sp + "try:"] + n1() + [sp + "except E as x:"] + n1()
        if v < 0.75:
            return [sp + "try:"] + n1() + [sp + "except E as x:"] + n1() + [sp + "finally:"] + n1()
        return [sp + "try:"] + n1() + [sp + "finally:"] + n1()

    def module(self):
        r = self.r
        out = ["import obj", ""]
        for fi in range(r.choice([2, 2, 3])):
            if r.random() < 0.3:
                out.append(f"class C{fi}(B):")
                for mi in range(r.choice([1, 2])):
                    out.append(f"    def m{mi}(self, a, b=1):")
                    out += self.block(8, r.choice([2, 3, 4]), 2, True)
                    out.append("")
            else:
                if r.random() < 0.15:
                    out.append("@g(1)")
                out.append(f"def f{fi}(a, b, *c, x=None):" if r.random() < 0.3 else f"def f{fi}(a, b, c=(), x=None):")
                out += self.block(4, r.choice([2, 3, 4, 5]), 2, True)
                out.append("")
            if r.random() < 0.6:
                out += self.stmt(0, 1, False)
        return "\n".join(out) + "\n"


def gen_module(rnd):
    for _ in range(20):
        src = Gen(rnd).module()
        try:
            ast.parse(src)
            return src
        except (SyntaxError, ValueError):
            continue
    raise RuntimeError("generator produced 20 invalid modules")


def corpus_module(path, rnd):
    try:
        text = open(path, encoding="utf-8").read()
        tree = ast.parse(text)
    except (OSError, SyntaxError, ValueError, UnicodeDecodeError):
        return None
    if "\r" in text or "\f" in text or "\t" in text:
        return None
    lines = text.split("\n")
    cands = []
    for n in ast.walk(tree):
        if isinstance(n, (ast.FunctionDef, ast.ClassDef, ast.AsyncFunctionDef)):
            first = min([n.lineno] + [d.lineno for d in n.decorator_list])
            size = n.end_lineno - first + 1
            if 3 <= size <= 70:
                cands.append((first, n.end_lineno))
    if not cands:
        return None
    rnd.shuffle(cands)
    chunks, total = [], 0
    for a, b in cands[:rnd.choice([1, 2, 3])]:
        if total + (b - a) > 110:
            break
        chunks.append(textwrap.dedent("\n".join(lines[a - 1:b])) + "\n")
        total += b - a
    src = "\n\n".join(chunks)
    try:
        compile(src, "<corpus>", "exec", dont_inherit=True)
    except (SyntaxError, ValueError):
        return None
    return src


# ------------------------------------------------------------------------------------------ pattern construction
class Ctx:
    pass


def _inside_fstring(tree):
    inside = set()
    for n in ast.walk(tree):
        if isinstance(n, ast.JoinedStr):
            for d in ast.walk(n):
                if d is not n:
                    inside.add(id(d))
    return inside


def _subexprs(node):
    """descendant expression nodes of node(s), pre-order"""
    out = []

    def rec(x, top):
        if isinstance(x, ast.AST):
            if isinstance(x, ast.expr) and not top:
                out.append(x)
            for c in ast.iter_child_nodes(x):
                rec(c, False)

    for n in (node if isinstance(node, list) else [node]):
        rec(n, not isinstance(node, list) and isinstance(n, ast.expr))
    return out


class _Differs(Exception):
    pass


def _lgg(a, b, top):
    """Anti-unification of two sub-trees: the expression nodes of `a` that must become wildcards for `b` to
    be an instance too, as (node of a, node of b) pairs."""
    def here():
        if not top and isinstance(a, ast.expr) and isinstance(b, ast.expr):
            return [(a, b)]
        raise _Differs()

    if type(a) is not type(b):
        return here()
    pts = []
    try:
        for f in a._fields:
            va, vb = getattr(a, f, None), getattr(b, f, None)
            if isinstance(va, ast.expr_context):
                continue
            if isinstance(va, ast.AST) and isinstance(vb, ast.AST):
                pts += _lgg(va, vb, False)
            elif isinstance(va, list) and isinstance(vb, list):
                if len(va) != len(vb):
                    raise _Differs()
                for x, y in zip(va, vb):
                    if isinstance(x, ast.AST) and isinstance(y, ast.AST):
                        pts += _lgg(x, y, False)
                    elif type(x) is not type(y) or x != y:
                        raise _Differs()
            elif type(va) is not type(vb) or va != vb:
                raise _Differs()
    except _Differs:
        return here()
    return pts


def _lgg_points(cx, origin, want_stmt, rnd):
    """Choose another sub-tree of the module of the same class and generalise the origin just enough."""
    if want_stmt:
        k = len(origin)
        partners = []
        for n in ast.walk(cx.tree):
            for f in n._fields:
                v = getattr(n, f, None)
                if isinstance(v, list) and len(v) >= k and v and isinstance(v[0], ast.stmt):
                    for i in range(len(v) - k + 1):
                        w = v[i:i + k]
                        if w[0] is not origin[0] and all(type(x) is type(y) for x, y in zip(w, origin)):
                            partners.append(w)
    else:
        partners = [n for n in ast.walk(cx.tree) if type(n) is type(origin) and n is not origin]
    rnd.shuffle(partners)
    best = None
    for p in partners[:12]:
        try:
            if want_stmt:
                pts = []
                for x, y in zip(origin, p):
                    pts += _lgg(x, y, True)
            else:
                pts = _lgg(origin, p, True)
        except _Differs:
            continue
        distinct = {(refmatch.ndump(a, False), refmatch.ndump(b, False)) for a, b in pts}
        if 1 <= len(distinct) <= 3 and (best is None or len(pts) < len(best)):
            best = pts
    return best


def make_pattern(cx, rnd):
    """-> dict(text, kind, origin nodes, nwild, repeated) or None"""
    tree, offs, src = cx.tree, cx.offs, cx.source
    want_stmt = rnd.random() < 0.33
    if want_stmt:
        lists = []
        for n in ast.walk(tree):
            for f in n._fields:
                v = getattr(n, f, None)
                if isinstance(v, list) and v and isinstance(v[0], ast.stmt):
                    lists.append(v)
        lst = rnd.choice(lists)
        k = 2 if len(lst) >= 2 and rnd.random() < 0.25 else 1
        i = rnd.randrange(len(lst) - k + 1)
        origin = lst[i:i + k]
        if origin[-1].end_lineno - origin[0].lineno > 7:
            return None
        if isinstance(origin[0], (ast.Import, ast.ImportFrom, ast.Pass, ast.Global, ast.Nonlocal)) and rnd.random() < 0.8:
            return None
        s, e = offs.region(origin[0])[0], offs.region(origin[-1])[1]
        ls = src.rfind("\n", 0, s) + 1
        if src[ls:s].strip():
            return None
    else:
        exprs = [n for n in ast.walk(tree) if isinstance(n, ast.expr) and id(n) not in cx.in_fstr
                 and not isinstance(n, (ast.Starred, ast.Slice))]
        rich = [n for n in exprs if not isinstance(n, (ast.Name, ast.Constant))]
        pick = rich if rich and rnd.random() < 0.93 else exprs
        if not pick:
            return None
        o = rnd.choice(pick)
        s, e = offs.region(o)
        if e - s > 240:
            return None
        origin = o
        ls = s
    if not want_stmt and rnd.random() < 0.02:
        # the bare wildcard: every expression of the module is an instance
        t = "${a}"
        pat = refmatch.Pattern(t, avoid=src)
        return {"text": t, "pat": pat, "origin": origin, "nwild": 1, "repeated": False,
                "root": "Wildcard", "mode": "bare"}
    subs = [n for n in _subexprs(origin) if id(n) not in cx.in_fstr]
    nw = rnd.choice([0, 1, 1, 2, 2, 3]) if subs else 0
    chosen = []  # (start, end, name)
    taken = []
    names = ["a", "b", "c"]
    rnd.shuffle(names)
    repeated = False
    mode = "random"
    if rnd.random() < 0.4:
        pts = _lgg_points(cx, origin, want_stmt, rnd)
        if pts:
            mode, nw = "lgg", 0
            seen = {}
            for n, other in pts:
                if id(n) in cx.in_fstr:
                    return None
                k = (refmatch.ndump(n, False), refmatch.ndump(other, False))
                if k in seen:
                    repeated = True
                else:
                    seen[k] = ("?" if rnd.random() < 0.4 else "") + names[len(seen)]
                reg = offs.region(n)
                chosen.append((reg[0], reg[1], seen[k]))
    for wi in range(nw):
        free = [n for n in subs if not any(not (offs.region(n)[1] <= a or offs.region(n)[0] >= b) for a, b in taken)]
        if not free:
            break
        n = rnd.choice(free)
        wname = ("?" if rnd.random() < 0.4 else "") + names[wi]
        reg = offs.region(n)
        chosen.append((reg[0], reg[1], wname))
        taken.append(reg)
        if rnd.random() < 0.75:
            d = refmatch.ndump(n, False)
            for m in free:
                mr = offs.region(m)
                if m is not n and refmatch.ndump(m, False) == d and \
                        not any(not (mr[1] <= a or mr[0] >= b) for a, b in taken):
                    chosen.append((mr[0], mr[1], wname))
                    taken.append(mr)
                    repeated = True
    text = src[ls:e]
    for a, b, wname in sorted(chosen, reverse=True):
        text = text[:a - ls] + "${" + wname + "}" + text[b - ls:]
    if want_stmt:
        text = textwrap.dedent(text)
    lit = refmatch.WILD_RE.sub("", text)
    if "${" in lit:
        return None
    cand = [text] if want_stmt else [text, "(" + text + ")"]
    for t in cand:
        try:
            pat = refmatch.Pattern(t, avoid=src)
        except refmatch.PatternError:
            continue
        if (pat.kind == "stmts") != want_stmt:
            continue
        if refmatch.why_not(pat, origin) is None:
            return {"text": t, "pat": pat, "origin": origin, "nwild": len({c[2] for c in chosen}),
                    "repeated": repeated, "root": type(origin[0] if want_stmt else origin).__name__, "mode": mode}
    return None


# ------------------------------------------------------------------------------------------ goals
EXPR_GOALS = {
    0: ["g(1)", "1 + 2", "x", "obj.w"],
    1: ["-{0}", "{0}.v", "g({0})", "h({0}, {0})", "{0} ** 2", "2 ** {0}", "not {0}", "{0}[0]", "{0} * 2", "{0} - 1",
        "1 - {0}", "[{0}]", "{0}()", "f(g({0}), 1)", "{0} if {0} else 1", "({0})", "{0} == 1", "lambda: {0}"],
    2: ["{0} * {1}", "{1} * ({0})", "{1} - {0}", "{0} - {1}", "{0}({1})", "{1}.v + {0}", "h({1},\n  {0})",
        "{0} if {1} else {0}", "{0}[{1}]", "[{1}, {0}]", "{0} < {1}", "{1} and {0}", "{0} or {1}", "f({1}, k={0})",
        "{0} ** {1}", "g({1})", "{1} / {0}", "not {0} in {1}", "-{0} + {1}", "f(g({1}, {0}), {1})"],
}
STMT_GOALS = ["{0} = {1}", "print({0})", "return {0}", "{0} += {1}", "x = {1} * {0}", "if {0}:\n    y = {1}",
              "assert {0}", "x = -{0}\ny = {0}.v", "x = {0} - {1}"]


def _w(name):
    return "${" + name + "}"


def make_goals(p, rnd):
    """-> list of (goal kind, goal text); the first is always goal == pattern"""
    pat = p["pat"]
    names = list(pat.names)
    out = [("identity", p["text"])]
    n = rnd.choice([1, 2])
    for _ in range(n):
        k = rnd.random()
        if len(names) >= 2 and k < 0.3:
            perm = names[:]
            while perm == names:
                rnd.shuffle(perm)
            mp = dict(zip(names, perm))
            out.append(("permute", refmatch.WILD_RE.sub(lambda m: _w(mp[m.group(1)]), p["text"])))
            continue
        if len(names) >= 1 and k < 0.4:
            # nest: every wildcard of the pattern wrapped
            wrap = rnd.choice(["g({})", "({})", "-{}", "{}.v"])
            out.append(("wrap", refmatch.WILD_RE.sub(lambda m: wrap.format(m.group(0)), p["text"])))
            continue
        ws = names[:]
        rnd.shuffle(ws)
        if pat.kind == "expr":
            t = rnd.choice(EXPR_GOALS[min(2, len(ws))])
            out.append(("template", t.format(*[_w(w) for w in ws])))
        else:
            if k < 0.6 or not ws:
                form = rnd.choice(["dup", "pre", "wrapif", "post"])
                body = p["text"].rstrip("\n")
                t = {"dup": body + "\n" + body, "pre": "pass\n" + body, "post": body + "\nx = 1",
                     "wrapif": "if True:\n" + textwrap.indent(body, "    ")}[form]
                out.append(("stmt-" + form, t))
            else:
                t = rnd.choice(STMT_GOALS)
                ws2 = (ws * 2)[:2]
                out.append(("stmt-template", t.format(*[_w(w) for w in ws2])))
    return out


# ------------------------------------------------------------------------------------------ rope side helpers
def _pykey(node):
    return (type(node).__name__, node.lineno, node.col_offset, node.end_lineno, node.end_col_offset)


def _rope_match_key(m):
    from rope.refactor import similarfinder
    if isinstance(m, similarfinder.ExpressionMatch):
        return ("expr", _pykey(m.ast))
    return ("stmts", _pykey(m.ast_list[0]), _pykey(m.ast_list[-1]), len(m.ast_list))


def _ref_match_key(m):
    if m.kind == "expr":
        return ("expr", _pykey(m.nodes[0]))
    return ("stmts", _pykey(m.nodes[0]), _pykey(m.nodes[-1]), len(m.nodes))


def _parse_or_none(text):
    try:
        return ast.parse(text)
    except (SyntaxError, ValueError, RecursionError):
        return None


def _parse_expr(text):
    for t in (text, "(" + text + ")"):
        try:
            m = ast.parse(t)
        except (SyntaxError, ValueError):
            continue
        if len(m.body) == 1 and isinstance(m.body[0], ast.Expr):
            return m.body[0].value
    return None


_NOPAREN = (ast.Starred, ast.Slice, ast.FormattedValue)


# ------------------------------------------------------------------------------------------ matching clauses
def check_matching(res, cx, p, rnd):
    """Two-sided comparison + soundness + region.  Returns (ref matches, rope full matches) or None."""
    from rope.refactor import similarfinder
    pat, text = p["pat"], p["text"]
    src, offs = cx.source, cx.offs
    ref = refmatch.find_matches(cx.tree, pat, offs)
    oid = [id(x) for x in (p["origin"] if pat.kind == "stmts" else [p["origin"]])]
    if not any([id(x) for x in m.nodes] == oid for m in ref):
        raise AssertionError("reference matcher does not find the origin of its own pattern")
    use_raw = rnd.random() < 0.25
    api = "raw" if use_raw else "finder"
    try:
        finder = cx.raw_finder() if use_raw else cx.finder
        full = list(finder.get_matches(text))
    except Exception as e:  # noqa: BLE001 - any escape on a valid pattern is a finding
        fs = _fstring_piece_hit(cx, ref)
        if isinstance(e, SyntaxError) and _has_fstring(text):
            fs = "pattern-contains-fstring"
        res.violation(_exc_key(e, fs),
                      f"get_matches raised {type(e).__name__}: {str(e)[:120]} on a pattern made from the module",
                      pattern=text, source=src)
        return None
    res.evals()
    res.ev("match_sets_compared")
    refkeys = {}
    for m in ref:
        refkeys.setdefault(_ref_match_key(m), m)
    ropekeys = {}
    for m in full:
        ropekeys.setdefault(_rope_match_key(m), m)
    kind = pat.kind
    for k in refkeys:
        if k not in ropekeys:
            m = refkeys[k]
            nested = any(o is not m and o.region[0] <= m.region[0] and m.region[1] <= o.region[1] for o in ref)
            p["sets_differ"] = True
            res.violation(f"match|missing|{kind}|nested={int(nested)}|region=full",
                          "an instance of the pattern in the module is not reported", pattern=text, source=src,
                          instance=src[m.region[0]:m.region[1]], api=api)
    for k in ropekeys:
        if k not in refkeys:
            m = ropekeys[k]
            nodes = m.ast if kind == "expr" else m.ast_list
            why = refmatch.why_not(pat, nodes)
            try:
                reg = m.get_region()
            except AttributeError:
                reg = (0, 0)
            p["sets_differ"] = True
            res.violation(f"match|extra|{kind}|{why}", "a reported match is not an instance of the pattern",
                          pattern=text, source=src, reported=src[reg[0]:reg[1]], api=api)
    if len(full) != len(ropekeys):
        res.violation(f"match|duplicate|{kind}", "the same node(s) reported twice", pattern=text, source=src)
    # ---- bindings + soundness on rope's own answer
    for k, m in ropekeys.items():
        rm = refkeys.get(k)
        if rm is None:
            continue  # already reported as not being an instance
        reg = tuple(m.get_region())
        if rm is not None:
            for w in pat.names:
                node = m.get_ast(w)
                if node is None:
                    res.violation(f"match|binding-absent|{kind}", "a wildcard of the pattern has no binding in a match",
                                  pattern=text, source=src, wildcard=w)
                    continue
                if _pykey(node) not in {_pykey(o) for o in rm.bindings[w]}:
                    res.violation(f"match|binding-differs|{kind}", "a wildcard is bound to code that is not at one of "
                                  "its places in the instance", pattern=text, source=src, wildcard=w,
                                  bound=src[slice(*node.region)])
            if set(m.mapping) - set(pat.names):
                res.violation(f"match|binding-unknown-name|{kind}", "match binds a name that is not in the pattern",
                              pattern=text, source=src, names=sorted(m.mapping))
        # substitution-and-parse
        subst = {}
        bad_class = None
        for w in pat.names:
            node = m.get_ast(w)
            if node is None or not hasattr(node, "region"):
                bad_class = "none"
                break
            t = src[node.region[0]:node.region[1]]
            if rm is not None and t != offs.text(node) and not _same_modulo_parens(t, offs.text(node)):
                bad_class = _region_culprit(cx, node)
            subst[w] = _wrap(node, t)
        if bad_class == "none":
            continue
        res.ev("soundness_substitutions")
        code = refmatch.WILD_RE.sub(lambda mo: subst[mo.group(1)], text)
        got = _parse_or_none(code)
        nodes = [m.ast] if kind == "expr" else m.ast_list
        ok = False
        if got is not None:
            if kind == "expr":
                ok = len(got.body) == 1 and isinstance(got.body[0], ast.Expr) and \
                    refmatch.ndump(got.body[0].value, False) == refmatch.ndump(nodes[0], False)
            else:
                ok = refmatch.ndump(got.body, False) == refmatch.ndump(nodes, False)
        if not ok and not bad_class and any(isinstance(m.get_ast(w), _NOPAREN) or _pykey(m.get_ast(w)) in cx.fstr_keys
                                            for w in pat.names):
            # a slice / starred argument bound by a wildcard that stands in parentheses in the pattern: the
            # text cannot be substituted there; judge on the trees instead
            binds = {w: m.get_ast(w) for w in pat.names}
            inst = refmatch._instantiate(pat, binds)
            ok = refmatch.ndump(inst if kind == "stmts" else inst[0], False) == \
                refmatch.ndump(nodes if kind == "stmts" else nodes[0], False)
        if not ok:
            res.violation(f"node-region-wrong|{bad_class}" if bad_class else f"sound|not-instance|{kind}",
                          "substituting the text of the bound regions for the wildcards does not give the matched code",
                          pattern=text, source=src, substituted=code, matched=src[reg[0]:reg[1]])
    # ---- requested region
    rk, (s, e) = choose_region(cx, ref, rnd)
    try:
        part = list(finder.get_matches(text, start=s, end=e))
    except Exception as ex:  # noqa: BLE001
        res.violation(_exc_key(ex, "region-call"), f"get_matches(start,end) raised "
                      f"{type(ex).__name__}", pattern=text, source=src, start=s, end=e)
        return ref, full, rk
    res.evals()
    want = {_ref_match_key(m) for m in ref if s <= m.region[0] and m.region[1] <= e}
    if len(want) < len(refkeys):
        res.ev("region_excludes_some_instance")
    got = {}
    for m in part:
        got.setdefault(_rope_match_key(m), m)
    for k, m in got.items():
        rm = refkeys.get(k)
        if rm is not None and k not in want:
            wrong = tuple(m.get_region()) != tuple(rm.region)
            cls = _region_culprit(cx, _boundary_node(m, rm)) if wrong else ""
            res.violation(f"node-region-wrong|{cls}" if wrong else f"region|outside-requested|{kind}", "a match that does not lie inside [start, end) "
                          "is reported", pattern=text, source=src, start=s, end=e, true_region=list(rm.region),
                          rope_region=list(m.get_region()))
    for k in want:
        if k not in got and k in ropekeys:
            res.violation(f"match|missing|{kind}|region=sub", "an instance inside the requested region is not reported "
                          "although it is reported for the whole module", pattern=text, source=src, start=s, end=e,
                          instance=list(refkeys[k].region))
    return ref, full, rk


def _boundary_node(rope_match, ref_match):
    """rope's node at the boundary of the match where its region departs from the text of the instance"""
    nodes = [rope_match.ast] if hasattr(rope_match, "ast") else rope_match.ast_list
    return nodes[0] if rope_match.get_region()[0] != ref_match.region[0] else nodes[-1]


def _same_modulo_parens(a, b):
    a, b = a.strip(), b.strip()
    for x, y in ((a, b), (b, a)):
        if x.startswith("(") and x.endswith(")") and x[1:-1].strip() == y:
            return True
    return False


def _exc_key(e, label):
    """One key per mechanism: a node without region raises at whichever place first asks for it."""
    if isinstance(e, AttributeError) and "has no attribute 'region'" in str(e):
        return f"exc|node-without-region|{label}"
    return f"exc|{core.exc_sig(e)}|{label}"


def _has_fstring(text):
    import io
    import tokenize
    try:
        code = refmatch.WILD_RE.sub("w", text)
        return any(t.type == tokenize.FSTRING_START for t in tokenize.generate_tokens(io.StringIO(code).readline))
    except (tokenize.TokenError, SyntaxError, IndentationError):
        return False


def _fstring_piece_hit(cx, ref):
    """Which kind of node of an instance has no region in rope's annotated tree?  The first one in rope's
    traversal order (classification of an escaped AttributeError only, not an oracle)."""
    mine = {}
    for m in ref:
        for n in list(m.nodes) + [b for bs in m.bindings.values() for b in bs]:
            for d in ast.walk(n):
                if hasattr(d, "lineno"):
                    mine.setdefault(_pykey(d), d)

    def pre(n):
        yield n
        for c in ast.iter_child_nodes(n):
            yield from pre(c)

    try:
        for n in pre(cx.rope_tree):
            if isinstance(n, (ast.expr, ast.stmt)) and not hasattr(n, "region") and _pykey(n) in mine:
                k = id(mine[_pykey(n)])
                return ("fstring-piece" if k in cx.in_fstr else "arg-annotation" if k in cx.in_argann else
                        "kwonly-default" if k in cx.in_kwdef else "returns-annotation" if k in cx.in_returns
                        else "classdef-keyword" if k in cx.in_classkw else "other-unregioned")
    except Exception:  # noqa: BLE001
        pass
    return "plain"


def choose_region(cx, ref, rnd):
    n = len(cx.source)
    k = rnd.random()
    if k < 0.2 or not ref:
        return "full", (0, n)
    m = rnd.choice(ref)
    if k < 0.4:
        return "exact", m.region
    if k < 0.5:
        return "cut-start", (m.region[0] + 1, n)
    if k < 0.6:
        return "cut-end", (0, m.region[1] - 1)
    if k < 0.85:
        stmts = [x for x in ast.walk(cx.tree) if isinstance(x, ast.stmt)]
        st = rnd.choice(stmts)
        return "statement", cx.offs.region(st)
    a, b = sorted([rnd.randrange(n + 1), rnd.randrange(n + 1)])
    return "random", (a, b)


# ------------------------------------------------------------------------------------------ restructuring clauses
def _elif_nodes(cx):
    out = set()
    for n in ast.walk(cx.tree):
        if isinstance(n, ast.If) and cx.offs.text(n).startswith("elif"):
            out.add(id(n))
    return out


def _prec_class(node):
    """coarse class of an expression for coverage: does it need parentheses in some operand position?"""
    return isinstance(node, (ast.BinOp, ast.BoolOp, ast.Compare, ast.UnaryOp, ast.IfExp, ast.Lambda, ast.Tuple,
                             ast.NamedExpr, ast.Yield, ast.YieldFrom, ast.Await, ast.GeneratorExp, ast.Starred))


_ATOMIC = (ast.Name, ast.Attribute, ast.Subscript, ast.Call, ast.List, ast.Dict, ast.Set, ast.ListComp,
           ast.SetComp, ast.DictComp, ast.JoinedStr)


def _wrap(node, text):
    """text of a bound node made safe for insertion at the place of a wildcard (an atom)"""
    if isinstance(node, _NOPAREN) or isinstance(node, ast.Name):
        return text
    return "(" + text + ")"


def _region_culprit(cx, node):
    """Class of the innermost node below `node` (a node of rope's annotated tree) whose region is not its
    text: the same wrong literal shows in every enclosing node, the key names where it starts."""
    best = None
    for d in ast.walk(node):
        if not isinstance(d, (ast.expr, ast.stmt)) or not hasattr(d, "region") or not hasattr(d, "end_lineno"):
            continue
        want = (cx.offs.at(d.lineno, d.col_offset), cx.offs.at(d.end_lineno, d.end_col_offset))
        got = tuple(d.region)
        if got != want and not _same_modulo_parens(cx.source[got[0]:got[1]], cx.source[want[0]:want[1]]):
            if best is None or (want[1] - want[0]) < best[0]:
                label = type(d).__name__
                if isinstance(d, ast.Constant):
                    label += "-" + ("number" if isinstance(d.value, (int, float, complex)) and
                                    not isinstance(d.value, bool) else type(d.value).__name__)
                best = (want[1] - want[0], label)
    return best[1] if best else type(node).__name__


def _auto_indent(src, pos, text):
    ls = src.rfind("\n", 0, pos) + 1
    line = src[ls:src.find("\n", ls) if "\n" in src[ls:] else len(src)]
    ind = len(line) - len(line.lstrip(" "))
    lines = text.splitlines(True)
    return "".join((" " * ind + ln if i and ln.strip() else ln) for i, ln in enumerate(lines))


def _str_consts(tree):
    out = {}
    for c in ast.walk(tree):
        if isinstance(c, ast.Constant) and isinstance(c.value, (str, bytes)) and \
                (chr(10) in c.value if isinstance(c.value, str) else b"\n" in c.value):
            out[repr(c.value)] = out.get(repr(c.value), 0) + 1
    return out


def causes_of(cx, pat, goal, goal_text, ref, full, strict, new_tree, expected):
    """Mechanisms (finite alphabet) that explain a wrong restructuring of these instances.  Every cause is
    established by a counterfactual on the instance itself, not by the mere presence of a feature."""
    src, offs = cx.source, cx.offs
    flat = not strict
    out = set()
    ropebykey = {_rope_match_key(m): m for m in (full or [])}
    for m in ref:
        # (h) the instance does not start its line (`while c: x = 1`): the goal's further lines are indented
        # like the line, not like the statement
        if m.kind == "stmts" and "\n" in goal_text.strip("\n"):
            ls = src.rfind("\n", 0, m.region[0]) + 1
            if src[ls:m.region[0]].strip():
                out.add("instance-not-at-line-start")
        # (c) the instance is the `elif` arm of a chain: replacing its text cuts the chain
        if m.kind == "stmts" and id(m.nodes[0]) in cx.elifs:
            out.add("elif-instance")
        # (f) the region rope reports for a bound node is not the node's text
        rm = ropebykey.get(_ref_match_key(m))
        if rm is not None:
            rr = tuple(rm.get_region())
            if rr != tuple(m.region) and not (m.kind == "expr" and _same_modulo_parens(
                    src[rr[0]:rr[1]], src[m.region[0]:m.region[1]])):
                out.add("node-region-wrong|" + _region_culprit(cx, _boundary_node(rm, m)))
            for w in goal.names:
                node = rm.get_ast(w)
                if node is not None and hasattr(node, "region"):
                    t = src[node.region[0]:node.region[1]]
                    if t != offs.text(node) and not _same_modulo_parens(t, offs.text(node)):
                        out.add("node-region-wrong|" + _region_culprit(cx, node))
        # (a)/(b) text model of this instance alone (instances nested in its bindings taken as correctly
        # rewritten): goal with the bound texts put at the place of the instance, continuation lines
        # indented like rope does; which parentheses would have repaired it?
        s, e = m.region
        sub = [x for x in ref if s <= x.region[0] and x.region[1] <= e]
        rw = refmatch.Rewriter(sub, goal)

        def inst_text(x):
            def one(mo):
                b = x.first(mo.group(1))
                return raw_of(offs.region(b), x if (x.kind == "expr" and b is x.nodes[0]) else None)
            return refmatch.WILD_RE.sub(one, goal_text)

        def raw_of(reg, exclude):
            """text of a region in which the instances nested in it are replaced the way plain text
            substitution does it (no parentheses added anywhere)"""
            a, z = reg
            inner = [x for x in sub if x is not exclude and x is not m and a <= x.region[0] and x.region[1] <= z]
            outer = [x for x in inner if not any(y is not x and y.region != x.region and
                                                 y.region[0] <= x.region[0] and x.region[1] <= y.region[1]
                                                 for y in inner)]
            pieces, pos = [], a
            for x in sorted(outer, key=lambda x: x.region):
                if x.region[0] < pos:
                    continue
                pieces += [src[pos:x.region[0]], inst_text(x)]
                pos = x.region[1]
            pieces.append(src[pos:z])
            return "".join(pieces)

        texts, safe = {}, {}
        for w in goal.names:
            b = m.first(w)
            texts[w] = raw_of(offs.region(b), None)
            is_inst = any(x is not m and x.kind == "expr" and x.nodes[0] is b for x in sub)
            safe[w] = "(" + texts[w] + ")" if is_inst and not isinstance(b, _NOPAREN) else _wrap(b, texts[w])
        raw = refmatch.WILD_RE.sub(lambda mo: texts[mo.group(1)], goal_text)
        wrapped = refmatch.WILD_RE.sub(lambda mo: safe[mo.group(1)], goal_text)
        want = refmatch.ndump(rw.rewrite(cx.tree), flat)

        def ok(piece):
            got = _parse_or_none(src[:s] + _auto_indent(src, s, piece) + src[e:])
            return got is not None and refmatch.ndump(got, flat) == want

        if ok(raw):
            continue
        if ok(wrapped):
            out.add("binding-needs-parens")
        elif m.kind == "expr" and goal.kind == "expr":
            if ok("(" + raw + ")"):
                out.add("replacement-needs-parens")
            elif ok("(" + wrapped + ")"):
                out.add("binding-needs-parens")
                out.add("replacement-needs-parens")
    # (g) continuation lines of the replacement are re-indented, also inside a multi-line string token
    if expected is not None:
        want = _str_consts(expected)
        if want:
            if new_tree is not None:
                have = _str_consts(new_tree)
                if any(have.get(k, 0) < n for k, n in want.items()):
                    out.add("multiline-string-reindented")
            elif not out:
                out.add("multiline-string-reindented")
    # (d) statement instances are rewritten in traversal order, not text order: an instance that starts before
    # the end of one rewritten earlier in that order is left alone.  Established by the counterfactual "the
    # result is exactly the module with those instances left alone".
    if pat.kind == "stmts" and full and not strict and new_tree is not None:
        last_end = -1
        done, skipped = [], set()
        for m in full:
            s, e = m.get_region()
            if s < last_end:
                if not any(s < de and e > ds for ds, de in done):
                    skipped.add(_rope_match_key(m))
                continue
            last_end = e
            done.append((s, e))
        if skipped:
            kept = [m for m in ref if _ref_match_key(m) not in skipped]
            alt = refmatch.Rewriter(kept, goal).rewrite(cx.tree)
            if refmatch.ndump(alt, flat) == refmatch.ndump(new_tree, flat):
                return {"stmt-instance-skipped-by-order"}
    return out


def check_restructure(res, cx, p, gkind, goal_text, ref, full, via):
    """via = 'Restructure' | 'replace'"""
    from rope.refactor import restructure
    pat, text, src = p["pat"], p["text"], cx.source
    kind = pat.kind
    try:
        goal = refmatch.Pattern(goal_text, avoid=src)
    except refmatch.PatternError:
        res.ev("discarded_goal_unparsable")
        return
    if goal.kind != kind and not (kind == "stmts" and goal.kind == "expr"):
        res.ev("discarded_goal_category")
        return
    if set(goal.names) - set(pat.names):
        raise AssertionError("goal uses unknown wildcard")
    identity = gkind == "identity"
    overlap = kind == "stmts" and refmatch.overlapping(ref)
    for m in ref:
        safe = {w: _wrap(m.first(w), cx.offs.text(m.first(w))) for w in goal.names}
        gt = refmatch.WILD_RE.sub(lambda mo: safe[mo.group(1)], goal_text)
        inst = refmatch.instantiate_one(goal, m)
        if goal.kind == "expr":
            g2 = _parse_expr(gt)
            fine = g2 is not None and refmatch.ndump(g2, False) == refmatch.ndump(inst[0], False)
        else:
            g2 = _parse_or_none(gt)
            fine = g2 is not None and refmatch.ndump(g2.body, False) == refmatch.ndump(inst, False)
        if not fine:
            # e.g. a wildcard bound to a slice or a starred argument used where only an expression can stand
            res.ev("discarded_goal_text_meaningless_for_binding")
            return
    expected = None
    if not overlap:
        try:
            exp_tree = refmatch.Rewriter(ref, goal).rewrite(cx.tree)
            exp_src = ast.unparse(ast.fix_missing_locations(exp_tree))
            compile(exp_src, "<expected>", "exec", dont_inherit=True)
            if refmatch.ndump(ast.parse(exp_src), False) != refmatch.ndump(exp_tree, False):
                # the tree-level result is not a tree Python's parser can produce (e.g. an operator applied
                # to a slice): the goal is not meaningful at some instance
                raise ValueError("not a Python tree")
            expected = exp_tree
        except (SyntaxError, ValueError, RecursionError):
            res.ev("discarded_goal_invalid_at_some_instance")
            return
    # ---- run rope
    try:
        if via == "replace":
            new = restructure.replace(src, text, goal_text)
        else:
            changes = restructure.Restructure(cx.project, text, goal_text).get_changes(resources=[cx.resource])
            new = src
            for c in changes.changes:
                new = c.new_contents
    except Exception as e:  # noqa: BLE001
        fs = _fstring_piece_hit(cx, ref)
        res.violation(_exc_key(e, fs), f"{via} raised {type(e).__name__}: {str(e)[:120]}",
                      pattern=text, goal=goal_text, source=src, where=core.exc_sig(e))
        return
    res.evals()
    nested = any(a is not b and a.region[0] <= b.region[0] and b.region[1] <= a.region[1] for a in ref for b in ref)
    ml = any(m.nodes[0].lineno != m.nodes[-1].end_lineno for m in ref)
    feat = f"nested={int(nested)}|ml={int(ml)}"
    detail = dict(pattern=text, goal=goal_text, source=src, result=new)
    # ---- everything else untouched
    segs = refmatch.outside_segments(src, [m.region for m in ref])
    if not refmatch.decomposes(new, segs):
        res.violation(f"restructure|outside-changed|{kind}",
                      "text outside the instances of the pattern was changed", **detail)
    res.ev("outside_text_checked")
    if overlap:
        res.ev("overlapping_windows_tree_not_demanded")
        return
    # ---- replace() is a no-op for expression patterns?
    strict = identity
    new_tree = _parse_or_none(new)
    if identity:
        res.ev("identity_goal_checked")
        good = new_tree is not None and ast.dump(new_tree) == ast.dump(cx.tree)
        clause = "identity-tree-changed"
        what = "goal == pattern changed the module's syntax tree"
    else:
        res.ev("restructure_tree_compared")
        try:
            good = new_tree is not None and refmatch.ndump(new_tree) == refmatch.ndump(expected)
        except RecursionError:
            res.ev("restructure_tree_too_deep_to_compare")
            return
        clause = "meaning-changed"
        what = "the restructured module is not the module with every instance replaced by the goal (tree level)"
    if via == "replace":
        res.ev("replace_function_checked")
    if good:
        res.outcome("rewritten-as-expected" if new != src else "unchanged-as-expected")
        return
    if new_tree is None:
        clause = "unparsable"
        what = "the restructured module is not valid Python"
    if via == "replace" and kind == "expr" and new == src and ref:
        res.violation("restructure|replace|expr|no-op", "restructure.replace() leaves every instance of an "
                      "expression pattern unreplaced", **detail)
        return
    cs = causes_of(cx, pat, goal, goal_text, ref, full, strict, new_tree, cx.tree if identity else expected)
    if "${" in new and "${" not in src:
        cs = {"wildcard-left-in-output|goal-contains-fstring" if _has_fstring(goal_text)
              else "wildcard-left-in-output|plain"}
    if not cs:
        cs = {f"unexplained|{kind}|nested={int(nested)}"}
    for c in sorted(cs):
        key = c if c.startswith("node-region-wrong") else "restructure|" + c
        res.violation(key, what + " [" + c + "]", clause=clause, via=via, kind=kind, features=feat, **detail,
                      expected=_safe_unparse(expected))


def _safe_unparse(tree):
    try:
        return ast.unparse(tree)
    except Exception:  # noqa: BLE001
        return None


# ------------------------------------------------------------------------------------------ the case
def setup_worker():
    import warnings
    warnings.simplefilter("ignore")


def run_case(spec):
    import warnings
    from rope.base.project import Project
    from rope.refactor import similarfinder
    res = core.Result()
    rnd = core.rng(spec)
    src = None
    if spec.get("file"):
        src = corpus_module(spec["file"], rnd)
        if src is not None:
            res.ev("corpus_modules")
    if src is None:
        src = gen_module(rnd)
        res.ev("generated_modules")
    cx = Ctx()
    cx.source = src
    cx.tree = ast.parse(src)
    cx.offs = refmatch.Offsets(src, cx.tree)
    cx.in_fstr = _inside_fstring(cx.tree)
    cx.fstr_keys = {_pykey(n) for n in ast.walk(cx.tree) if id(n) in cx.in_fstr and hasattr(n, "lineno")}
    cx.elifs = _elif_nodes(cx)
    cx.in_returns = {id(d) for n in ast.walk(cx.tree) if isinstance(n, (ast.FunctionDef, ast.AsyncFunctionDef))
                     and n.returns is not None for d in ast.walk(n.returns)}
    cx.in_classkw = {id(d) for n in ast.walk(cx.tree) if isinstance(n, ast.ClassDef)
                     for k in n.keywords for d in ast.walk(k.value)}
    cx.in_kwdef = {id(d) for n in ast.walk(cx.tree) if isinstance(n, ast.arguments)
                   for k in n.kw_defaults if k is not None for d in ast.walk(k)}
    cx.in_argann = {id(d) for n in ast.walk(cx.tree) if isinstance(n, ast.arg) and n.annotation is not None
                    for d in ast.walk(n.annotation)}
    warnings.simplefilter("ignore")
    with core.Scratch() as tmp:
        project = Project(tmp, ropefolder=None, automatic_soa=False, save_history=False, save_objectdb=False)
        try:
            cx.project = project
            cx.resource = project.root.create_file("m.py")
            cx.resource.write(src)
            try:
                pymodule = project.get_pymodule(cx.resource)
                cx.rope_tree = pymodule.get_ast()
                cx.finder = similarfinder.SimilarFinder(pymodule)
            except Exception as e:  # noqa: BLE001
                res.evals()
                res.violation(f"exc|finder-init|{core.exc_sig(e)}", f"SimilarFinder(pymodule) raised "
                              f"{type(e).__name__}: {str(e)[:120]} on a compilable module", source=src)
                return res
            raw = []

            def raw_finder():
                if not raw:
                    raw.append(similarfinder.RawSimilarFinder(src))
                return raw[0]

            cx.raw_finder = raw_finder
            made = 0
            sample = []
            for attempt in range(NPAT * 6):
                if made >= NPAT:
                    break
                p = make_pattern(cx, rnd)
                if p is None:
                    res.ev("pattern_candidates_discarded")
                    continue
                made += 1
                _one_pattern(res, cx, p, rnd, sample)
            res.sample({"source": src, "patterns": sample[:3]})
        finally:
            project.close()
    return res


def _one_pattern(res, cx, p, rnd, sample):
    pat = p["pat"]
    res.ev("patterns_checked")
    if p["mode"] == "lgg":
        res.ev("patterns_by_anti_unification")
    if pat.kind == "stmts":
        res.ev("stmt_patterns")
    if p["repeated"]:
        res.ev("repeated_wildcard_patterns")
    r = check_matching(res, cx, p, rnd)
    if r is None:
        return
    ref, full, rk = r
    if len(ref) >= 2:
        res.ev("multi_instance_patterns")
    nested = any(a is not b and a.region[0] <= b.region[0] and b.region[1] <= a.region[1] for a in ref for b in ref)
    if nested:
        res.ev("nested_instance_patterns")
    for m in ref:
        if pat.kind == "stmts" and id(m.nodes[0]) in cx.elifs:
            res.ev("elif_instances")
        for w in pat.names:
            b = m.first(w)
            if _prec_class(b):
                res.ev("binding_lower_precedence")
            if b.end_lineno > b.lineno:
                res.ev("multiline_binding")
    if p.get("sets_differ"):
        # the expectation for a restructuring is built on the instances; a wrong match set was reported above
        res.ev("restructure_skipped_match_sets_differ")
        return
    import re as _re
    if _re.fullmatch(r"\$\{\??\w+\}", p["text"].strip()):
        # a pattern that is nothing but one wildcard matches every expression of the module, including
        # positions where wrapping changes the node kind (`name: T` -> `(name): T`); not a pattern "abstracted
        # from the module" in the sense of the rule -- matched, but not restructured
        res.ev("restructure_skipped_bare_wildcard")
        return
    goals = make_goals(p, rnd)
    for gkind, gtext in goals:
        check_restructure(res, cx, p, gkind, gtext, ref, full, "Restructure")
    if rnd.random() < 0.35:
        gkind, gtext = rnd.choice(goals)
        check_restructure(res, cx, p, gkind, gtext, ref, full, "replace")
    if p["nwild"] >= 1:
        res.shape([pat.kind, p["root"], p["nwild"], p["repeated"], min(len(ref), 3), nested, rk,
                   sorted({g[0] for g in goals})])
    sample.append({"pattern": p["text"], "instances": len(ref), "region": rk, "goals": [g[1] for g in goals]})


if __name__ == "__main__":
    core.main(sys.modules[__name__])
