"""ast (lineno, utf-8 byte column) -> character offsets, and small ast helpers."""
import ast


class Pos:
    def __init__(self, src):
        self.src = src
        self.lines = src.split("\n")
        self.starts = [0]
        for l in self.lines[:-1]:
            self.starts.append(self.starts[-1] + len(l) + 1)

    def off(self, lineno, col):
        line = self.lines[lineno - 1]
        if col and not line.isascii():
            col = len(line.encode("utf-8")[:col].decode("utf-8"))
        return self.starts[lineno - 1] + col

    def span(self, node):
        """(start, end) character offsets of a node with positions; decorators included for defs."""
        ln, col = node.lineno, node.col_offset
        decs = getattr(node, "decorator_list", None)
        if decs:
            d = decs[0]
            ln, col = d.lineno, d.col_offset - 1  # the '@'
            line = self.lines[ln - 1]
            col = line.index("@")
        return self.off(ln, col), self.off(node.end_lineno, node.end_col_offset)

    def line_of(self, offset):
        import bisect
        return bisect.bisect_right(self.starts, offset)


def set_parents(tree):
    for node in ast.walk(tree):
        for ch in ast.iter_child_nodes(node):
            ch._parent = node
    tree._parent = None
    return tree


def ancestors(node):
    n = getattr(node, "_parent", None)
    while n is not None:
        yield n
        n = getattr(n, "_parent", None)


def bodies(node):
    """All statement lists directly owned by `node`."""
    for name in ("body", "orelse", "finalbody"):
        b = getattr(node, name, None)
        if isinstance(b, list) and b and isinstance(b[0], ast.stmt):
            yield name, b
    for h in getattr(node, "handlers", []) or []:
        yield "handler", h.body
    for c in getattr(node, "cases", []) or []:
        yield "case", c.body
