"""sys.addaudithook-based write tracer scoped to watched directory roots.

    from vlib import audit
    with audit.watch([root]) as events:
        ... code under observation ...
    events -> [Event(op, path, path2, detail)], only operations whose path lies under a watched root

Audit hooks cannot be removed, so ONE hook is installed per process on first use; `watch` only switches
recording on and off (nesting allowed; every active watcher gets the events under its own roots).

Recorded operations (op names):
  open-w      open()/os.open() in a writing mode (w, a, x, +  /  O_WRONLY|O_RDWR|O_APPEND|O_CREAT|O_TRUNC)
  rename      os.rename / os.replace            (path = src, path2 = dst; recorded if either is watched)
  remove      os.remove / os.unlink
  mkdir rmdir truncate utime chmod link symlink
  shutil.move shutil.rmtree shutil.copyfile shutil.copymode shutil.copystat shutil.copytree
"""
import os
import sys
import threading
from collections import namedtuple

Event = namedtuple("Event", "op path path2 detail")

_installed = False
_lock = threading.Lock()
_active = []          # list of _Watch
_busy = threading.local()

_WRITE_FLAGS = os.O_WRONLY | os.O_RDWR | os.O_APPEND | os.O_CREAT | os.O_TRUNC

_SIMPLE = {
    "os.remove": "remove", "os.mkdir": "mkdir", "os.rmdir": "rmdir", "os.truncate": "truncate",
    "os.utime": "utime", "os.chmod": "chmod", "shutil.rmtree": "shutil.rmtree",
}
_PAIR = {
    "os.rename": "rename", "os.link": "link", "os.symlink": "symlink", "shutil.move": "shutil.move",
    "shutil.copyfile": "shutil.copyfile", "shutil.copymode": "shutil.copymode",
    "shutil.copystat": "shutil.copystat", "shutil.copytree": "shutil.copytree",
}


def _norm(p):
    """Absolute, normalised str path, or None if `p` is not a path (fd, None)."""
    if p is None or isinstance(p, int):
        return None
    try:
        p = os.fspath(p)
    except TypeError:
        return None
    if isinstance(p, bytes):
        p = os.fsdecode(p)
    return os.path.abspath(p)


class _Watch:
    def __init__(self, roots):
        self.roots = [os.path.realpath(r) for r in roots]
        self.prefixes = [r.rstrip(os.sep) + os.sep for r in self.roots]
        self.events = []
        self.seen = 0          # audit events looked at while active (monitor liveness)

    def covers(self, p):
        return p is not None and (p in self.roots or any(p.startswith(x) for x in self.prefixes))

    def rel(self, p):
        for r, x in zip(self.roots, self.prefixes):
            if p == r:
                return ""
            if p.startswith(x):
                return p[len(x):]
        return p


def _is_write_open(mode, flags):
    if isinstance(mode, str):
        return any(c in mode for c in "wax+")
    if isinstance(flags, int):
        return bool(flags & _WRITE_FLAGS)
    return False


def _hook(event, args):
    if not _active or getattr(_busy, "on", False):
        return
    if event != "open" and event not in _SIMPLE and event not in _PAIR:
        return
    _busy.on = True
    try:
        if event == "open":
            path, mode, flags = (tuple(args) + (None, None, None))[:3]
            if not _is_write_open(mode, flags):
                return
            rec = ("open-w", _norm(path), None, mode if isinstance(mode, str) else "flags=%s" % flags)
        elif event in _SIMPLE:
            rec = (_SIMPLE[event], _norm(args[0]), None, None)
        else:
            rec = (_PAIR[event], _norm(args[0]), _norm(args[1]) if len(args) > 1 else None, None)
        for w in list(_active):
            w.seen += 1
            if w.covers(rec[1]) or w.covers(rec[2]):
                w.events.append(Event(*rec))
    except Exception:   # a monitor must never change the behaviour of the code under test
        pass
    finally:
        _busy.on = False


def install():
    global _installed
    with _lock:
        if not _installed:
            sys.addaudithook(_hook)
            _installed = True


class watch:
    """Context manager: records write-type events under `roots` while active."""

    def __init__(self, roots):
        self.w = _Watch(roots)

    def __enter__(self):
        install()
        _active.append(self.w)
        return self.w.events

    def __exit__(self, *exc):
        try:
            _active.remove(self.w)
        except ValueError:
            pass
        return False

    @property
    def events(self):
        return self.w.events

    def rel(self, p):
        return self.w.rel(p)


def written_paths(events, root=None):
    """Set of paths (relative to root if given) that were opened for writing, created, removed,
    renamed from/to, truncated or copied onto."""
    out = set()
    rootp = os.path.realpath(root).rstrip(os.sep) + os.sep if root else None
    for e in events:
        for p in (e.path, e.path2):
            if p is None:
                continue
            if rootp:
                if not p.startswith(rootp):
                    continue
                p = p[len(rootp):]
            out.add(p)
    return out


def self_test(scratch_dir):
    """Returns True iff the tracer sees a write, a rename and a remove under scratch_dir and nothing
    of a write elsewhere / a read inside.  Used by checks to prove the monitor is alive."""
    a = os.path.join(scratch_dir, "audit-selftest-a")
    b = os.path.join(scratch_dir, "audit-selftest-b")
    with watch([scratch_dir]) as ev:
        with open(a, "w") as f:
            f.write("x")
        with open(a) as f:
            f.read()
        os.replace(a, b)
        os.remove(b)
        with open(os.devnull, "w") as f:
            f.write("x")
    ops = [(e.op, os.path.basename(e.path)) for e in ev]
    return ops == [("open-w", "audit-selftest-a"), ("rename", "audit-selftest-a"),
                   ("remove", "audit-selftest-b")]
