"""C14 - rope's view of source text agrees with Python's tokenizer.

Differential check of rope's hand-written text scanners against the interpreter's own tokenizer / parser on
real code and on validity-preserving layout mutations of it.  For every source text:

 (a) simplify.ignored_regions(text)        == spans of STRING / outermost FSTRING_START..FSTRING_END / COMMENT tokens
 (b) simplify.real_code(text)              same length; outside those spans every character is unchanged or is
                                           one of the documented whitespace substitutions (tab, ';', backslash-newline,
                                           newline inside brackets)
 (c) SourceLinesAdapter                    offset<->line conversions mutually inverse for every line and every offset
 (d) logical lines                         for every physical line inside a statement (extent = first token ..
                                           NEWLINE token): LogicalLineFinder.logical_line_in, the caching finder
                                           PyModule.logical_lines (custom scanner) and the caching finder over
                                           LogicalLineFinder.generate_regions all return the statement's extent
 (e) Worder                                at every offset of every NAME token get_word_at / get_word_range give the
                                           token; at every offset of every identifier of a pure dotted chain (ast
                                           Name / Attribute-of-chain) get_primary_range / get_primary_at give the
                                           chain up to that identifier
"""
import sys

from vlib import core

ID = "C14"
READY = True
LEVEL = "exploration"
RULE = ("one case = one source text (a corpus file of the 3.12 stdlib / rope / ropetest, a run of top-level statements "
        "cut from one, or a construct-rich seed snippet; fuzz cases apply 4-40 validity-preserving layout mutations "
        "checked by compile()+ast.dump); every region, every offset, every line of a statement and every offset of "
        "every NAME token is judged; non-trivial = the text has a string or f-string, a comment, a statement spanning "
        "several lines and a dotted chain; distinct = set of (string prefix class, quote style) pairs present + kinds "
        "of continuation lines (string, bracket, backslash) + layout flags (semicolon, tab, form feed, non-ASCII "
        "identifier, f-string reusing its own quote, nested f-string, multi-line replacement field, comment in field, "
        "chain separators) + the mutation kinds applied")
ASSUMPTIONS = ["texts are what rope's own file reader hands to the scanners: decoded, LF line ends (CRLF variants are "
               "passed through fscommands.file_data_to_unicode first)",
               "valid source = accepted by compile() of the running 3.12 interpreter",
               "dotted expression = chain of identifiers joined by '.' (ast Name/Attribute); primaries with calls, "
               "subscripts or literals as head are not judged"]
BUDGET = {"quick": (2500, 240), "thorough": (40000, 900)}
EXHAUSTIVE = {}
REQUIRE = {"texts_checked": 300, "regions_expected": 20000, "fstrings": 300, "fstring_own_quote": 20,
           "comments": 5000, "lines_in_string": 1000, "lines_in_bracket": 2000, "lines_after_backslash": 100,
           "semicolons": 100, "tabs": 100, "nonascii_identifier_tokens": 50, "offsets_line_inverse": 1000000,
           "llf_lines": 20000, "cache_custom_lines": 20000, "cache_tokenizer_lines": 20000,
           "pymodule_finder_used": 300, "word_offsets": 200000, "primary_offsets": 30000, "chains": 5000,
           "chains_with_separator": 50, "realcode_chars_outside_regions": 1000000,
           "prefix_class_plain": 50, "prefix_class_r": 20, "prefix_class_b": 20, "prefix_class_br": 5,
           "prefix_class_u": 2, "prefix_class_f": 50, "prefix_class_fr": 3, "fuzz_variants": 100}
TECHNIQUE = ("differential testing of rope's regex / character scanners against the interpreter's tokenize and ast "
             "modules at every region, offset, line and identifier of real-code corpus files and of "
             "validity-preserving layout mutations of them")
LEVEL_TEXT = ("Each text of the workload is scanned by the real rope code and by the interpreter's tokenizer/parser; "
              "the five clauses are compared exhaustively inside a text (every region, offset, statement line, "
              "identifier offset). Texts are sampled: corpus files plus mutated variants. Held = no disagreement.")
LEVEL_NOTE = ("sampled over texts, exhaustive within a text except LogicalLineFinder.logical_line_in, which is cut off "
              "by a deterministic work bound (lines read) on very large files; inside string/comment regions real_code "
              "is not constrained; primaries whose head is not an identifier are not judged; only 3.12 syntax")
DESIGN_REF = "DESIGN.md section 5, C14"
CASE_TIMEOUT = 240

QUICK_FILES, QUICK_FUZZ = 400, 2000
LLF_WORK = {"quick": 1_500_000, "thorough": 4_000_000}   # bound on lines read by LogicalLineFinder per text
MAX_KEYS_PER_CLAUSE = 6
PEP701_FLAGS = ("own-quote", "multiline-field", "comment-in-field")


# --------------------------------------------------------------------------- workload
def cases(tier, seed):
    from vlib import corpus, layoutfuzz
    import random
    nseeds = len(layoutfuzz.SEED_SNIPPETS)
    allp = corpus.select(seed, None)
    rnd = random.Random(f"{seed}/C14/cases")

    def fuzz(i):
        r = rnd.random()
        if r < 0.22:
            return {"mode": "fuzz-seed", "idx": i % nseeds, "seed": f"{seed}/C14/{i}"}
        if r < 0.9:
            return {"mode": "fuzz-snippet", "path": rnd.choice(allp), "seed": f"{seed}/C14/{i}"}
        return {"mode": "fuzz-file", "path": rnd.choice(allp), "seed": f"{seed}/C14/{i}", "max_bytes": 60000}

    for j in range(nseeds):
        yield {"mode": "seed", "idx": j}
    # the anchor files themselves and a deterministic sample / the whole corpus
    anchors = [p for p in allp if p.endswith(("rope/base/simplify.py", "rope/base/codeanalyze.py",
                                              "rope/base/worder.py"))]
    files = anchors + [p for p in allp if p not in anchors]
    if tier == "quick":
        files = files[:QUICK_FILES]
        nfuzz = QUICK_FUZZ
    else:
        nfuzz = 10 ** 9
    i = fi = 0
    while fi < len(files) or i < nfuzz:
        for _ in range(2):
            if fi < len(files):
                yield {"mode": "file", "path": files[fi]}
                fi += 1
        for _ in range(6 if tier == "quick" else 8):
            if i < nfuzz:
                yield fuzz(i)
                i += 1


_PROJECT = None


def setup_worker():
    global _PROJECT
    sys.setrecursionlimit(5000)
    from rope.base.project import Project
    root = core.mkscratch("c14-project-")
    _PROJECT = Project(root, ropefolder=None, automatic_soa=False, save_history=False, save_objectdb=False)


def _build_text(spec, res):
    """-> (text, tags) or (None, reason)"""
    from vlib import corpus, layoutfuzz
    mode = spec["mode"]
    if mode == "seed":
        return layoutfuzz.SEED_SNIPPETS[spec["idx"]], ["seed"]
    if mode == "file":
        t = corpus.load(spec["path"])
        return (t, ["file"]) if t is not None else (None, "uncompilable")
    rnd = core.rng(spec)
    if mode == "fuzz-seed":
        base = layoutfuzz.SEED_SNIPPETS[spec["idx"]]
    else:
        t = corpus.load(spec["path"])
        if t is None:
            return None, "uncompilable"
        if mode == "fuzz-snippet":
            base = corpus.snippet(t, rnd, 3, rnd.choice([20, 40, 80]))
            if base is None:
                return None, "no-snippet"
        else:
            if len(t) > spec.get("max_bytes", 1 << 30):
                base = corpus.snippet(t, rnd, 50, 400)
                if base is None:
                    return None, "no-snippet"
            else:
                base = t
    kinds = layoutfuzz.ALL_KINDS if rnd.random() < 0.6 else layoutfuzz.DEFAULT_KINDS
    if rnd.random() < 0.25:  # concentrate on the string machinery
        kinds = ("string", "concat", "fstring", "comment", "backslash")
    n = rnd.choice([4, 8, 8, 16, 16, 40])
    crlf = rnd.random() < 0.08
    m = layoutfuzz.mutate_ex(base, rnd, n, kinds=kinds, crlf=crlf)
    if m is None:
        return None, "no-mutation"
    text = m.text
    if "\r" in text:
        # rope's view of a CRLF file: what its reader returns
        from rope.base import fscommands
        text, _nl = fscommands.file_data_to_unicode(text.encode("utf-8"))
        res.ev("crlf_variants")
    return text, sorted(set(m.applied))


def run_case(spec):
    import warnings
    res = core.Result()
    with warnings.catch_warnings():
        warnings.simplefilter("ignore")
        text, tags = _build_text(spec, res)
        if text is None:
            res.outcome("skipped-" + tags)
            res.ev("skipped_" + tags.replace("-", "_"))
            return res
        if spec["mode"].startswith("fuzz"):
            res.ev("fuzz_variants")
        check_text(text, res, tags, tier=_tier())
    return res


def _tier():
    import os
    return os.environ.get("VERIF_TIER", "quick")


# --------------------------------------------------------------------------- oracle view of a text
class View:
    """What the interpreter's tokenizer and parser say about `text`."""

    def __init__(self, text):
        import ast
        import tokenize as T
        from bisect import bisect_right
        from vlib import layoutfuzz
        self.text = text
        self.toks = toks = layoutfuzz.tokens(text)
        self.ls = layoutfuzz.line_starts(text)
        self.nlines = len(self.ls)
        self.tree = ast.parse(text)
        self._bisect = bisect_right
        # ---- regions
        regions = []
        fstart = None
        inner = []
        for t in toks:
            if t.fdepth == 0:
                if t.type == T.STRING:
                    regions.append((t.start, t.end, "STRING", _string_feature(t.string)))
                elif t.type == T.COMMENT:
                    regions.append((t.start, t.end, "COMMENT", _comment_feature(t.string)))
                elif t.type == T.FSTRING_START:
                    fstart = t
                    inner = []
            else:
                if t.type == T.FSTRING_END and t.fdepth == 1:
                    regions.append((fstart.start, t.end, "FSTRING",
                                    _fstring_feature(text[fstart.start:t.end], fstart.string, inner)))
                    fstart = None
                else:
                    inner.append(t)
        self.regions = regions
        self.rstarts = [r[0] for r in regions]
        # ---- newline classes
        nlclass = {}
        for t in toks:
            if t.type == T.NEWLINE and t.string:
                nlclass[t.start] = "stmt"
            elif t.type == T.NL and t.string:
                nlclass[t.start] = "bracket" if t.pdepth > 0 else "blank"
        self.nlclass = nlclass
        # ---- statements (logical lines)
        stmts = []
        first = None
        for t in toks:
            if t.type == T.NEWLINE:
                if first is not None:
                    stmts.append((first, t.srow))
                first = None
            elif first is None and t.type not in (T.NL, T.COMMENT, T.INDENT, T.DEDENT, T.ENDMARKER):
                first = t.srow
        self.stmts = stmts

    def region_at(self, off):
        i = self._bisect(self.rstarts, off) - 1
        if i >= 0 and self.regions[i][0] <= off < self.regions[i][1]:
            return self.regions[i]
        return None

    def line_ctx(self, lineno):
        """how physical line `lineno` (>= 2) continues the previous one: string | bracket | backslash | none"""
        nl = self.ls[lineno - 1] - 1
        if self.region_at(nl) is not None:
            return "string"
        c = self.nlclass.get(nl)
        if c == "bracket":
            return "bracket"
        if c is None:
            return "backslash"
        return "none"

    def excerpt(self, s, e, pad=30):
        a, b = max(0, s - pad), min(len(self.text), e + pad)
        return self.text[a:b]


def _split_prefix(s):
    i = 0
    while i < len(s) and s[i] not in "'\"":
        i += 1
    q = s[i:i + 3] if s[i:i + 3] in ("'''", '"""') else s[i:i + 1]
    return s[:i], q


def _prefix_class(prefix):
    p = "".join(sorted(prefix.lower()))
    return {"": "plain", "r": "r", "b": "b", "br": "br", "u": "u", "f": "f", "fr": "fr"}.get(p, p)


def _has_unescaped(body, needle):
    i = body.find(needle)
    while i >= 0:
        k = i
        n = 0
        while k > 0 and body[k - 1] == "\\":
            n += 1
            k -= 1
        if n % 2 == 0:
            return True
        i = body.find(needle, i + 1)
    return False


def _string_feature(s):
    prefix, q = _split_prefix(s)
    body = s[len(prefix) + len(q):len(s) - len(q)]
    pc = _prefix_class(prefix)
    if "\\'" in body or '\\"' in body:
        fl = "escaped-quote"
    elif "\\\n" in body:
        fl = "backslash-newline"
    elif body.endswith("\\\\") or "\\\\" in body:
        fl = "escaped-backslash"
    elif "'" in body or '"' in body:
        fl = "other-quote"
    elif "#" in body:
        fl = "hash"
    elif any(c in body for c in "([{)]}"):
        fl = "bracket"
    else:
        fl = "plain"
    return f"{pc}|q{len(q)}|{fl}"


def _comment_feature(s):
    if s.rstrip().endswith("\\"):
        return "trailing-backslash"
    if "'" in s or '"' in s:
        return "quote"
    if any(c in s for c in "([{)]}"):
        return "bracket"
    return "plain"


def _fstring_feature(s, start, inner):
    import tokenize as T
    prefix, q = _split_prefix(start)
    body = s[len(start):len(s) - len(q)]
    pc = _prefix_class(prefix)
    if _has_unescaped(body, q):
        fl = "own-quote"
    elif len(q) == 1 and "\n" in body.replace("\\\n", ""):
        fl = "multiline-field"
    elif any(t.type == T.COMMENT for t in inner):
        fl = "comment-in-field"
    elif any(t.type == T.FSTRING_START for t in inner):
        fl = "nested-fstring"
    elif "\\'" in body or '\\"' in body:
        fl = "escaped-quote"
    elif any(t.type == T.FSTRING_MIDDLE and any(c in t.string for c in "([{)]}") for t in inner):
        fl = "bracket-in-literal"
    elif any(t.type == T.STRING for t in inner):
        fl = "inner-string"
    else:
        fl = "plain"
    return f"{pc}|q{len(q)}|{fl}"


def _char_class(c):
    import unicodedata
    if c == "\n":
        return "newline"
    if c == "\t":
        return "tab"
    if c == " ":
        return "space"
    if c in "'\"":
        return "quote"
    if c in "([{)]}":
        return "bracket"
    if c == "\\":
        return "backslash"
    if c == ";":
        return "semicolon"
    if c == "#":
        return "hash"
    if c == "":
        return "eof"
    return unicodedata.category(c)


class _Keys:
    """per-case violation sink: one report per key, with a count"""

    def __init__(self, res):
        self.res = res
        self.seen = {}

    def add(self, key, what, **detail):
        if key in self.seen:
            self.seen[key]["count"] += 1
            return
        d = dict(detail)
        d["count"] = 1
        self.seen[key] = d
        self.res.violation(key, what, **d)
        # the count is updated in place (same dict object travels in the result)
        self.res.d["violations"][-1]["detail"] = d

    def n(self, prefix):
        return sum(1 for k in self.seen if k.startswith(prefix))


# --------------------------------------------------------------------------- the check
def check_text(text, res, tags, tier="quick"):
    V = View(text)
    V.first_region_mismatch = None
    V.first_newline_lost = None
    # real_code counts brackets with f-strings left in place: an f-string whose text has unbalanced brackets
    # (literal '{{', '(' in the literal part, a comment in a replacement field) derails it for the rest of the text
    V.first_unbalanced_fstring = None
    for rs, re_, rk, _rf in V.regions:
        if rk == "FSTRING":
            seg = text[rs:re_]
            if sum(seg.count(x) for x in "([{") != sum(seg.count(x) for x in ")]}"):
                V.first_unbalanced_fstring = rs
                break
    V.has_chain = False
    K = _Keys(res)
    res.ev("texts_checked")
    res.evals()
    _coverage(V, res, tags)
    got_regions = _clause_a(V, res, K)
    _clause_b(V, res, K, got_regions)
    _clause_c(V, res, K)
    _clause_d(V, res, K, tier)
    _clause_e(V, res, K)
    res.outcome("agree" if not K.seen else "disagree")
    res.sample({"tags": tags, "chars": len(text), "lines": V.nlines, "regions": len(V.regions),
                "statements": len(V.stmts), "first_lines": text[:300]})


def _coverage(V, res, tags):
    import tokenize as T
    flags = set()
    pairs = set()
    for s, e, kind, feat in V.regions:
        if kind == "COMMENT":
            res.ev("comments")
            continue
        pc, q, fl = feat.split("|")
        res.ev("prefix_class_" + pc)
        qs = _split_prefix(V.text[s:e])[1]
        pairs.add(pc + qs)
        if kind == "FSTRING":
            res.ev("fstrings")
            if fl == "own-quote":
                res.ev("fstring_own_quote")
                flags.add("f-own-quote")
            elif fl in ("multiline-field", "comment-in-field", "nested-fstring"):
                res.ev("fstring_" + fl.replace("-", "_"))
                flags.add("f-" + fl)
        else:
            res.ev("strings")
    res.ev("regions_expected", len(V.regions))
    cont = set()
    multi = False
    for s, e in V.stmts:
        if e > s:
            multi = True
            for l in range(s + 1, e + 1):
                c = V.line_ctx(l)
                cont.add(c)
                res.ev({"string": "lines_in_string", "bracket": "lines_in_bracket",
                        "backslash": "lines_after_backslash"}.get(c, "lines_ctx_none"))
    nsemi = ntab = nff = 0
    for t in V.toks:
        if t.type == T.OP and t.string == ";" and t.fdepth == 0:
            nsemi += 1
        elif t.type == T.NAME and not t.string.isascii():
            res.ev("nonascii_identifier_tokens")
            flags.add("nonascii")
    last = 0
    for s, e, _, _ in V.regions:
        seg = V.text[last:s]
        ntab += seg.count("\t")
        nff += seg.count("\f")
        last = e
    seg = V.text[last:]
    ntab += seg.count("\t")
    nff += seg.count("\f")
    res.ev("semicolons", nsemi)
    res.ev("tabs", ntab)
    res.ev("formfeeds", nff)
    if nsemi:
        flags.add("semicolon")
    if ntab:
        flags.add("tab")
    if nff:
        flags.add("formfeed")
    V.flags = flags
    V.nontrivial = bool(pairs) and any(r[2] == "COMMENT" for r in V.regions) and multi
    V.shape = {"strings": sorted(pairs), "cont": sorted(cont - {"none"}), "flags": None,
               "mut": [t for t in tags if t not in ("file", "seed")]}


# ---- (a) ignored regions
def _clause_a(V, res, K):
    from rope.base import simplify
    try:
        raw = simplify.ignored_regions(V.text)
        got = [(r[0], r[1]) for r in raw]
    except Exception as e:
        K.add(f"a|exception|{core.exc_sig(e)}", f"ignored_regions raised {type(e).__name__}: {e}")
        return None
    exp = V.regions
    res.evals(len(exp))
    i = j = 0
    text = V.text
    while i < len(exp) or j < len(got):
        if i < len(exp) and j < len(got) and exp[i][:2] == got[j]:
            i += 1
            j += 1
            continue
        # collect a cluster of mutually overlapping regions until both sides line up again
        Es, Gs = [], []
        hi = None
        lo = min(exp[i][0] if i < len(exp) else len(text) + 1, got[j][0] if j < len(got) else len(text) + 1)
        while True:
            moved = False
            if i < len(exp) and (hi is None and exp[i][0] == lo or hi is not None and exp[i][0] < hi):
                hi = max(hi or 0, exp[i][1])
                Es.append(exp[i])
                i += 1
                moved = True
            if j < len(got) and (hi is None and got[j][0] == lo or hi is not None and got[j][0] < hi):
                hi = max(hi or 0, got[j][1])
                Gs.append(got[j])
                j += 1
                moved = True
            if not moved:
                break
        start_of_cluster = min([x[0] for x in Es] + [x[0] for x in Gs])
        if V.first_region_mismatch is None:
            V.first_region_mismatch = start_of_cluster
        if not Es:
            g = Gs[0]
            first = text[g[0]:g[1]]
            what = "comment" if first.startswith("#") else "string"
            # where does this phantom region start?  inside which token kind
            key = f"a|extra|{what}|starts-at-{_char_class(text[g[0]:g[0] + 1])}"
            K.add(key, "rope reports an ignored region where the tokenizer has no string/comment token",
                  got=Gs[:4], source=V.excerpt(g[0], g[1]))
        else:
            rel = "missed" if not Gs else "split" if len(Es) == 1 and len(Gs) > 1 else \
                "merged" if len(Es) > 1 and len(Gs) == 1 else "bounds" if len(Es) == 1 and len(Gs) == 1 else "shifted"
            if rel == "bounds":
                g = Gs[0]
                rel = "bounds:" + ("start" if g[0] != Es[0][0] else "") + ("end" if g[1] != Es[0][1] else "")
            # which token of the cluster is misread on its own, and which of its features matter
            key = minimal = None
            for e0 in Es[:8]:
                if e0[3].rsplit("|", 1)[-1] in PEP701_FLAGS:
                    # PEP 701: one mechanism whatever the prefix / the way the scanner derails
                    key = f"a|{e0[2]}|{e0[3].rsplit('|', 1)[-1]}"
                    break
                feat, minimal = _attribute_region(e0[2], text[e0[0]:e0[1]])
                if feat is not None:
                    key = f"a|{e0[2]}|{feat}"
                    break
            if key is None:
                e0 = Es[0]
                key = f"a|{rel}|{e0[2]}|{e0[3]}|in-context"
            K.add(key, f"ignored regions disagree with the tokenizer's {e0[2]} span ({rel})",
                  expected=[x[:2] for x in Es[:6]], got=Gs[:6], minimal=minimal,
                  source=V.excerpt(Es[0][0], Es[-1][1]))
        if K.n("a|") >= MAX_KEYS_PER_CLAUSE:
            break
    return got


def _attribute_region(kind, tok):
    """Is the token misread by ignored_regions when it stands alone, and which of its features (prefix, quote
    length, kind of body) are needed for that?  -> (feature string | None, minimal source)"""
    from rope.base import simplify

    def bad(t, lead="zz = "):
        src = lead + t + "\nzz = 1\n"
        s, e = len(lead), len(lead) + len(t)
        try:
            got = [(r[0], r[1]) for r in simplify.ignored_regions(src)]
        except Exception:
            return True
        return got != [(s, e)]

    if kind == "COMMENT":
        return (_comment_feature(tok), "zz = 0 " + tok) if bad(tok, "zz = 0 ") else (None, None)
    if not bad(tok):
        return None, None
    prefix, q = _split_prefix(tok)
    body = tok[len(prefix) + len(q):len(tok) - len(q)]
    minimal = tok
    feats = []
    if prefix and not bad(q + body + q):
        feats.append("prefix=" + _prefix_class(prefix))
    if bad(prefix + q + "x" + q):
        minimal = prefix + q + "x" + q
    else:
        feats.append("body=" + (_string_feature(tok) if kind == "STRING" else
                                _fstring_feature_text(tok)).rsplit("|", 1)[-1])
    if len(q) == 3:
        if "\n" not in body and not _has_unescaped(body, q[0]) and not body.endswith("\\") \
                and not bad(prefix + q[0] + body + q[0]):
            feats.append("q3")
    elif not body.endswith(q) and not bad(prefix + q * 3 + body + q * 3):
        feats.append("q1")
    return "|".join(feats) or "any", "zz = " + minimal


def _fstring_feature_text(tok):
    """body class of an f-string from its text alone (no tokens at hand)"""
    prefix, q = _split_prefix(tok)
    body = tok[len(prefix) + len(q):len(tok) - len(q)]
    if "\\'" in body or '\\"' in body:
        return "escaped-quote"
    if "{{" in body or "}}" in body:
        return "doubled-brace"
    if "'" in body or '"' in body:
        return "other-quote"
    return "plain"


# ---- (b) real_code
def _clause_b(V, res, K, got_regions):
    from bisect import bisect_right
    from rope.base import simplify
    text = V.text
    try:
        rc = simplify.real_code(text)
    except Exception as e:
        K.add(f"b|exception|{core.exc_sig(e)}", f"real_code raised {type(e).__name__}: {e}")
        return
    res.evals()
    if len(rc) != len(text):
        K.add("b|length", "real_code changes the length of the text", expected=len(text), got=len(rc))
        return
    gstarts = [g[0] for g in got_regions] if got_regions else []
    # first statement-ending newline that real_code lost (its bracket counter derailed): later disagreements
    # of the word/primary scanners are consequences
    for o in sorted(V.nlclass):
        if V.nlclass[o] != "bracket" and rc[o] != "\n" and V.region_at(o) is None:
            V.first_newline_lost = o
            break

    def in_rope_region(o):
        k = bisect_right(gstarts, o) - 1
        return k >= 0 and got_regions[k][0] <= o < got_regions[k][1]

    last = 0
    n = 0
    for s, e, _, _ in V.regions + [(len(text), len(text), None, None)]:
        if s > last:
            n += s - last
            if text[last:s] != rc[last:s]:
                for o in range(last, s):
                    c, d = text[o], rc[o]
                    if c == d:
                        continue
                    if c == "\t" and d == " ":
                        continue
                    if c == ";" and d in "\n ":
                        continue
                    if c == "\\" and text[o + 1:o + 2] == "\n" and d == " ":
                        continue
                    if c == "\n" and d == " ":
                        cls = V.nlclass.get(o)
                        if cls == "bracket" or (cls is None and o > 0 and text[o - 1] == "\\"):
                            continue
                    where = "in-rope-region" if in_rope_region(o) else \
                        ("newline-" + str(V.nlclass.get(o, "continuation")) if c == "\n" else "code")
                    culprit = None
                    if c == "\n" and where in ("newline-stmt", "newline-blank"):
                        # real_code counts brackets on the text with f-strings left in place
                        for rs, re_, rk, _rf in V.regions:
                            if rs > o:
                                break
                            if rk == "FSTRING":
                                seg = text[rs:re_]
                                if sum(seg.count(x) for x in "([{") != sum(seg.count(x) for x in ")]}"):
                                    culprit = seg
                                    where = "after-fstring-with-unbalanced-bracket"
                                    break
                    key = f"b|{_char_class(c)}->{_char_class(d)}|{where}"
                    if V.first_region_mismatch is not None and o >= V.first_region_mismatch:
                        key = "b|after-region-mismatch"   # consequence of a clause (a) disagreement
                    K.add(key,
                          "real_code changes a character outside every string/comment token that is not a "
                          "documented whitespace substitution", offset=o, src=V.excerpt(o, o + 1),
                          simplified=rc[max(0, o - 30):o + 31], culprit=culprit)
                    if K.n("b|") >= MAX_KEYS_PER_CLAUSE:
                        return
        last = max(last, e)
    res.ev("realcode_chars_outside_regions", n)
    res.evals(len(V.regions) + 1)


# ---- (c) offsets <-> lines
def _clause_c(V, res, K):
    from rope.base import codeanalyze
    text = V.text
    try:
        L = codeanalyze.SourceLinesAdapter(text)
        split = text.split("\n")
        if L.length() != len(split):
            K.add("c|length", "SourceLinesAdapter.length() is not the number of physical lines",
                  expected=len(split), got=L.length())
            return
        for l in range(1, len(split) + 1):
            st, en = L.get_line_start(l), L.get_line_end(l)
            if st != V.ls[l - 1]:
                K.add("c|line-start", "get_line_start is not the offset after the previous newline", line=l,
                      expected=V.ls[l - 1], got=st)
            if L.get_line_number(st) != l:
                K.add("c|number-of-start", "get_line_number(get_line_start(l)) != l", line=l,
                      got=L.get_line_number(st))
            if L.get_line_number(en) != l:
                K.add("c|number-of-end", "get_line_number(get_line_end(l)) != l", line=l, got=L.get_line_number(en))
            if L.get_line(l) != split[l - 1] or text[st:en] != split[l - 1]:
                K.add("c|get-line", "get_line(l) is not the l-th physical line", line=l)
        gln, gls, gle = L.get_line_number, L.get_line_start, L.get_line_end
        prev = 1
        for o in range(len(text) + 1):
            n = gln(o)
            if not (gls(n) <= o <= gle(n)) or n < prev:
                K.add("c|offset-in-line", "offset not within [get_line_start(n), get_line_end(n)] of its own "
                      "line number n, or line numbers not monotone", offset=o, line=n)
                break
            prev = n
        res.ev("offsets_line_inverse", len(text) + 1)
        res.ev("lines_inverse", len(split))
        res.evals(len(split) + len(text) + 1)
    except Exception as e:
        K.add(f"c|exception|{core.exc_sig(e)}", f"SourceLinesAdapter raised {type(e).__name__}: {e}")


# ---- (d) logical lines
class _CountingLines:
    """Lines interface delegating to a SourceLinesAdapter, counting the lines read (deterministic work measure)"""

    def __init__(self, lines):
        self._l = lines
        self.reads = 0

    def get_line(self, n):
        self.reads += 1
        return self._l.get_line(n)

    def length(self):
        return self._l.length()

    def __getattr__(self, name):
        return getattr(self._l, name)


def _stmt_lines(s, e):
    """physical lines of a statement to query: all of them, or an even sample of a giant statement
    (rope's caching finder is linear per query inside one statement)"""
    if e - s <= 600:
        return range(s, e + 1)
    step = (e - s) // 300
    return sorted(set(range(s, e + 1, step)) | {s, s + 1, e - 1, e})


def _oracle_stmts(text):
    from vlib import layoutfuzz
    import tokenize as T
    stmts, first = [], None
    for t in layoutfuzz.tokens(text):
        if t.type == T.NEWLINE:
            if first is not None:
                stmts.append((first, t.srow))
            first = None
        elif first is None and t.type not in (T.NL, T.COMMENT, T.INDENT, T.DEDENT, T.ENDMARKER):
            first = t.srow
    return stmts


def _finder_disagrees(kind, mini):
    """does finder `kind` disagree with the tokenizer on the small text `mini`? (None: mini is not valid)"""
    from rope.base import codeanalyze
    from vlib import corpus
    if not corpus.compiles(mini):
        return None
    try:
        stmts = _oracle_stmts(mini)
    except Exception:
        return None
    lines = codeanalyze.SourceLinesAdapter(mini)
    try:
        f = _make_finder(kind, lines)
        for s, e in stmts:
            for l in range(s, e + 1):
                if tuple(f.logical_line_in(l)) != (s, e):
                    return True
    except Exception:
        return True
    return False


def _make_finder(kind, lines):
    from rope.base import codeanalyze
    if kind == "llf":
        return codeanalyze.LogicalLineFinder(lines)
    if kind == "cache-custom":
        return codeanalyze.CachingLogicalLineFinder(lines)
    return codeanalyze.CachingLogicalLineFinder(lines, codeanalyze.tokenizer_generator)


def _attribute_stmt(V, kind, s, e):
    """mechanism features of a logical-line disagreement in statement lines s..e: which single token
    (or adjacent pair of tokens) reproduces it on its own"""
    a, b = V.ls[s - 1], (V.ls[e] - 1 if e < V.nlines else len(V.text))
    regs = [r for r in V.regions if r[0] >= a and r[1] <= b + 1]
    text = V.text
    for r in regs[:600]:
        tok = text[r[0]:r[1]]
        mini = ("zz = 0 " + tok if r[2] == "COMMENT" else "zz = " + tok) + "\nzz = 1\nzz = 2\n"
        if _finder_disagrees(kind, mini):
            return f"{r[2]}|{r[3]}", mini
    for r1, r2 in list(zip(regs, regs[1:]))[:600]:
        if r1[2] == "COMMENT" or r2[2] == "COMMENT":
            continue
        between = text[r1[1]:r2[0]]
        if between.strip(" \t\\\n") != "":
            continue
        mini = "zz = (" + text[r1[0]:r2[1]] + ")\nzz = 1\nzz = 2\n"
        if _finder_disagrees(kind, mini):
            sep = "none" if between == "" else "newline" if "\n" in between else "space"
            return f"adjacent-strings-sep-{sep}", mini
    # the statement alone (dedented by its own indentation when it is a simple statement)
    first = text[a:b].split("\n")[0]
    ind = len(first) - len(first.lstrip(" \t"))
    if ind == 0:
        mini = text[a:b] + "\nzz = 1\nzz = 2\n"
        r = _finder_disagrees(kind, mini)
        if r:
            return "statement-alone", mini
    return None, None


def _clause_d(V, res, K, tier):
    import random
    from rope.base import codeanalyze, libutils
    text = V.text
    pm_lines = pm_finder = None
    try:
        pm = libutils.get_string_module(_PROJECT, text) if _PROJECT is not None else None
        if pm is not None:
            pm_lines, pm_finder = pm.lines, pm.logical_lines
            res.ev("pymodule_finder_used")
    except Exception as e:
        res.ev("pymodule_unavailable")
    lines = pm_lines if pm_lines is not None else codeanalyze.SourceLinesAdapter(text)
    finders = [
        ("cache-custom", pm_finder if pm_finder is not None else codeanalyze.CachingLogicalLineFinder(lines)),
        ("cache-tokenizer", codeanalyze.CachingLogicalLineFinder(lines, codeanalyze.tokenizer_generator)),
    ]
    # skip statements whose first physical line is preceded by a bare backslash line (extent ambiguous)
    stmts = []
    for s, e in V.stmts:
        if s >= 2 and V.line_ctx(s) == "backslash":
            res.ev("stmts_skipped_ambiguous_start")
            continue
        stmts.append((s, e))
    for kind, f in finders:
        ev = kind.replace("-", "_") + "_lines"
        prev_bad = False
        for s, e in stmts:
            bad = None
            try:
                ql = _stmt_lines(s, e)
                for l in ql:
                    got = tuple(f.logical_line_in(l))
                    if got != (s, e):
                        bad = (l, got)
                        break
                res.ev(ev, len(ql))
            except Exception as ex:
                K.add(f"d|{kind}|exception|{core.exc_sig(ex)}",
                      f"{kind} logical_line_in raised {type(ex).__name__}: {ex}", stmt=(s, e))
                break
            if bad is None:
                prev_bad = False
                continue
            if prev_bad:
                continue   # same derailment as the statement before
            prev_bad = True
            feat, mini = _attribute_stmt(V, kind, s, e)
            l, got = bad
            ctx = "first" if l == s else V.line_ctx(l)
            if feat is None:
                feat = f"unattributed|line-{ctx}"
            elif feat.rsplit("|", 1)[-1] in PEP701_FLAGS:
                feat = feat.split("|")[0] + "|" + feat.rsplit("|", 1)[-1]
            elif feat.count("|") == 3:
                kind_, _pc, q_, fl_ = feat.split("|")   # the line scanners never look at string prefixes
                feat = f"{kind_}|{q_}|{fl_}"
            K.add(f"d|{kind}|{feat}",
                  f"{kind}: logical line of a physical line inside a statement is not the statement's extent",
                  line=l, expected=(s, e), got=got, minimal=mini,
                  source=None if mini else "\n".join(text.split("\n")[s - 1:min(e, s + 6)]))
            if K.n(f"d|{kind}|") >= MAX_KEYS_PER_CLAUSE:
                break
        res.evals(len(stmts))
    # LogicalLineFinder.logical_line_in: quadratic on long blocks -> deterministic work bound
    cl = _CountingLines(lines)
    f = codeanalyze.LogicalLineFinder(cl)
    budget = LLF_WORK.get(tier, 1_500_000)
    order = list(stmts)
    if V.nlines > 1500:
        random.Random(len(text)).shuffle(order)
    done = 0
    for s, e in order:
        if cl.reads > budget:
            res.ev("llf_cut_by_work_bound")
            break
        if e - s > 300:
            res.ev("llf_skipped_long_statement")
            continue
        for l in range(s, e + 1):
            try:
                got = tuple(f.logical_line_in(l))
            except Exception as ex:
                bs_feat = _blockstart_feature(V, lines, l, s)
                key = f"d|llf|exception|{core.exc_sig(ex)}|{bs_feat}" if "continuation" not in bs_feat \
                    else "d|llf|" + bs_feat.split("|")[0]
                K.add(key,
                      f"LogicalLineFinder.logical_line_in raised {type(ex).__name__}: {ex}", line=l,
                      expected=(s, e), source="\n".join(text.split("\n")[max(0, s - 3):min(e, s + 5)]))
                break
            res.ev("llf_lines")
            if got != (s, e):
                ctx = "first" if l == s else V.line_ctx(l)
                bs_feat = _blockstart_feature(V, lines, l, s)
                key = f"d|llf|{bs_feat}|line-{ctx}" if "stmt-first-line" in bs_feat or "blank" in bs_feat \
                    or "line-1" in bs_feat else "d|llf|" + bs_feat.split("|")[0]
                K.add(key,
                      "LogicalLineFinder.logical_line_in of a physical line inside a statement is not the "
                      "statement's extent", line=l, expected=(s, e), got=got,
                      source="\n".join(text.split("\n")[max(0, s - 2):min(e, s + 8)]))
                break
        done += 1
        if K.n("d|llf|") >= MAX_KEYS_PER_CLAUSE:
            break
    res.evals(done)


def _blockstart_feature(V, lines, l, s):
    """where rope's approximate block start for line l lies, in the tokenizer's terms"""
    from rope.base import codeanalyze
    try:
        b = codeanalyze.get_block_start(lines, l, codeanalyze.count_line_indents(lines.get_line(l)))
    except Exception as e:
        return "blockstart-exception"
    where = None
    for (a, z) in V.stmts:
        if a <= b <= z:
            where = "stmt-first-line" if b == a else "continuation-" + V.line_ctx(b)
            break
        if a > b:
            break
    if where is None:
        where = "line-1" if b == 1 else "blank-or-comment"
    rel = "same-stmt" if b >= s else "earlier"
    return f"blockstart={where}|{rel}"


# ---- (e) words and primaries
def _clause_e(V, res, K):
    import ast
    import tokenize as T
    from rope.base import worder
    text = V.text
    try:
        W = worder.Worder(text)
    except Exception as e:
        K.add(f"e|exception|{core.exc_sig(e)}", f"Worder(text) raised {type(e).__name__}: {e}")
        return
    names = [t for t in V.toks if t.type == T.NAME]
    by_end = {}
    by_start = {}
    for k, t in enumerate(V.toks):
        if t.type == T.NAME:
            if text[t.start:t.end] != t.string:
                res.ev("oracle_token_position_mismatch")
                continue
            by_end[t.end] = k
            by_start[t.start] = k

    def ctx_of(t):
        if V.first_region_mismatch is not None and t.start >= V.first_region_mismatch:
            return "after-region-mismatch"
        if V.first_unbalanced_fstring is not None and t.start >= V.first_unbalanced_fstring:
            return "after-fstring-with-unbalanced-bracket"
        if V.first_newline_lost is not None and t.start >= V.first_newline_lost:
            return "after-lost-newline"
        if t.fdepth > 0:
            r = V.region_at(t.start)
            if r is not None and r[3].endswith("own-quote"):
                return "fstring-own-quote"
            return "fstring"
        return "code"

    gwa, gwr = W.get_word_at, W.get_word_range
    nw = 0
    for t in names:
        s, e = t.start, t.end
        if text[s:e] != t.string:
            continue
        for o in range(s, e):
            try:
                rng = gwr(o)
                word = gwa(o)
            except Exception as ex:
                K.add(f"e|word|exception|{core.exc_sig(ex)}|{ctx_of(t)}",
                      f"get_word_at/get_word_range raised {type(ex).__name__}: {ex}", offset=o,
                      source=V.excerpt(s, e))
                break
            nw += 1
            if tuple(rng) != (s, e) or word != t.string:
                gs, ge = rng
                b = ""
                if tuple(rng) == (s, e):
                    kind, cat = "text", "-"
                elif gs > s or ge < e:
                    kind = "short"
                    b = text[gs - 1] if gs > s else text[ge:ge + 1]
                    cat = _char_class(b)
                elif gs < s or ge > e:
                    kind = "long"
                    b = text[s - 1] if gs < s else text[e:e + 1]
                    cat = _char_class(b)
                else:
                    kind, cat = "other", "-"
                if b and b.isascii() and (b.isalnum() or b == "_"):
                    cat = "ascii-id-char"
                key = f"e|word|{kind}|{cat}|{ctx_of(t)}"
                if ctx_of(t).startswith("after-"):
                    key = "e|word|" + ctx_of(t)
                elif kind == "short" and _odd_ident(t.string):
                    key = "e|word|identifier-char-not-alnum"   # one mechanism: _is_id_char = isalnum() or '_'
                K.add(key,
                      "word at an offset of a NAME token is not the token", offset=o, token=t.string,
                      expected=(s, e), got_range=tuple(rng), got_word=word, source=V.excerpt(s, e))
                break
        if K.n("e|word|") >= MAX_KEYS_PER_CLAUSE:
            break
    res.ev("word_offsets", nw)
    res.evals(nw)
    _boundary_words(V, res, K, names)

    # dotted chains from the ast
    ls = V.ls
    lines = text.split("\n")

    def off(lineno, bytecol):
        line = lines[lineno - 1]
        if line.isascii():
            return ls[lineno - 1] + bytecol
        return ls[lineno - 1] + len(line.encode("utf-8")[:bytecol].decode("utf-8", "ignore"))

    def chain_head(node):
        n = 0
        while isinstance(node, ast.Attribute):
            node = node.value
            n += 1
        return node if isinstance(node, ast.Name) else None

    gpr, gpa = W.get_primary_range, W.get_primary_at
    npri = 0
    sig = {T.NL, T.NEWLINE, T.COMMENT}
    for node in ast.walk(V.tree):
        if isinstance(node, ast.Name):
            s, e = off(node.lineno, node.col_offset), off(node.end_lineno, node.end_col_offset)
            k = by_end.get(e)
            if k is None or V.toks[k].start != s:
                res.ev("oracle_name_node_without_token")
                continue
            cs, parts_expected, seps = s, None, ()
            tk = V.toks[k]
            odd = _odd_ident(tk.string)
        elif isinstance(node, ast.Attribute):
            head = chain_head(node)
            if head is None:
                continue
            cs = off(head.lineno, head.col_offset)
            e = off(node.end_lineno, node.end_col_offset)
            k = by_end.get(e)
            k0 = by_start.get(cs)
            if k is None or k0 is None:
                res.ev("oracle_chain_without_token")
                continue
            tk = V.toks[k]
            s = tk.start
            # tokens of the chain must be NAME ('.' NAME)* apart from NL/COMMENT; otherwise e.g. `(a).b`
            inner = [t for t in V.toks[k0:k + 1] if t.type not in sig]
            ok = len(inner) % 2 == 1 and all(
                (t.type == T.NAME) if i % 2 == 0 else (t.type == T.OP and t.string == ".")
                for i, t in enumerate(inner))
            if not ok:
                res.ev("chains_not_pure_tokens")
                continue
            res.ev("chains")
            V.has_chain = True
            sepset = set()
            for a, b in zip(V.toks[k0:k], V.toks[k0 + 1:k + 1]):
                gap = text[a.end:b.start]
                if a.type == T.COMMENT or b.type == T.COMMENT:
                    sepset.add("comment")
                if "\\\n" in gap:
                    sepset.add("backslash-in-brackets" if b.pdepth > 0 and b.fdepth == 0 else "backslash")
                elif "\n" in gap or a.type == T.NL:
                    sepset.add("newline")
                elif gap:
                    sepset.add("space")
            # the separator highest in this order names the mechanism
            seps = tuple(x for x in ("backslash-in-brackets", "comment", "newline", "backslash", "space")
                         if x in sepset)[:1]
            if seps:
                res.ev("chains_with_separator")
                res.ev("chain_sep_" + seps[0].replace("-", "_"))
                V.flags.add("chain-sep-" + seps[0])
            odd = any(_odd_ident(t.string) for t in inner if t.type == T.NAME)
            parts_expected = "".join(t.string for t in inner)
        else:
            continue
        for o in range(s, e):
            try:
                rng = tuple(gpr(o))
                prim = gpa(o)
            except Exception as ex:
                K.add(f"e|primary|exception|{core.exc_sig(ex)}|{ctx_of(tk)}",
                      f"get_primary_at/get_primary_range raised {type(ex).__name__}: {ex}", offset=o,
                      source=V.excerpt(cs, e))
                break
            npri += 1
            exp_text = parts_expected if parts_expected is not None else tk.string
            if rng != (cs, e) or _squeeze(V, prim, rng) != exp_text:
                gs, ge = rng
                kind = "short" if gs > cs or ge < e else "long" if gs < cs or ge > e else "text"
                if kind == "long" and gs < cs:
                    j = cs - 1
                    while j > 0 and text[j] in " \t\n\\":
                        j -= 1
                    cat = "before-" + _char_class(text[j])
                elif kind == "short" and gs > cs:
                    cat = "stops-at-" + _char_class(text[gs - 1:gs])
                    j = gs - 1 if text[gs:gs + 1] != "." else gs
                    while j > 0 and text[j - 1] in " \t":
                        j -= 1
                    if text[j - 1:j] == "." or text[gs:gs + 1] == ".":
                        # rope stopped at a dot: what precedes it?
                        k2 = (gs if text[gs:gs + 1] == "." else j - 1) - 1
                        while k2 > 0 and text[k2] in " \t":
                            k2 -= 1
                        if text[max(0, k2 - 3):k2 + 1] == "from":
                            cat = "after-name-ending-in-from"
                else:
                    cat = "end"
                what = "chain" if parts_expected is not None else "name"
                key = f"e|primary|{what}|{kind}|sep={'+'.join(seps) or 'none'}|{ctx_of(tk)}"
                if not seps:
                    key += "|" + cat
                if ctx_of(tk).startswith("after-"):
                    key = "e|primary|" + ctx_of(tk)
                elif odd:
                    key = "e|primary|identifier-char-not-alnum"
                K.add(key,
                      "primary at an offset of an identifier is not the dotted chain ending in it", offset=o,
                      expected_range=(cs, e), expected=exp_text, got_range=rng, got=prim,
                      source=V.excerpt(cs, e))
                break
        if K.n("e|primary|") >= MAX_KEYS_PER_CLAUSE:
            break
    res.ev("primary_offsets", npri)
    res.evals(npri)
    V.shape["flags"] = sorted(V.flags)
    if V.nontrivial and V.has_chain:
        res.shape(V.shape)


def _boundary_words(V, res, K, names):
    """text boundaries: an identifier (and a dotted chain) that is the whole text, without a final newline"""
    import keyword
    from rope.base import worder
    seen = []
    for t in names:
        if t.string not in seen and not keyword.iskeyword(t.string) and t.string.isidentifier():
            seen.append(t.string)
            if len(seen) >= 12:
                break
    minis = list(seen)
    if len(seen) >= 2:
        minis.append(seen[0] + "." + seen[1])
        minis.append(".".join(seen[:3]))
    n = 0
    for mini in minis:
        try:
            W = worder.Worder(mini)
            for o in range(len(mini)):
                last = mini.rfind(".", 0, o + 1) + 1
                nxt = mini.find(".", o)
                nxt = len(mini) if nxt < 0 else nxt
                if mini[o] == ".":
                    continue
                n += 1
                exp_w, exp_p = (last, nxt), (0, nxt)
                gw, gp = tuple(W.get_word_range(o)), tuple(W.get_primary_range(o))
                if gw != exp_w or W.get_word_at(o) != mini[last:nxt]:
                    key = "e|word|identifier-char-not-alnum" if _odd_ident(mini) else \
                        "e|word|boundary|" + ("start" if gw[0] != exp_w[0] else "end")
                    K.add(key, "word at an offset of an identifier that touches the start/end of the text is not "
                          "the identifier", text=mini, offset=o, expected=exp_w, got=gw)
                    break
                if gp != exp_p or W.get_primary_at(o) != mini[:nxt]:
                    key = "e|primary|identifier-char-not-alnum" if _odd_ident(mini) else \
                        "e|primary|boundary|" + ("start" if gp[0] != exp_p[0] else "end")
                    K.add(key, "primary at an offset of an identifier that touches the start/end of the text is "
                          "not the chain", text=mini, offset=o, expected=exp_p, got=gp)
                    break
        except Exception as ex:
            K.add(f"e|word|boundary|exception|{core.exc_sig(ex)}", f"Worder raised {type(ex).__name__} on a text "
                  "that is a single identifier / chain", text=mini)
    res.ev("boundary_word_offsets", n)
    res.evals(n)


def _odd_ident(name):
    """identifier with a character rope's _is_id_char (isalnum() or '_') does not accept"""
    return any(not (c.isalnum() or c == "_") for c in name)


def _squeeze(V, prim, rng):
    """primary text without whitespace, line continuations and comments"""
    import re
    s = re.sub(r"#[^\n]*", "", prim)
    return re.sub(r"[ \t\f\n\\]", "", s)


if __name__ == "__main__":
    core.main(sys.modules[__name__])
