"""Data-flow family for extract-method (C03): small host functions enumerated from a vocabulary of
loop-body statements x loop kind x what the host reads afterwards; every contiguous run of body
statements is a region.  The programs are tiny and pure, so they are executed in-process (bounded by
a line budget) before and after the extraction.

The family is the systematic counterpart of the random pygen hosts: it covers every combination of
conditional / unconditional / augmented / nested-loop writes, reads before and after the write,
loop-carried values, break / continue and values that are (not) read after the region.
"""
import contextlib
import io
import sys

# statements of a loop body over the variables a, b (carried), t (temporary), i (loop variable), n
VOCAB = [
    ("rw-a", "a = a + i"),
    ("aug-a", "a += 1"),
    ("cond-rw-a", "if i % 2:\n    a = a + 1"),
    ("cond-w-a", "if i % 2:\n    a = i"),
    ("cond-else", "if i % 2:\n    a = a + 1\nelse:\n    b = b + 1"),
    ("b-reads-a", "b = b + a"),
    ("t-from-a", "t = a * 2"),
    ("b-reads-t", "b = b + t"),
    ("print", "print(a, b)"),
    ("nested-for", "for j in range(2):\n    a = a + j"),
    ("nested-while", "while a < 3:\n    a = a + 1"),
    ("swap", "a, b = b, a + 1"),
    ("break", "if a > 4:\n    break"),
    ("continue", "if i == 1:\n    continue"),
    ("try", "try:\n    a = a // i\nexcept ZeroDivisionError:\n    b = b + 1"),
    ("max", "b = max(b, a)"),
    ("cond-record", "if a > b:\n    b = a\n    print('new', b)"),
    # the else clause of a nested loop belongs to the SURROUNDING loop as far as break / continue go
    ("for-else-break", "for j in range(2):\n    a = a + j\nelse:\n    if a > 6:\n        break"),
    ("while-else-continue", "while a < 3:\n    a = a + 1\nelse:\n    if i == 2:\n        continue"),
]
LOOPS = ["for", "while", "none"]
AFTERS = ["return a, b", "return b", "return 0"]
LENGTHS = (2, 3)


def total():
    return sum(len(VOCAB) ** k for k in LENGTHS) * len(LOOPS) * len(AFTERS)


def nth(k):
    """The k-th program description (body indices, loop, after), 0 <= k < total()."""
    per = len(LOOPS) * len(AFTERS)
    body_no, rest = divmod(k, per)
    loop, after = LOOPS[rest // len(AFTERS)], AFTERS[rest % len(AFTERS)]
    for length in LENGTHS:
        count = len(VOCAB) ** length
        if body_no < count:
            idx = []
            for _ in range(length):
                body_no, r = divmod(body_no, len(VOCAB))
                idx.append(r)
            return tuple(idx), loop, after
        body_no -= count
    raise IndexError(k)


def build(body, loop, after):
    """(source, [(start, end, (first statement index, last statement index))])"""
    lines = ["def host(n):", "    a = 1", "    b = 2", "    t = 0"]
    if loop == "for":
        lines.append("    for i in range(n):")
        ind = "        "
    elif loop == "while":
        lines += ["    i = -1", "    while i < n - 1:", "        i += 1"]
        ind = "        "
    else:
        lines.append("    i = 1")
        ind = "    "
    spans = []
    text = "\n".join(lines) + "\n"
    for k in body:
        stmt = "\n".join(ind + l for l in VOCAB[k][1].split("\n"))
        start = len(text) + len(ind)
        text += stmt + "\n"
        spans.append((start, len(text) - 1))
    text += "    " + after + "\n\n\nprint(host(4))\nprint(host(0))\n"
    regions = []
    for i in range(len(body)):
        for j in range(i, len(body)):
            regions.append((spans[i][0], spans[j][1], (i, j)))
    return text, regions


class Budget(Exception):
    pass


def run(src, max_lines=20000):
    """('ok', output) | ('raises', type name + output so far) | ('syntax', message) | ('budget', '')"""
    try:
        code = compile(src, "fam.py", "exec")
    except SyntaxError as e:
        return ("syntax", e.msg)
    out = io.StringIO()
    count = [0]

    def tracer(frame, event, arg):
        if event == "line":
            count[0] += 1
            if count[0] > max_lines:
                raise Budget()
        return tracer
    old = sys.gettrace()
    try:
        with contextlib.redirect_stdout(out):
            sys.settrace(tracer)
            try:
                exec(code, {"__name__": "fam"})
            finally:
                sys.settrace(old)
    except Budget:
        return ("budget", "")
    except Exception as e:
        return ("raises", type(e).__name__ + "|" + out.getvalue())
    return ("ok", out.getvalue())
