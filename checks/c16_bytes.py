"""C16 - files survive rope byte-for-byte apart from the intended edit.

Differential against an independent reference codec (vlib/refcodec.py: tokenize.detect_encoding + newline
convention found on the raw bytes + codecs).  One case = one generated file (text class x newline convention x
declared encoding/cookie form/BOM x final newline, python module or free text) in a fresh project with the
default .ropeproject folder.  On the real rope code the case runs, in this order, and compares the BYTES on
disk with the reference after every step:

  read        File.read() equals the reference decoding (modulo the U+FEFF rope keeps for BOM files)
  roundtrip   File.write(File.read())                                  -> bytes unchanged
  noop        project.do(ChangeContents(fresh File, same text))        -> bytes unchanged
  edit        splice of random text through ChangeContents / File.write -> bytes == reference-encode(edited text)
  readback    fresh File.read() == text written
  undo, redo  project.history.undo()/redo()                             -> exact bytes before / after
  refactor    Rename of a local / ImportOrganizer.organize_imports / ExtractVariable inside the file:
              bytes == reference-encode(the text rope computed); every untouched line byte-identical;
              final-newline state kept; then undo / redo exact
              (all three refactorings are applied one after the other, the one named in the spec first)
  reopen      project.close(); Project(root); history.undo() / redo()   -> exact bytes
  create      root.create_file(); File.write(text) -> reads back equal and python's decoding of the bytes is text
A violation ends the case (later steps would only show its consequences).  Keys: "<step class>|<diagnosis>", or
"enc|hdr=<construct>" when the file carries one of the unusual-but-legal header constructs of `_hazards` and the
failure is at the codec level.
An audit-hook write tracer confirms that each step wrote nothing but that file (and rope's own data folder).
"""
import itertools
import sys

from vlib import core, refcodec

ID = "C16"
READY = True
LEVEL = "exploration"
RULE = ("random files over the product encoding variant (no cookie / utf-8 cookie / BOM / BOM+cookie / utf-8-sig "
        "cookie with and without BOM / latin-1 / cp1252 / koi8-r / shift_jis / iso-8859-15, several spellings) x "
        "newline {LF,CRLF,CR} x final newline {yes,no} enumerated cyclically (66 combinations), with cookie form "
        "(emacs, vim, plain, indented, tab, prose, eol-suffix), cookie position (line 1, line 2 after shebang / "
        "comment / blank line), text class (ascii, latin1, bmp, astral, combining; optionally the str.splitlines "
        "separators FF/FS/GS/RS/NEL/LS/PS inside comments and strings; optionally a cookie-shaped decoy comment "
        "after line 2) and file kind (python module 70% / free text) drawn at random; at most one unusual header "
        "construct per file; non-trivial = the file is not plain ASCII+LF+final-newline+no-cookie AND the edit step "
        "changed the bytes AND the whole scenario ran; distinct = (encoding variant, cookie form, cookie position, "
        "newline, final newline, effective text class, kind, edit method, refactorings that took effect)")
ASSUMPTIONS = ["files have one consistent newline convention and at least one line terminator; contents are "
               "encodable in the declared encoding and never contain a lone CR",
               "a cookie on line 2 is only generated after a comment or blank first line (what the interpreter "
               "itself honours)",
               "edits never touch the first two lines (the declared encoding is not part of the edit)",
               "identifiers use NFKC-stable characters only"]
BUDGET = {"quick": (20000, 240), "thorough": (400000, 900)}
EXHAUSTIVE = {}
REQUIRE = {"bytes_compared": 5000, "create_checked": 300, "anchor:unicode_to_file_data": 1000,
           "anchor:file_data_to_unicode": 1000, "anchor:read_str_coding": 1000, "edit_effective": 500, "undo_exact_checked": 500, "redo_exact_checked": 500,
           "reopen_undo_checked": 300, "refactor_effective": 200, "refactor:rename": 50, "refactor:organize": 50,
           "refactor:extract": 50, "audit_events": 1000, "nl:CRLF": 100, "nl:CR": 100, "final:no": 100,
           "nonascii_files": 500}
TECHNIQUE = ("differential testing of the real File/ChangeContents/History/refactoring code against an independent "
             "reference codec built from tokenize.detect_encoding, raw-byte newline detection and codecs; bytes on "
             "disk compared after every step; sys.addaudithook write tracer confirms which paths were written")
LEVEL_TEXT = ("Generated files over the product of text class, newline convention, declared encoding (cookie forms, "
              "positions, BOM) and final newline are read, rewritten, edited, refactored, undone, redone and undone "
              "after close/reopen by the real code; after each step the bytes on disk are compared with the "
              "reference encoding of the intended text. Held = every comparison equal on the sampled product.")
LEVEL_NOTE = ("sampled, not exhaustive, over texts; eleven encoding variants of eight codecs, not every codec of the "
              "interpreter; mixed-newline and undecodable files are outside the statement and not generated; the "
              "refactorings are three representative ones (rename of a local, organize imports, extract variable) "
              "and their semantic result is judged by other properties - here only bytes/lines outside the edit")
DESIGN_REF = "DESIGN.md section 5, C16"
CASE_TIMEOUT = 60

BOMC = "\ufeff"

# ------------------------------------------------------------------------------------------ generator tables
# encoding variants: name -> (python codec the reference must report, BOM written, cookie spellings or None)
ENCV = {
    "none": ("utf-8", False, None),
    "utf8-cookie": ("utf-8", False, ["utf-8", "UTF-8", "utf8", "utf_8"]),
    "bom": ("utf-8-sig", True, None),
    "bom+utf8-cookie": ("utf-8-sig", True, ["utf-8", "UTF-8", "utf_8"]),   # "utf8" + BOM is rejected by python
    "sig-cookie+bom": ("utf-8-sig", True, ["utf-8-sig", "utf_8_sig"]),
    "sig-cookie-nobom": ("utf-8", False, ["utf-8-sig"]),
    "latin-1": ("iso-8859-1", False, ["latin-1", "iso-8859-1", "latin1", "Latin-1"]),
    "cp1252": ("cp1252", False, ["cp1252", "windows-1252"]),
    "koi8-r": ("koi8-r", False, ["koi8-r", "KOI8-R", "koi8_r"]),
    "shift_jis": ("shift_jis", False, ["shift_jis", "shift-jis", "sjis", "Shift_JIS"]),
    "iso-8859-15": ("iso8859-15", False, ["iso-8859-15", "latin9", "iso8859-15"]),
}
ENCV_ORDER = list(ENCV)
# spellings with an emacs end-of-line suffix which the interpreter accepts (tokenizer normalises them)
EOL_SUFFIX = {"utf8-cookie": "utf-8", "bom+utf8-cookie": "utf-8", "latin-1": "latin-1"}
NLS = ["LF", "CRLF", "CR"]
FORMS = ["emacs", "emacs-mode", "vim", "vim-short", "plain-eq", "plain-colon", "plain-tight", "plain-enc",
         "indented", "tab", "prose"]
POSITIONS = ["line1", "line2-shebang", "line2-comment", "line2-blank"]
CLASSES = ["ascii", "latin1", "bmp", "astral", "combining"]

POOL = {
    "ascii": list("abcdefghijklmnopqrstuvwxyzABCDEFGHIJKLMNOPQRSTUVWXYZ0123456789"),
    "latin1": [chr(c) for c in range(0xA1, 0x100)] + ["\xa0"],
    # Greek, Cyrillic, kanji/kana (incl. U+8868 / U+30BD whose shift_jis trail byte is 0x5C), half-width kana,
    # cp1252 / iso-8859-15 specials, maths, Hangul, Hebrew, Arabic, Thai
    "bmp": list("\u03b1\u03b2\u03b3\u03b4\u03bb\u03c0\u03a9\u0416\u0436\u0448\u044f\u042e\u0451\u0431"
                "\u65e5\u672c\u8a9e\u6f22\u5b57\u8868\u30bd\u80fd\u304b\u306a\u30ab\u30ca\uff76\uff85"
                "\u20ac\u2026\u201c\u201d\u2022\u2122\u0160\u0152\u017e\u0153\u0178\u2014\u221a\u221e\u2260"
                "\u4e2d\u6587\ud55c\uae00\u05d0\u05d1\u062f\u0e01"),
    # emoji, mathematical alphanumerics, CJK extension B, a flag (two regional indicators), a ZWJ sequence
    "astral": ["\U0001F600", "\U0001F389", "\U0001F680", "\U0001D431", "\U0001D518", "\U0001D7D9",
               "\U0001F004", "\U00020000", "\U00020BB7", "\U0001F1E9\U0001F1EA", "\U0001F468\u200d\U0001F469"],
    # base + combining marks (decomposed on purpose)
    "combining": ["e\u0301", "o\u0308", "n\u0303", "a\u030a", "\u0915\u093f", "u\u0308\u0304", "\u05d0\u05b8",
                  "q\u0307\u0323", "\u1100\u1161", "g\u0361k"],
}
SEPS = ["\x0c", "\x1c", "\x1d", "\x1e", "\x85", "\u2028", "\u2029"]
PUNCT = list(" .,;:!?-+*/=<>()[]{}@$%^&|~`_")


def _units(codec, cls):
    return [u for u in POOL[cls] if refcodec.encodable(u, codec)]


def _effective_class(codec, cls):
    """The requested class if the codec can encode some of it, else the richest class it can."""
    order = [cls] + [c for c in ("bmp", "latin1", "ascii") if c != cls]
    for c in order:
        if c == "ascii" or len(_units(codec, c)) >= 3:
            return c
    return "ascii"


def cases(tier, seed):
    import random
    base = list(itertools.product(ENCV_ORDER, NLS, [True, False]))
    random.Random(f"{seed}/C16/base").shuffle(base)
    ops = ["rename", "organize", "extract"]
    i = 0
    while True:
        encv, nl, final = base[i % len(base)]
        rnd = random.Random(f"{seed}/C16/p/{i}")
        spec = {"seed": f"{seed}/C16/{i}", "i": i, "encv": encv, "nl": nl, "final": final,
                "cls": rnd.choice(CLASSES), "kind": "py" if rnd.random() < 0.7 else "text",
                "form": rnd.choice(FORMS), "pos": rnd.choice(POSITIONS),
                "op": ops[(i // len(base)) % 3] if rnd.random() < 0.85 else rnd.choice(ops),
                "seps": rnd.random() < 0.2, "decoy": rnd.random() < 0.12,
                "eol_suffix": rnd.random() < 0.04 and encv in EOL_SUFFIX}
        _one_hazard(spec)
        yield spec
        i += 1


def _hazards(spec):
    """Header constructs that are legal for the interpreter but unusual (finite alphabet, part of the key of
    encoding-level violations so that different cookie-handling defects get different keys)."""
    cookie = ENCV[spec["encv"]][2] is not None
    hz = []
    if cookie and spec["eol_suffix"]:
        hz.append("eol-suffix")
    if spec["encv"] == "sig-cookie-nobom":
        hz.append("sig-cookie-without-bom")
    if spec["encv"] == "sig-cookie+bom":
        hz.append("sig-cookie-with-bom")
    if cookie and not spec["eol_suffix"] and spec["form"] == "prose":
        hz.append("prose")
    if cookie and spec["nl"] == "CR" and spec["pos"] == "line2-blank":
        hz.append("cr-blank-line1")
    if spec["nl"] == "CR" and spec["decoy"]:
        hz.append("cr-decoy")
    return hz


HAZARD_WHAT = {
    "eol-suffix": "cookie with an emacs end-of-line suffix (utf-8-unix, latin-1-dos ...), which the interpreter "
                  "normalises, is looked up verbatim: wrong decoding on read / LookupError on write",
    "sig-cookie-without-bom": "file with cookie utf-8-sig and no BOM (python reads it as utf-8) gets a BOM added by "
                              "every write",
    "sig-cookie-with-bom": "cookie utf-8-sig on line 1: rope writes BOM+text but the BOM hides the cookie from "
                           "rope's reader, so text written to a new file reads back with a leading U+FEFF",
    "prose": "cookie line containing the word 'coding' before the actual 'coding:' declaration is not recognised "
             "(_find_coding looks at the first 'coding', not at the regex match)",
    "cr-blank-line1": "CR-only file with a blank first line: cookie on line 2 not seen (read_str_coding splits "
                      "lines on LF only) - wrong decoding on read, UTF-8 re-encoding on write",
    "cr-decoy": "CR-only file: a cookie-shaped comment after line 2 is taken for the declaration when line 1 is a "
                "comment (read_str_coding splits lines on LF only)",
}


def _one_hazard(spec):
    """At most one unusual header construct per file (keeps one defect = one key)."""
    hz = _hazards(spec)
    for h in hz[1:]:
        if h == "prose":
            spec["form"] = "emacs"
        elif h == "cr-blank-line1":
            spec["pos"] = "line2-comment"
        elif h == "cr-decoy":
            spec["decoy"] = False
        else:      # the sig variants come from the base product and only ever stand first (no eol-suffix)
            raise AssertionError(spec)
    assert len(_hazards(spec)) <= 1, spec
    if hz:
        spec["seps"] = False     # separator characters are a hazard of their own (text level)


# ------------------------------------------------------------------------------------------ file generator
class Gen:
    def __init__(self, spec):
        self.spec = spec
        self.rnd = core.rng(spec)
        self.codec, self.bom, self.spellings = ENCV[spec["encv"]]
        self.cls = _effective_class(self.codec, spec["cls"])
        self.units = _units(self.codec, self.cls) if self.cls != "ascii" else []
        self.seps = [s for s in SEPS if refcodec.encodable(s, self.codec)] if spec["seps"] else []
        self.ident_units = [u for u in self.units if _ident_ok(u)]
        self.n = 0

    # -- words
    def word(self, lo=2, hi=7, ident=False):
        rnd = self.rnd
        out = []
        pool = self.ident_units if ident else self.units
        for _ in range(rnd.randint(lo, hi)):
            if pool and rnd.random() < 0.6:
                out.append(rnd.choice(pool))
            else:
                out.append(rnd.choice(POOL["ascii"][:52] if ident else POOL["ascii"]))
        return "".join(out)

    def ident(self, prefix):
        self.n += 1
        return "%s%d_%s" % (prefix, self.n, self.word(1, 4, ident=True))

    def phrase(self, lo=1, hi=5, quote_safe=False):
        rnd = self.rnd
        parts = []
        for _ in range(rnd.randint(lo, hi)):
            parts.append(self.word(1, 6))
            r = rnd.random()
            if self.seps and r < 0.25:
                parts.append(rnd.choice(self.seps))
            elif r < 0.7:
                parts.append(" ")
            else:
                parts.append(rnd.choice(PUNCT))
        s = "".join(parts).strip(" ") or "x"
        if quote_safe:
            s = s.replace("{", "(").replace("}", ")")
        return s

    # -- header
    def cookie_line(self):
        spec, rnd = self.spec, self.rnd
        if spec["eol_suffix"]:
            suffix = {"LF": "-unix", "CRLF": "-dos", "CR": "-mac"}[spec["nl"]]
            return "# -*- coding: %s%s -*-" % (EOL_SUFFIX[spec["encv"]], suffix), "eol-suffix"
        name = rnd.choice(self.spellings)
        form = spec["form"]
        line = {
            "emacs": "# -*- coding: %s -*-",
            "emacs-mode": "# -*- mode: python; coding: %s -*-",
            "vim": "# vim: set fileencoding=%s :",
            "vim-short": "# vim:fileencoding=%s",
            "plain-eq": "# coding=%s",
            "plain-colon": "# coding: %s",
            "plain-tight": "#coding:%s",
            "plain-enc": "# encoding: %s",
            "indented": "  \t# coding: %s",
            "tab": "# coding:\t%s",
            "prose": "# the coding of this file is declared here, coding: %s (see PEP 263)",
        }[form] % name
        return line, form

    def header(self):
        spec = self.spec
        if self.spellings is None:
            r = self.rnd.random()
            pre = ["#!/usr/bin/env python3"] if r < 0.25 else (["# " + self.ascii_phrase()] if r < 0.4 else [])
            return pre, "none", "none"
        line, form = self.cookie_line()
        pos = spec["pos"]
        if pos == "line1":
            return [line], form, pos
        first = {"line2-shebang": "#!/usr/bin/env python3", "line2-comment": "# " + self.ascii_phrase(),
                 "line2-blank": ""}[pos]
        if pos == "line2-comment" and self.seps:
            # a character that str.splitlines() (but not the interpreter, nor bytes.splitlines()) takes for a
            # line boundary, BEFORE the declaration: the declaration is still on line 2
            first = "# " + self.ascii_phrase() + self.rnd.choice([x for x in self.seps if x < "\x7f"]) + " " + self.ascii_phrase()
            self.sep_before_cookie = True
        return [first, line], form, pos

    def ascii_phrase(self):
        rnd = self.rnd
        return " ".join("".join(rnd.choice(POOL["ascii"][:26]) for _ in range(rnd.randint(2, 6)))
                        for _ in range(rnd.randint(1, 4))).replace("coding", "kodinq")

    def decoy(self):
        # a cookie-shaped comment AFTER line 2 declares nothing; koi8-r decodes any byte string, so a reader
        # that wrongly honours it is recognisable
        return self.rnd.choice(["# coding: %s", "# -*- coding: %s -*-", "# vim: set fileencoding=%s :"]) % "koi8-r"

    # -- bodies
    def python_lines(self):
        """A valid module; returns (lines, info).  Refactoring targets are unique ASCII-prefixed tokens."""
        rnd = self.rnd
        q = rnd.choice(["'", '"'])
        local = self.ident("loc")
        info = {"local": local, "newlocal": self.ident("ren"), "extract_name": self.ident("ext")}
        L = []
        if rnd.random() < 0.6:
            L.append('"""%s."""' % self.phrase(quote_safe=True).replace('"', "'").replace("\\", "/"))
        imports = ["import os", "import sys", "import json", "from collections import OrderedDict, deque",
                   "import os.path", "from itertools import chain, count", "import re"]
        rnd.shuffle(imports)
        L.extend(imports[: rnd.randint(3, 6)])
        L.append("")
        L.append("# " + self.phrase())
        const = self.ident("CONST")
        L.append("%s = %s%s%s" % (const, q, self.strlit(q), q))
        if self.spec["decoy"]:
            # after two statements that neither the import tidying nor the generated edits remove, so the
            # decoy can never become line 1 or 2
            L.append("%s = %s" % (self.ident("ALIAS"), const))
            L.append(self.decoy())
        L.append("")
        for _ in range(rnd.randint(0, 2)):
            fn = self.ident("fn")
            v = self.ident("v")
            L.append("def %s(%s):" % (fn, v))
            if rnd.random() < 0.5:
                L.append("    # " + self.phrase())
            L.append("    return %s + %s%s%s  # %s" % (v, q, self.strlit(q), q, self.phrase(1, 2)))
            L.append("")
        main = self.ident("main")
        a, b = self.ident("a"), self.ident("b")
        s, res = self.ident("s"), self.ident("res")
        L.append("def %s(%s, %s):" % (main, a, b))
        L.append("    # " + self.phrase())
        L.append("    %s = %s + %s" % (local, a, b))
        L.append("    %s = %s%s%s + %s  # %s" % (s, q, self.strlit(q), q, const, self.phrase(1, 3)))
        info["extract_expr"] = "%s * 2" % local
        L.append("    %s = %s * 2 + len(%s)" % (res, local, s))
        L.append("    return %s, %s, os.sep, sys.argv" % (res, local))
        L.append("")
        if rnd.random() < 0.5:
            cn = self.ident("Cls")
            L.append("class %s:" % cn)
            L.append('    """%s"""' % self.phrase(quote_safe=True).replace('"', "'").replace("\\", "/"))
            L.append("    def m(self, x):")
            L.append("        return x + 1  # " + self.phrase(1, 2))
            L.append("")
        if rnd.random() < 0.7:
            L.append("print(%s(1, 2))" % main)
        else:
            L.append("# " + self.phrase())
        return L, info

    def strlit(self, q):
        return self.phrase().replace("\\", "/").replace("'", "`").replace('"', "`")

    def text_lines(self):
        rnd = self.rnd
        L = []
        for _ in range(rnd.randint(3, 12)):
            r = rnd.random()
            if r < 0.12:
                L.append("")
            elif r < 0.18:
                L.append(" " * rnd.randint(1, 4))
            elif r < 0.3:
                L.append("\t" + self.phrase() + "  ")
            else:
                L.append(self.phrase(1, 8))
        if self.spec["decoy"]:
            L.insert(rnd.randint(min(2, len(L)), len(L)), self.decoy())
        if not L[-1]:
            L[-1] = self.phrase()
        return L, {}

    def build(self):
        spec = self.spec
        head, form, pos = self.header()
        body, info = self.python_lines() if spec["kind"] == "py" else self.text_lines()
        if spec["kind"] == "text":
            # free text must not look like a comment/cookie on the first two lines
            body = [l.replace("#", "+") if i < 2 else l for i, l in enumerate(body)]
            if spec["decoy"]:
                while len(head) + len(body) < 3:
                    body.insert(0, "x")
        lines = head + body
        text = "\n".join(lines) + ("\n" if spec["final"] else "")
        info.update(header_lines=len(head), form=form, pos=pos)
        return text, info


def _ident_ok(u):
    import unicodedata
    return ("a" + u).isidentifier() and u.isidentifier() and unicodedata.normalize("NFKC", u) == u


# ------------------------------------------------------------------------------------------ edits (text domain)
def make_splice(g, text, info, kind):
    """Returns (new_text, label) with new_text != text; never touches the header lines."""
    rnd = g.rnd
    lines = text.split("\n")             # last element "" iff final newline
    nhead = max(info["header_lines"], 2)
    has_final = text.endswith("\n")
    nlines = len(lines) - 1 if has_final else len(lines)
    for _ in range(20):
        if kind == "py":
            r = rnd.random()
            new = list(lines)
            if r < 0.45:
                at = rnd.randint(min(nhead, nlines), nlines)
                if at == nlines and not has_final:
                    continue
                ins = ["# " + g.phrase() for _ in range(rnd.randint(1, 3))]
                new[at:at] = ins
                label = "insert-lines"
            elif r < 0.7:
                idx = [i for i in range(nhead, nlines) if lines[i].lstrip().startswith("# ")
                       and "coding" not in lines[i]]
                if not idx:
                    continue
                i = rnd.choice(idx)
                ind = lines[i][: len(lines[i]) - len(lines[i].lstrip())]
                new[i] = ind + "# " + g.phrase()
                label = "replace-in-line"
            elif r < 0.85:
                idx = [i for i in range(nhead, nlines) if lines[i].lstrip().startswith("# ")
                       and "coding" not in lines[i] and i != nlines - 1]
                if not idx:
                    continue
                del new[rnd.choice(idx)]
                label = "delete-line"
            else:
                # append after the last line: with / without creating a final newline
                tail = "# " + g.phrase()
                if has_final:
                    new[-1:] = [tail] + ([""] if rnd.random() < 0.5 else [])
                else:
                    new[-1] = new[-1] + "  " + tail
                    if rnd.random() < 0.3:
                        new.append("")
                label = "append"
            out = "\n".join(new)
        else:
            start = sum(len(l) + 1 for l in lines[:nhead])
            if start > len(text):
                start = len(text)
            r = rnd.random()
            if r < 0.08:
                # collapse the rest to one unterminated line; without a declaration on lines 1-2 the whole
                # file (no terminator left: the convention then lives only in rope's memory / saved history)
                keep = 0 if (info["header_lines"] == 0 and r < 0.05) else start
                out = text[:keep] + g.phrase()
                label = "collapse"
            else:
                a = rnd.randint(start, len(text))
                b = min(len(text), a + (rnd.randint(0, 12) if r < 0.6 else 0))
                ins = ""
                if r >= 0.3:
                    ins = "\n".join(g.phrase(1, 3) if rnd.random() < 0.8 else ""
                                    for _ in range(rnd.randint(1, 3)))
                    if rnd.random() < 0.3:
                        ins += "\n"
                out = text[:a] + ins + text[b:]
                label = "splice"
        if out != text and "\r" not in out and refcodec.encodable(out, g.codec):
            if label != "collapse" and "\n" not in out:
                continue
            return out, label
    return None, None


# ------------------------------------------------------------------------------------------ worker
_ANCHOR_CALLS = {}


def setup_worker():
    """Install the audit hook once and put counting wrappers on rope's codec anchors (reach evidence)."""
    import functools
    from vlib import audit
    audit.install()
    from rope.base import fscommands

    def counted(name):
        orig = getattr(fscommands, name)

        @functools.wraps(orig)
        def wrapper(*a, **kw):
            _ANCHOR_CALLS[name] = _ANCHOR_CALLS.get(name, 0) + 1
            return orig(*a, **kw)
        setattr(fscommands, name, wrapper)
    for n in ("unicode_to_file_data", "file_data_to_unicode", "read_str_coding"):
        counted(n)


class Stop(Exception):
    """The case ends here (a violation was recorded; later steps would only show its consequences)."""


class Case:
    def __init__(self, spec, res, root):
        self.spec, self.res, self.root = spec, res, root
        self.project = None
        self.audit_seen = 0

    # ---- helpers
    def path(self):
        import os
        return os.path.join(self.root, self.fname)

    def disk(self):
        with open(self.path(), "rb") as f:
            return f.read()

    def violation(self, clause, label, what, **detail):
        spec = self.spec
        detail.update(file=self.fname, encv=spec["encv"], nl=spec["nl"], final=spec["final"],
                      original_bytes=repr(self.orig[:600]))
        hz = _hazards(spec)
        if hz and label.startswith(_ENC_LABELS):
            # an unusual-but-legal header construct is present and the failure is at the codec level: the
            # construct is the mechanism; where and how it surfaces (read / write / exception) is in the detail
            key = "enc|hdr=" + hz[0]
            what = HAZARD_WHAT[hz[0]] + " [first seen as: " + what[:120] + "]"
        elif clause.startswith("refactor:organize") and any(sp in self.orig.decode("latin-1") for sp in SEPS[:4]):
            # the import organiser cuts lines with str.splitlines(): a file with an ASCII separator character
            # (FF/FS/GS/RS) gets lines merged or dropped; when that hits the declaration line the symptom is a
            # re-encoded file instead of a changed line -- one mechanism, one key
            key = "refactor:organize|untouched-line-changed:file-with-separator-char"
        else:
            key = f"{_clause_class(clause, label)}|{label}"
        detail["label"] = label
        self.res.violation(key, what, clause=clause, **detail)
        raise Stop()

    def rope(self, clause, fn, *a, **kw):
        """Call into rope; an exception on these valid inputs is a violation of the clause."""
        try:
            return fn(*a, **kw)
        except Stop:
            raise
        except Exception as e:
            self.violation(clause, "exc:" + core.exc_sig(e),
                           f"{clause}: rope raised {type(e).__name__}: {str(e)[:200]}")

    def expect_bytes(self, clause, expected, dec, what):
        got = self.disk()
        self.res.evals()
        self.res.ev("bytes_compared")
        if got != expected:
            label = refcodec.diagnose(expected, got, dec)
            self.violation(clause, label, f"{what}: bytes on disk differ from the reference ({label})",
                           expected=repr(expected[:600]), got=repr(got[:600]), reference=dec.describe())

    def watched(self, clause, fn, *a, **kw):
        """Run a rope step under the write tracer: only the file (and rope's data folder) may be written."""
        from vlib import audit
        w = audit.watch([self.root])
        with w as events:
            out = self.rope(clause, fn, *a, **kw)
        rel = audit.written_paths(events, self.root)
        self.res.ev("audit_events", len(events))
        other = sorted(p for p in rel if p != self.fname and not p.startswith(".ropeproject"))
        if other:
            self.violation(clause, "other-path-written",
                           f"{clause}: paths other than the edited file were written",
                           paths=other[:5])
        return out, events

    def open_project(self):
        from rope.base.project import Project
        self.project = Project(self.root, automatic_soa=False, save_history=True)
        return self.project

    def fresh_file(self):
        return self.project.get_file(self.fname)

    # ---- the scenario
    def run(self):
        import os
        from rope.base import change
        spec, res = self.spec, self.res
        g = Gen(spec)
        text, info = g.build()
        codec, bom, _ = ENCV[spec["encv"]]
        self.fname = "mod.py" if spec["kind"] == "py" else "notes.txt"
        data = refcodec.encode(text, codec, spec["nl"], bom)
        self.orig = data
        # self-validation of the generator against the reference (a harness bug, never a verdict)
        dec = refcodec.decode(data)
        assert dec.text == text and dec.newline == spec["nl"] and dec.bom == bom, "generator/reference disagree"
        assert refcodec._norm_codec(dec.codec) == refcodec._norm_codec(codec), (dec.codec, codec)
        if spec["kind"] == "py":
            # the interpreter accepts this module (LF form: compile() of a byte string, unlike reading a
            # file, looks for the cookie with "\n"-only line splitting)
            compile(refcodec.encode(text, codec, "LF", bom), "mod.py", "exec")
        os.makedirs(self.root)
        with open(self.path(), "wb") as f:
            f.write(data)
        nonascii = any(b > 127 for b in data)
        res.ev("nl:" + spec["nl"])
        res.ev("final:" + ("yes" if spec["final"] else "no"))
        res.ev("encv:" + spec["encv"])
        res.ev("cls:" + g.cls)
        if nonascii:
            res.ev("nonascii_files")
        if spec["seps"] and any(s in text for s in SEPS):
            res.ev("files_with_line_separators")
        if spec["decoy"]:
            res.ev("files_with_decoy_cookie")
        if getattr(g, "sep_before_cookie", False):
            res.ev("files_with_separator_before_line2_cookie")
        plain = (not nonascii and spec["nl"] == "LF" and spec["final"] and spec["encv"] == "none")
        self.open_project()

        # -- read
        f0 = self.fresh_file()
        rtext = self.rope("read", f0.read)
        body, had_bom_char = refcodec.strip_bom_char(rtext)
        res.evals()
        if body != dec.text:
            self.violation("read", _read_label(body, data, dec),
                           "File.read() differs from the reference decoding of the file",
                           rope_text=body[:300], reference_text=dec.text[:300], reference=dec.describe())
        prefix = BOMC if had_bom_char else ""
        res.ev("read_agrees")

        # -- roundtrip
        self.watched("roundtrip", f0.write, rtext)
        self.expect_bytes("roundtrip", data, dec, "File.write(File.read())")
        f1 = self.fresh_file()
        self.watched("roundtrip", lambda: f1.write(f1.read()))
        self.expect_bytes("roundtrip", data, dec, "File.write(File.read())")

        # -- no-op ChangeContents through a File object that has not been read
        self.watched("noop", self.project.do, change.ChangeContents(self.fresh_file(), rtext))
        self.expect_bytes("noop", data, dec, "ChangeContents with the same text")
        self.rope("noop-undo", self.project.history.undo)
        self.expect_bytes("noop-undo", data, dec, "undo of a no-op ChangeContents")

        # -- edit
        new_text, elabel = make_splice(g, dec.text, info, spec["kind"])
        if new_text is None:
            res.outcome("no-edit-generated")
            return
        method = g.rnd.choice(["ChangeContents", "ChangeContents-old-given", "File.write", "File.write-read-object"])
        expected = refcodec.encode_like(dec, new_text)
        if method == "ChangeContents":
            self.watched("edit", self.project.do, change.ChangeContents(self.fresh_file(), prefix + new_text))
        elif method == "ChangeContents-old-given":
            self.watched("edit", self.project.do,
                         change.ChangeContents(self.fresh_file(), prefix + new_text, old_contents=rtext))
        elif method == "File.write":
            self.watched("edit", self.fresh_file().write, prefix + new_text)
        else:
            self.watched("edit", f0.write, prefix + new_text)
        self.expect_bytes("edit", expected, dec, f"edit ({elabel}) through {method}")
        if expected != data:
            res.ev("edit_effective")
        back = self.rope("readback", self.fresh_file().read)
        res.evals()
        if back != prefix + new_text:
            self.violation("readback", _read_label(refcodec.strip_bom_char(back)[0], expected, dec),
                           "text written through rope does not read back equal",
                           written=(prefix + new_text)[:300], read=back[:300])
        res.ev("readback_checked")
        self.watched("undo", self.project.history.undo)
        self.expect_bytes("undo", data, dec, "undo of the edit")
        res.ev("undo_exact_checked")
        self.watched("redo", self.project.history.redo)
        self.expect_bytes("redo", expected, dec, "redo of the edit")
        res.ev("redo_exact_checked")
        before_last, after_last = data, expected
        cur_text, cur = new_text, expected
        rkinds = []

        # -- real refactorings inside the file (cumulative; the one of the spec first)
        if spec["kind"] == "py":
            order = ["rename", "organize", "extract"]
            k = order.index(spec["op"])
            for rkind in order[k:] + order[:k]:
                done = self.refactor(rkind, g, info, dec, cur_text, cur, prefix)
                if done is not None:
                    before_last, after_last = cur, done[0]
                    cur, cur_text = done
                    rkinds.append(rkind)
                    if rkind == "rename":
                        info["extract_expr"] = info["extract_expr"].replace(info["local"], info["newlocal"])
                        info["local"] = info["newlocal"]
        rkind = "+".join(rkinds) or "-"

        # -- close, reopen, undo, redo
        self.rope("close", self.project.close)
        self.open_project()
        self.watched("reopen-undo", lambda: self.project.history.undo())
        self.expect_bytes("reopen-undo", before_last, dec, "undo after close/reopen")
        res.ev("reopen_undo_checked")
        self.watched("reopen-redo", lambda: self.project.history.redo())
        self.expect_bytes("reopen-redo", after_last, dec, "redo after close/reopen")
        res.ev("reopen_redo_checked")

        # -- a new file created and written through rope reads back equal, and means what python reads
        self.create_clause(dec, cur_text)
        self.rope("close", self.project.close)
        self.project = None

        if not plain and expected != data:
            res.shape([spec["encv"], info["form"], info["pos"], spec["nl"], spec["final"], g.cls, spec["kind"],
                       method, rkind])
        res.outcome("held")
        res.sample({"spec": spec, "file_bytes": repr(data[:400]), "edit": elabel, "method": method,
                    "after_edit": repr(expected[:400]), "refactoring": rkind, "reference": dec.describe()})

    def create_clause(self, dec, text):
        res = self.res
        name = "created.py" if self.fname.endswith(".py") else "created.txt"
        keep = self.fname
        newf = self.rope("create", self.project.root.create_file, name)
        self.fname = name
        try:
            self.watched("create-write", newf.write, text)
            back = self.rope("create-readback", self.project.get_file(name).read)
            res.evals()
            if back != text:
                label = ("bom-char-added" if back == BOMC + text else
                         _read_label(refcodec.strip_bom_char(back)[0], self.disk(), dec))
                self.violation("create-readback", label, "text written to a new file does not read back equal",
                               written=text[:300], read=back[:300], bytes_on_disk=repr(self.disk()[:300]))
            res.evals()
            try:
                there = refcodec.decode(self.disk())
            except refcodec.RefError as e:
                self.violation("create-write", "bytes-outside-reference:" + str(e).split(":")[0],
                               "a new file written through rope is not decodable by the reference",
                               written=text[:300], bytes_on_disk=repr(self.disk()[:300]))
            if there.text != text:
                self.violation("create-write", _read_label(text, self.disk(), there).replace(
                               "declared-encoding-ignored", "written-in-undeclared-encoding"),
                               "a new file written through rope does not hold the written text for python",
                               written=text[:300], python_reads=there.text[:300],
                               bytes_on_disk=repr(self.disk()[:300]))
            res.ev("create_checked")
        finally:
            self.fname = keep

    # ---- refactorings
    def refactor(self, kind, g, info, dec, cur_text, cur, prefix):
        """Returns (bytes, text) after the refactoring (None if refused / nothing to do)."""
        from rope.base import exceptions
        res = self.res
        clause = "refactor:" + kind
        resource = self.fresh_file()
        off = len(prefix)
        lines = cur_text.split("\n")
        try:
            if kind == "rename":
                from rope.refactor.rename import Rename
                name = info["local"]
                touched = {i for i, l in enumerate(lines) if name in l}
                changes = Rename(self.project, resource, off + cur_text.index("    %s = " % name) + 4).get_changes(
                    info["newlocal"], resources=[resource])
            elif kind == "extract":
                from rope.refactor.extract import ExtractVariable
                expr = info["extract_expr"]
                start = cur_text.index(expr)
                touched = {i for i, l in enumerate(lines) if expr in l}
                changes = ExtractVariable(self.project, resource, off + start, off + start + len(expr)
                                          ).get_changes(info["extract_name"])
            else:
                from rope.refactor.importutils import ImportOrganizer
                touched = _import_block(lines) | {i for i, l in enumerate(lines) if not l.strip()}
                changes = ImportOrganizer(self.project).organize_imports(resource)
        except exceptions.RopeError as e:
            res.outcome("refactoring-refused:%s:%s" % (kind, type(e).__name__))
            res.ev("refactor_refused")
            return None
        except Exception as e:
            self.violation(clause, "exc:" + core.exc_sig(e),
                           f"{kind} on a valid module raised {type(e).__name__}: {str(e)[:200]}",
                           module=cur_text[:600])
        if changes is None:
            res.outcome("refactoring-nothing-to-do")
            return None
        leaves = _leaves(changes)
        if len(leaves) != 1 or leaves[0].resource.path != self.fname:
            self.violation(clause, "unexpected-change-shape", f"{kind} produced changes other than one edit of the file",
                           changes=[str(c) for c in leaves][:5])
        new_contents = leaves[0].new_contents
        new_body, kept = refcodec.strip_bom_char(new_contents)
        if prefix and not kept:
            self.violation(clause, "computed-text-drops-bom",
                           f"{kind} computed new contents without the U+FEFF that stands for the file's BOM",
                           before=cur_text[:300], computed=new_contents[:300])
        if new_body == cur_text:
            res.outcome("refactoring-nothing-to-do")
            return None
        if not refcodec.encodable(new_body, dec.codec) or "\r" in new_body:
            self.violation(clause, "computed-text-has-cr" if "\r" in new_body else "computed-text-not-encodable",
                           f"{kind} computed a text with CR / that the file's encoding cannot hold",
                           computed=new_body[:400])
        expected = refcodec.encode_like(dec, new_body)
        self.watched(clause, self.project.do, changes)
        self.expect_bytes(clause, expected, dec, f"{kind}: bytes vs reference-encode(text rope computed)")
        after = expected
        # untouched lines byte-identical, in order
        res.evals()
        nb = len(refcodec.BOM) if dec.bom else 0
        old_lines = refcodec.split_lines(cur[nb:], dec.newline)
        new_lines = refcodec.split_lines(after[nb:], dec.newline)
        pos = 0
        for i, l in enumerate(old_lines):
            if i in touched:
                continue
            try:
                pos = new_lines.index(l, pos) + 1
            except ValueError:
                txt = l.decode(refcodec._norm_codec(dec.codec), "replace")
                why = ("final-line" if i == len(old_lines) - 1 and not l.endswith(refcodec.NL_BYTES[dec.newline])
                       else "file-with-separator-char" if any(s in cur_text for s in SEPS) else "other")
                self.violation(clause, "untouched-line-changed:" + why,
                               f"{kind} changed or dropped a line outside the edit",
                               line=repr(l), before=repr(cur[:800]), after=repr(after[:800]))
        nlb = refcodec.NL_BYTES[dec.newline]
        if cur.endswith(nlb) != after.endswith(nlb):
            self.violation(clause, "final-newline-" + ("added" if after.endswith(nlb) else "removed"),
                           f"{kind} changed whether the last line is terminated",
                           before=repr(cur[-200:]), after=repr(after[-200:]))
        res.ev("refactor_effective")
        res.ev(clause)
        res.ev("untouched_lines_checked", len(old_lines) - len(touched))
        self.watched(clause + "-undo", self.project.history.undo)
        self.expect_bytes(clause + "-undo", cur, dec, f"undo of {kind}")
        self.watched(clause + "-redo", self.project.history.redo)
        self.expect_bytes(clause + "-redo", after, dec, f"redo of {kind}")
        return after, new_body


_ENC_LABELS = ("declared-encoding", "written-in-undeclared-encoding", "reencoded", "bom-", "undecodable",
               "non-ascii-text-differs", "text-differs", "bytes-outside-reference", "exc:LookupError", "exc:Unicode",
               "computed-text-not-encodable")
_TEXT_LEVEL = ("untouched-line-changed", "computed-text-has-cr", "computed-text-drops-bom", "final-newline-", "unexpected-change-shape", "computed-text-not-encodable")


def _clause_class(clause, label):
    """Steps that go through the same write path share a key prefix."""
    if label.startswith("exc:"):
        return "exc"       # the signature names the raising rope function; the step does not matter
    if clause.startswith("refactor:"):
        if clause.endswith("-undo"):
            return "undo"
        if clause.endswith("-redo"):
            return "redo"
        if label.startswith(_TEXT_LEVEL):
            return clause
        return "write"
    return {"noop": "write", "edit": "write", "noop-undo": "undo"}.get(clause, clause)


def _leaves(ch):
    from rope.base import change
    if isinstance(ch, change.ChangeSet):
        out = []
        for c in ch.changes:
            out.extend(_leaves(c))
        return out
    return [ch]


def _import_block(lines):
    """Indices of the import statements and of the blank lines around them (what organize_imports may rewrite)."""
    imp = [i for i, l in enumerate(lines) if l.startswith("import ") or l.startswith("from ")]
    touched = set(imp)
    for i in imp:
        for j in (i - 1, i + 1):
            k = j
            while 0 <= k < len(lines) and lines[k].strip() == "":
                touched.add(k)
                k += 1 if j > i else -1
    return touched


def _read_label(body, data, dec):
    """How rope's decoded text differs from the reference decoding (finite alphabet)."""
    if "\r" in body:
        return "cr-left-in-text"
    raw = data[len(refcodec.BOM):] if data.startswith(refcodec.BOM) else data
    declared = refcodec._norm_codec(dec.codec)
    for cand in refcodec._CANDIDATES:
        c = refcodec._norm_codec(cand)
        if c == declared:
            continue
        for d in (raw, data):
            try:
                t = d.decode(c).replace("\r\n", "\n").replace("\r", "\n")
            except UnicodeError:
                continue
            if t in (body, BOMC + body):
                used = {"utf-8": "utf-8", "iso8859-1": "latin-1"}.get(c, "other-codec")
                return "declared-encoding-ignored:used-" + used
    if body.replace("\n", "") == dec.text.replace("\n", ""):
        return "line-structure-differs"
    return "text-differs"


def run_case(spec):
    res = core.Result()
    calls0 = dict(_ANCHOR_CALLS)
    try:
        return _run_case(spec, res)
    finally:
        for k, v in _ANCHOR_CALLS.items():
            if v - calls0.get(k, 0):
                res.ev("anchor:" + k, v - calls0.get(k, 0))


def _run_case(spec, res):
    with core.Scratch() as tmp:
        case = Case(spec, res, tmp + "/p")
        try:
            case.run()
        except Stop:
            pass
        finally:
            if case.project is not None:
                try:
                    case.project.close()
                except Exception:
                    pass
    return res


if __name__ == "__main__":
    core.main(sys.modules[__name__])
