#!/usr/bin/env python3
"""Run checks against the seeded property-breaking changes in /verif/seeded/<name>/patch.diff.

Each patch is applied to a scratch copy of /repo (never to /repo itself); the check of the property
it targets (and any extra ids given) is run with ROPE_ROOT pointing at the copy and with evidence
redirected to the scratch area.  Prints one line per (patch, check): CAUGHT (exit 1 with an unknown
VIOLATION key) / MISSED (exit 0) / INCONCLUSIVE.
usage: tools/run_seeded.py [--tier quick|thorough] [--only NAME] [--checks C01,C02]"""
import json
import os
import shutil
import subprocess
import sys
import tempfile
from pathlib import Path

ROOT = Path(__file__).resolve().parents[1]
args = sys.argv[1:]
tier, only, extra = "quick", None, None
while args:
    a = args.pop(0)
    if a == "--tier":
        tier = args.pop(0)
    elif a == "--only":
        only = args.pop(0)
    elif a == "--checks":
        extra = args.pop(0).split(",")
base = tempfile.mkdtemp(prefix="verif-seeded-", dir="/dev/shm")
results = []
try:
    for d in sorted((ROOT / "seeded").iterdir()):
        if not (d / "patch.diff").exists() or (only and d.name != only):
            continue
        meta = json.loads((d / "meta.json").read_text()) if (d / "meta.json").exists() else {}
        prop = meta.get("property", d.name.split("-")[0])
        copy = os.path.join(base, d.name)
        subprocess.run(["git", "-C", "/repo", "worktree", "prune"], capture_output=True)
        shutil.copytree("/repo", copy, ignore=shutil.ignore_patterns(".git", "__pycache__", "*.pyc", ".pytest_cache"))
        ap = subprocess.run(["patch", "-p1", "-s", "-d", copy, "-i", str(d / "patch.diff")], capture_output=True, text=True)
        if ap.returncode != 0:
            print(f"{d.name}: patch does not apply: {ap.stdout[-300:]} {ap.stderr[-300:]}")
            results.append((d.name, prop, "PATCH-FAILED", ""))
            shutil.rmtree(copy, ignore_errors=True)
            continue
        for cid in (extra or [prop]):
            env = dict(os.environ, ROPE_ROOT=copy, VERIF_EVIDENCE_DIR=os.path.join(base, "ev-" + d.name),
                       VERIF_SEED=os.environ.get("VERIF_SEED", "0"))
            r = subprocess.run([str(ROOT / "check"), cid, "--tier", tier], capture_output=True, text=True, env=env, cwd=str(ROOT))
            keys = [l.strip() for l in r.stdout.splitlines() if l.strip().startswith("key=")]
            verdict = {0: "MISSED", 1: "CAUGHT", 2: "INCONCLUSIVE"}.get(r.returncode, f"EXIT{r.returncode}")
            results.append((d.name, cid, verdict, "; ".join(k[:140] for k in keys[:3])))
            print(f"{d.name:28s} {cid} {verdict:12s} {'; '.join(k[:160] for k in keys[:2])}", flush=True)
        shutil.rmtree(copy, ignore_errors=True)
finally:
    shutil.rmtree(base, ignore_errors=True)
caught = sum(1 for r in results if r[2] == "CAUGHT")
print(f"summary: {caught}/{len(results)} caught")
